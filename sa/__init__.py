"""Static-analysis machinery for the htstabilizer properties (see /verif/DESIGN.md)."""
