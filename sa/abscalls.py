"""Call semantics of the abstract interpreter: repo functions (inlined when circuit-relevant,
otherwise opaque and recorded as events), Qiskit/numpy/stdlib axioms (Q1-Q5), container methods."""
from __future__ import annotations
import ast
from .absval import *
from . import pyfacts
from .absint import (Unsupported, GATES1, GATES2, GATES3, STR_LIKE_METHODS, _Raise, _MaybeExit, Frame)

# helpers defined in the glue modules are always inlined: field provenance (K2, W8) must survive refactoring into helpers
GLUE_MODULES = {"circuit_lookup", "mub_circuits", "stabilizer_circuits", "tomography"}

PURE_CIRCUIT_CONSUMERS = {
    "qiskit.quantum_info.StabilizerState", "qiskit.quantum_info.Clifford", "qiskit.quantum_info.Statevector",
    "qiskit.quantum_info.Operator", "qiskit.quantum_info.DensityMatrix", "builtins.print", "builtins.len",
    "builtins.isinstance", "builtins.id", "builtins.type", "builtins.repr", "builtins.str", "numpy.array",
    "qiskit.quantum_info.state_fidelity",
}


def do_call(I, e: ast.Call, fr):
    callee = I.eval(e.func, fr)
    args, kwargs = [], {}
    for a in e.args:
        if isinstance(a, ast.Starred):
            v = I.eval(a.value, fr)
            o = I.obj(v)
            if o is not None and o.items is not None:
                args.extend(o.items)
            elif o is not None and "mapsplit" in o.meta:
                args.append(Sym("star", o.meta["mapsplit"]))
            else:
                args.append(I.derive("star", v))       # keeps the provenance of the elements
        else:
            args.append(I.eval(a, fr))
    for k in e.keywords:
        if k.arg is None:
            kwargs["**"] = I.eval(k.value, fr)
        else:
            kwargs[k.arg] = I.eval(k.value, fr)
    return call_value(I, callee, args, kwargs, e, fr)


def call_value(I, callee, args, kwargs, e, fr):
    if isinstance(callee, Alt):
        out = None
        live = [c for c in callee.vals if not (isinstance(c, Const) and c.v is None)]
        if not live:
            raise _Raise("TypeError: 'NoneType' object is not callable", e)
        if len(live) > 1:
            I.maybe += 1       # exactly one alternative runs: effects of each are 'maybe'
        try:
            for c in live:     # calling None raises: that alternative contributes no value
                out = join(out, call_value(I, c, args, dict(kwargs), e, fr))
        finally:
            if len(live) > 1:
                I.maybe -= 1
        return out
    if isinstance(callee, FuncV):
        return call_repo(I, callee.func, args, kwargs, e, fr, closure=callee.closure)
    if isinstance(callee, ClassV):
        return instantiate(I, callee.cls, args, kwargs, e, fr)
    if isinstance(callee, ExtV):
        return call_external(I, callee.dotted, args, kwargs, e, fr)
    if isinstance(callee, Bound):
        return call_method(I, callee, args, kwargs, e, fr)
    if isinstance(callee, LambdaV):
        return I.call_lambda(callee, args, kwargs)
    if isinstance(callee, Sym):
        # calling an opaque value (lambda, local class, np.int64 alias, dynamically selected method ...)
        for a in list(args) + list(kwargs.values()):
            o = I.obj(a)
            if o is not None and o.kind == "circuit":
                o.term = t_seq(o.term, ("unknown", f"passed to a callee that is not statically known at {where(fr, e)}"))
        return I.derive("call", callee, *args, *kwargs.values())
    raise Unsupported(f"call of {callee!r} at {pyfacts.where(fr.func, e)}")


def where(fr, e):
    return pyfacts.where(fr.func, e)


def call_repo(I, f, args, kwargs, e, fr, closure=None, self_val=None):
    I.events.append(("call", f.fq, tuple(args), dict(kwargs), where(fr, e), fr.func.fq, e, tuple(I.swallow)))
    has_ref_circuit = any(isinstance(a, Ref) and I.heap[a.oid].kind == "circuit" for a in list(args) + list(kwargs.values()))
    has_ref_obj = (f.cls is not None and not f.is_static and bool(args) and isinstance(args[0], Ref)
                   and I.heap[args[0].oid].kind == "record" and I.heap[args[0].oid].cls is not None
                   and I.prog.find_method(I.heap[args[0].oid].cls, f.name) is f)
    glue = f.module.name in GLUE_MODULES and not getattr(f, "nested", False)
    # one-line predicates / accessors (`return <expr>`) are inlined wherever they live: opaque results of
    # isinstance-style helpers would otherwise fork infeasible paths
    body = [st for st in f.node.body if not (isinstance(st, ast.Expr) and isinstance(st.value, ast.Constant))]
    tiny = len(body) == 1 and isinstance(body[0], ast.Return) and body[0].value is not None and \
        not any(isinstance(n, (ast.ListComp, ast.GeneratorExp, ast.SetComp, ast.DictComp, ast.Lambda)) for n in ast.walk(body[0].value)) and \
        sum(1 for n in ast.walk(body[0].value) if isinstance(n, ast.Call)) <= 6
    glue = glue or tiny
    if I.relevant(f) or has_ref_obj or glue or getattr(f, "nested", False) and closure is not None and I.relevant(fr.func):
        if getattr(f, "nested", False) and closure is not None:
            # closures: make the defining frame's variables visible
            saved = None
        ret = I.call_function(f, list(args), dict(kwargs), e, closure=closure if getattr(f, "nested", False) else None)
        if any("cache" in d for d in f.decorators):
            # functools.cache / lru_cache: the returned object is handed out again on every later call
            I.mark_shared(ret, f"cache decorator of {f.fq}")
            I.events.append(("decorated-cache", f.fq, where(fr, e)))
        return ret
    # opaque: pure with respect to circuits (its closure contains no circuit operation)
    if has_ref_circuit:
        I.notes.append(f"circuit passed to non-circuit function {f.fq} at {where(fr, e)} (treated as read-only)")
    c = I.prog.ann_class(f.module, f.node.returns)
    ret_ann = ast.unparse(f.node.returns) if f.node.returns is not None else ""
    return Sym("call", f.fq, *[I.sym_of(a) if isinstance(a, Ref) else a for a in args], typ=c,
               maybe_none=("Optional" in ret_ann or ret_ann == "" and _may_return_none(f)))


def _may_return_none(f):
    for n in ast.walk(f.node):
        if isinstance(n, ast.Return) and (n.value is None or (isinstance(n.value, ast.Constant) and n.value.value is None)):
            return True
    return False


def class_relevant(I, cls):
    return any(I.relevant(m) for m in cls.methods.values())


def instantiate(I, cls, args, kwargs, e, fr):
    has_ref = any(isinstance(a, Ref) for a in list(args) + list(kwargs.values()))
    init = I.prog.find_method(cls, "__init__")
    I.events.append(("new", cls.fq, tuple(args), dict(kwargs), where(fr, e), fr.func.fq, e))
    if init is not None and (class_relevant(I, cls) or has_ref or cls.module.name in GLUE_MODULES):
        o = I.alloc("record", site=where(fr, e), cls=cls)
        o.meta["ctor_args"] = tuple(I.sym_of(a) if isinstance(a, Ref) else a for a in args)
        self_ref = Ref(o.oid)
        I.call_function(init, [self_ref] + list(args), dict(kwargs), e)
        return self_ref
    if init is None:
        names = [st.target.id for st in cls.node.body if isinstance(st, ast.AnnAssign) and isinstance(st.target, ast.Name)]
        tuple_like = any(b.split(".")[-1] in ("NamedTuple",) for b in cls.bases) or any("dataclass" in ast.unparse(d) for d in cls.node.decorator_list)
        if names and tuple_like:
            o = I.alloc("record", site=where(fr, e), cls=cls)
            o.meta["ctor_args"] = tuple(I.sym_of(a) if isinstance(a, Ref) else a for a in args)
            pos = list(args)
            if len(pos) == 1 and isinstance(pos[0], Sym) and pos[0].tag == "star" and pos[0].args and isinstance(pos[0].args[0], Sym) and pos[0].args[0].tag == "mapsplit":
                ms = pos[0].args[0]
                fn, recv, sargs = ms.args[0].v, ms.args[1], ms.args[2:]
                pos = [Sym(fn, Sym("field", recv, *sargs, Const(i), prov=recv.prov), prov=recv.prov) for i in range(len(names))]
            for i, nm in enumerate(names):
                if nm in kwargs:
                    o.fields[nm] = kwargs[nm]
                elif i < len(pos) and not (isinstance(pos[i], Sym) and pos[i].tag == "star"):
                    o.fields[nm] = pos[i]
                else:
                    o.fields[nm] = Sym("attr", Sym("new", cls.name, *o.meta["ctor_args"]), nm)
            return Ref(o.oid)
    return Sym("new", cls.name, *[I.sym_of(a) if isinstance(a, Ref) else a for a in args], typ=cls)


# ---------------------------------------------------------------------------------------------
def call_external(I, dotted, args, kwargs, e, fr):
    name = dotted.split(".")[-1]
    short = dotted
    if dotted.startswith("builtins."):
        return call_builtin(I, name, args, kwargs, e, fr)
    parts = dotted.split(".")
    if len(parts) >= 2 and parts[-2] == "QuantumCircuit" and args and I.obj(args[0]) is not None and I.obj(args[0]).kind == "circuit":
        # QuantumCircuit.cx(qc, a, b): the unbound method applied to a circuit
        return circuit_method(I, args[0], I.obj(args[0]), name, list(args[1:]), kwargs, e, fr)
    if name == "QuantumCircuit" and dotted.startswith("qiskit"):
        width = args[0] if args else None
        return I.new_circuit(t_empty(), site=where(fr, e), width=width)
    if name in ("OrderedDict", "defaultdict", "WeakValueDictionary", "ChainMap", "Counter") and dotted.split(".")[0] in ("collections", "weakref"):
        o = I.alloc("dict", site=where(fr, e))
        return Ref(o.oid)
    if name == "QuantumRegister":
        return Sym("qreg", *args)
    if name == "PassManager":
        o = I.alloc("passmanager", site=where(fr, e))
        o.fields["passes"] = args[0] if args else Const(None)
        return Ref(o.oid)
    if name == "InverseCancellation":
        gl = I.obj(args[0]) if args else None
        gates = []
        if gl is not None and gl.items is not None:
            for g in gl.items:
                gates.append(_gate_name(I, g))
        else:
            gates.append("?")
        return Sym("invcancel", Const(tuple(gates)))
    if dotted.startswith("qiskit.circuit.library.") and name.endswith("Gate"):
        return Sym("gate", Const(name))
    if name in ("read_text",) or dotted.endswith("resources.read_text"):
        fn = args[1] if len(args) > 1 else kwargs.get("resource", Sym("?"))
        tag = ("file", vkey(fn))
        I.events.append(("read-file", fn, where(fr, e), fr.func.fq, e))
        return Sym("filetext", fn, prov=frozenset([tag]))
    if dotted in ("copy.copy",):
        return shallow_copy(I, args[0], e, fr)
    if dotted in ("copy.deepcopy",):
        return deep_copy(I, args[0], e, fr)
    if dotted.startswith("functools."):
        return Sym("decorator", Const(dotted))
    # circuits handed to an unknown external callee: only the whitelisted consumers are pure
    for a in list(args) + list(kwargs.values()):
        o = I.obj(a)
        if o is not None and o.kind == "circuit" and dotted not in PURE_CIRCUIT_CONSUMERS and not dotted.startswith("qiskit.quantum_info."):
            o.term = t_seq(o.term, ("unknown", f"passed to external {dotted} at {where(fr, e)}"))
    if dotted in ("os.path.split", "posixpath.split", "ntpath.split") and args:
        # (directory part, last component): for a file name assembled without separators the last component is the name itself
        p0 = args[0]
        has_sep = isinstance(p0, Sym) and any(isinstance(x, Const) and isinstance(x.v, str) and ("/" in x.v or "\\" in x.v) for x in p0.args)
        if isinstance(p0, Sym) and p0.tag == "fstr" and not has_sep:
            return I.new_list(items=[Sym("dirname", p0, maybe_none=False), p0], kind="tuple", site=where(fr, e))
    if dotted in ("os.path.basename", "posixpath.basename") and args and isinstance(args[0], Sym) and args[0].tag == "fstr":
        return args[0]
    if dotted.endswith("resources.files"):
        return Sym("ext:importlib.resources.files", *[a if not isinstance(a, Ref) else I.sym_of(a) for a in args])
    if dotted.startswith("itertools."):
        return Sym(name, *[I.sym_of(a) if isinstance(a, Ref) else a for a in args])
    return I.derive("ext:" + dotted, *args, *kwargs.values())


def _gate_name(I, g):
    if isinstance(g, Sym) and g.tag == "gate":
        return g.args[0].v
    if isinstance(g, Sym) and g.tag.startswith("ext:"):
        return g.tag.split(".")[-1]
    if isinstance(g, Sym) and g.tag == "call" and g.args and isinstance(g.args[0], Sym) and g.args[0].tag == "gate":
        return g.args[0].args[0].v
    o = I.obj(g)
    if o is not None and o.items is not None:
        return tuple(_gate_name(I, x) for x in o.items)
    return "?" + repr(vkey(g))


def shallow_copy(I, v, e, fr):
    o = I.obj(v)
    if o is None:
        return v if isinstance(v, (Const,)) else I.derive("copy", v)
    n = I.alloc(o.kind, site=where(fr, e), cls=o.cls)
    if o.kind == "circuit" and o.origin[0] != "fresh":
        # a shallow copy of a circuit shares its instruction list with the original
        n.origin = o.origin
    n.fields = dict(o.fields)
    n.elem, n.items, n.term, n.width = o.elem, (list(o.items) if o.items is not None else None), o.term, o.width
    n.meta = dict(o.meta)
    return Ref(n.oid)


def deep_copy(I, v, e, fr, seen=None):
    seen = seen if seen is not None else {}
    if isinstance(v, Alt):
        return Alt([deep_copy(I, x, e, fr, seen) for x in v.vals])
    o = I.obj(v)
    if o is None:
        return v
    if o.oid in seen:
        return seen[o.oid]
    n = I.alloc(o.kind, site=where(fr, e), cls=o.cls)
    r = Ref(n.oid)
    seen[o.oid] = r
    n.fields = {k: deep_copy(I, x, e, fr, seen) for k, x in o.fields.items()}
    n.elem = deep_copy(I, o.elem, e, fr, seen) if o.elem is not None else None
    n.items = [deep_copy(I, x, e, fr, seen) for x in o.items] if o.items is not None else None
    n.term, n.width, n.meta = o.term, o.width, dict(o.meta)
    return r


def call_builtin(I, name, args, kwargs, e, fr):
    a0 = args[0] if args else None
    if name == "isinstance":
        return isinstance_test(I, args[0], e.args[1], fr)
    if name == "len":
        o = I.obj(a0)
        if o is not None and o.items is not None and not I.weak(o):
            return Const(len(o.items))
        if isinstance(a0, Const) and isinstance(a0.v, (str, tuple, list)):
            return Const(len(a0.v))
        return Sym("len", I.sym_of(a0) if isinstance(a0, Ref) else a0)
    if name in ("list", "tuple"):
        if a0 is None:
            return I.new_list(items=[], kind=name, site=where(fr, e))
        o = I.obj(a0)
        if o is not None and o.kind in ("list", "tuple"):
            r = I.new_list(elem=o.elem, items=o.items, kind=name, site=where(fr, e))
            I.obj(r).meta["identity_conv_of"] = o.meta.get("identity_conv_of", I.sym_of(a0))
            return r
        r = I.new_list(elem=I.iter_elem(a0, fr, e), kind=name, site=where(fr, e))
        I.obj(r).meta["identity_conv_of"] = a0 if isinstance(a0, Sym) and a0.tag == "param" else None
        if isinstance(a0, Sym) and a0.tag in ("reversed", "sorted", "map", "filter", "zip", "enumerate", "range"):
            I.obj(r).meta["identity_conv_of"] = None
        return r
    if name == "dict":
        o = I.alloc("dict", site=where(fr, e))
        src = I.obj(a0) if a0 is not None else None
        if src is not None:
            o.elem = src.elem
            o.meta["stores"] = list(src.meta.get("stores", []))
        return Ref(o.oid)
    if name == "set":
        return I.new_list(elem=I.iter_elem(a0, fr, e) if a0 is not None else None, kind="list", site=where(fr, e))
    if name in ("range", "enumerate", "zip", "reversed", "sorted", "filter", "map", "iter"):
        tag = {"iter": "iterof"}.get(name, name)
        return Sym(tag, *[a for a in args])
    if name == "next":
        return I.iter_elem(a0, fr, e)
    if name == "str" and len(args) == 1 and isinstance(a0, Sym) and a0.tag in ("fstr", "filetext", "field", "part"):
        return a0          # str() of a string is the string
    if name in ("min", "max") and len(args) == 1 and I.obj(a0) is not None and I.obj(a0).kind in ("list", "tuple"):
        ao = I.obj(a0)
        if ao.items:
            if any(isinstance(x, Ref) for x in ao.items):
                return Alt(list(ao.items))          # one of the elements (objects keep their identity)
        elif isinstance(ao.elem, (Ref, Alt)):
            return ao.elem
    if name in ("int", "float", "bool", "str", "abs", "min", "max", "sum", "any", "all", "round", "repr", "hash", "id", "ord", "chr", "bin", "format", "divmod", "pow"):
        if name in ("int", "bool", "str", "abs") and isinstance(a0, Const) and len(args) == 1:
            try:
                return Const({"int": int, "bool": bool, "str": str, "abs": abs}[name](a0.v))
            except Exception:
                pass
        return I.derive(name, *args)
    if name == "print":
        return Const(None)
    if name in ("getattr",):
        if isinstance(args[1], Const):
            return I.getattr(args[0], args[1].v, e, fr)
        names = args[1].vals if isinstance(args[1], Alt) else ([args[1]] if isinstance(args[1], Const) else None)
        if names:
            names = [n for n in names if not (isinstance(n, Sym) and n.tag == "noelem")]
        if names and all(isinstance(n, Const) and isinstance(n.v, str) for n in names):
            # the attribute name ranges over a known finite set of constants (e.g. a table of gate names)
            return Alt([I.getattr(args[0], n.v, e, fr) for n in names])
        o = I.obj(args[0])
        if o is not None and o.kind == "circuit":
            # a method chosen at run time may append any gate
            o.term = t_seq(o.term, ("unknown", f"method of the circuit selected dynamically via getattr at {where(fr, e)}"))
        return I.derive("builtin:getattr", *args)
    if name == "setattr" and len(args) == 3:
        o = I.obj(args[0])
        names = args[1].vals if isinstance(args[1], Alt) else [args[1]]
        names = [n for n in names if not (isinstance(n, Sym) and n.tag == "noelem")]
        if o is None or o.kind != "record":
            raise Unsupported(f"setattr on {args[0]!r} at {where(fr, e)}")
        if names and all(isinstance(n, Const) and isinstance(n.v, str) for n in names):
            # the attribute name ranges over a known finite set (a table of field names walked in a loop): each of the
            # fields may receive the value - a weak store, joined with what the field held
            init_self = fr.func is not None and fr.func.name == "__init__" and fr.func.params and isinstance(e.args[0], ast.Name) and e.args[0].id == fr.func.params[0]
            for n in names:
                if not init_self:
                    I.mutate(o, f"setattr .{n.v}", e)
                if len(names) == 1 and not I.weak(o):
                    o.fields[n.v] = args[2]
                else:
                    o.fields[n.v] = join(o.fields.get(n.v), args[2]) if n.v in o.fields else args[2]
            return Const(None)
        raise Unsupported(f"setattr with an attribute name that is not one of a known set of constants at {where(fr, e)}")
    if name in ("type",):
        return Sym("type", a0 if not isinstance(a0, Ref) else I.sym_of(a0))
    if name in ("super",):
        raise Unsupported(f"super() at {where(fr, e)}")
    if name.endswith("Error") or name in ("Exception", "AssertionError", "KeyError", "StopIteration"):
        return Sym("exc", Const(name))
    return I.derive("builtin:" + name, *args)


def isinstance_test(I, v, tnode, fr):
    tnames = [ast.unparse(x) for x in tnode.elts] if isinstance(tnode, ast.Tuple) else [ast.unparse(tnode)]

    def one(v):
        if isinstance(v, Ref):
            o = I.heap[v.oid]
            kind_names = {"circuit": {"QuantumCircuit"}, "list": {"list", "List"}, "tuple": {"tuple", "Tuple"}, "dict": {"dict", "Dict"}}
            if o.kind == "record":
                names = {o.cls.name} | set(_base_names(I, o.cls)) if o.cls else set()
                return any(t.split(".")[-1] in names for t in tnames)
            return any(t.split(".")[-1] in kind_names.get(o.kind, set()) for t in tnames)
        if isinstance(v, Const):
            pyt = {"int": int, "str": str, "bool": bool, "float": float, "list": list, "tuple": tuple, "dict": dict}
            ts = tuple(pyt[t] for t in tnames if t in pyt)
            return isinstance(v.v, ts) if ts else False
        if isinstance(v, Sym):
            if v.typ is not None and not isinstance(v.typ, str):
                names = {v.typ.name} | set(_base_names(I, v.typ))
                if any(t.split(".")[-1] in names for t in tnames):
                    return True
                # a repo-class typed value is not an instance of an unrelated class
                return False
            if isinstance(v.typ, str) and v.typ:
                base = v.typ.split("[")[0].split(".")[-1]
                if base in ("int", "str", "float", "bool"):
                    return any(t == base for t in tnames)
            return None
        return None
    r = one(v)
    if r is None:
        if I.can_fork():
            return Const(I.decide(("isinstance", vkey(v), tuple(tnames))))
        return Sym("isinstance", v, Const(tuple(tnames)))
    return Const(r)


def _base_names(I, cls, depth=0):
    out = []
    for b in cls.bases:
        out.append(b.split(".")[-1])
        r = I.prog.lookup_global(cls.module, b.split(".")[0])
        if r and r[0] == "class" and depth < 5:
            out.extend(_base_names(I, r[1], depth + 1))
    return out


# ---------------------------------------------------------------------------------------------
def call_method(I, b: Bound, args, kwargs, e, fr):
    recv, name = b.recv, b.name
    if name == "_make" and isinstance(recv, ClassV) and len(args) == 1:
        # NamedTuple._make(iterable): the fields in order
        ao = I.obj(args[0])
        if ao is not None and ao.items is not None:
            return instantiate(I, recv.cls, list(ao.items), {}, e, fr)
        if ao is not None and "mapsplit" in ao.meta:
            return instantiate(I, recv.cls, [Sym("star", ao.meta["mapsplit"])], {}, e, fr)
        return instantiate(I, recv.cls, [I.derive("star", args[0])], {}, e, fr)
    if name == "__new__" and isinstance(recv, ClassV):
        cls = args[0].cls if args and isinstance(args[0], ClassV) else recv.cls
        o = I.alloc("record", site=where(fr, e), cls=cls)     # an instance without running __init__
        return Ref(o.oid)
    if b.func is not None:
        f = b.func
        if isinstance(recv, ClassV):
            if f.is_classmethod:
                return call_repo(I, f, [recv] + list(args), kwargs, e, fr)
            return call_repo(I, f, list(args), kwargs, e, fr)   # Class.method(self, ...) style
        if f.is_static:
            return call_repo(I, f, list(args), kwargs, e, fr)
        return call_repo(I, f, [recv] + list(args), kwargs, e, fr)
    o = I.obj(recv)
    if o is not None:
        if o.kind == "circuit":
            return circuit_method(I, recv, o, name, args, kwargs, e, fr)
        if o.kind in ("list", "tuple"):
            return list_method(I, recv, o, name, args, kwargs, e, fr)
        if o.kind == "dict":
            return dict_method(I, recv, o, name, args, kwargs, e, fr)
        if o.kind == "passmanager":
            if name == "run":
                src = I.obj(args[0]) if args else None
                if src is None or src.kind != "circuit":
                    return I.derive("pm.run", *args)
                gates = []
                passes = I.obj(o.fields.get("passes"))
                if passes is not None and passes.items is not None:
                    for p in passes.items:
                        if isinstance(p, Sym) and p.tag == "invcancel":
                            gates.extend(p.args[0].v)
                        else:
                            gates.append("?pass:" + repr(vkey(p)))
                else:
                    gates.append("?passes")
                return I.new_circuit(("cancel", src.term, tuple(gates)), site=where(fr, e), width=src.width)
            return I.derive("pm." + name, *args)
        if o.kind == "record":
            return Sym("mcall", I.sym_of(recv), Const(name), *args)
    if isinstance(recv, Const) and isinstance(recv.v, str):
        if name == "join" and args:
            return I.derive("strjoin", recv, args[0])
        if name == "format" and not kwargs and "{" in recv.v:
            # "...{}...".format(a, b): the same string as the f-string with these pieces (auto-numbered plain fields only)
            import string
            parts, k, ok = [], 0, True
            try:
                for (lit, field, spec, conv) in string.Formatter().parse(recv.v):
                    if lit:
                        parts.append(Const(lit))
                    if field is None:
                        continue
                    if spec or conv or not (field == "" or field.isdigit()):
                        ok = False
                        break
                    idx = k if field == "" else int(field)
                    k += 1
                    if idx >= len(args):
                        ok = False
                        break
                    parts.append(args[idx])
            except ValueError:
                ok = False
            if ok:
                return I.derive("fstr", *parts)
        if all(isinstance(a, Const) for a in args) and name in STR_LIKE_METHODS:
            try:
                r = getattr(recv.v, name)(*[a.v for a in args])
                if isinstance(r, (str, int, bool)):
                    return Const(r)
                if isinstance(r, list):
                    return I.new_list(items=[Const(x) for x in r], site=where(fr, e))
            except Exception:
                pass
        return I.derive("str." + name, recv, *args)
    if isinstance(recv, Sym):
        # importlib.resources.files(pkg).joinpath(name).read_text() / (files(pkg) / name).read_text()
        if recv.tag.endswith("resources.files") and name == "joinpath" and args:
            return Sym("respath", args[0])
        if recv.tag == "respath" and name in ("read_text", "open", "read_bytes"):
            fn = recv.args[0]
            tag = ("file", vkey(fn))
            I.events.append(("read-file", fn, where(fr, e), fr.func.fq, e))
            return Sym("filetext", fn, prov=frozenset([tag]))
        if recv.tag == "respath" and name in ("is_file", "exists"):
            return Sym("resexists", recv.args[0])
        if name == "split":
            r = I.new_list(elem=Sym("part", recv, *args, prov=recv.prov), site=where(fr, e))
            I.obj(r).meta["split"] = (recv, tuple(args))
            return r
        if name == "splitlines" and not args and not kwargs:
            # the lines of a text: for what the rules ask (which line, which field) the same as split("\n")
            nl = Const("\n")
            r = I.new_list(elem=Sym("part", recv, nl, prov=recv.prov), site=where(fr, e))
            I.obj(r).meta["split"] = (recv, (nl,))
            return r
        if name == "items":
            return Sym("items", recv)
        if name in ("copy",):
            return I.derive("copy", recv)
        return I.derive("m:" + name, recv, *args, *kwargs.values())
    return I.derive("m:" + name, recv, *args)


def circuit_method(I, recv, o, name, args, kwargs, e, fr):
    if name in GATES1 | GATES2 | GATES3:
        arity = 1 if name in GATES1 else 2 if name in GATES2 else 3
        prov = frozenset()
        for a in args:
            if isinstance(a, Sym):
                prov |= a.prov
            ao = I.obj(a)
            if ao is not None and isinstance(ao.elem, Sym):
                prov |= ao.elem.prov
        if prov:
            leaf = ("tgate", name, arity, tuple(sorted(prov, key=repr)), o.oid)
            I.events.append(("tgate-emit", fr.func.fq, name, where(fr, e), tuple(x.func.fq for x in I.stack if x.func is not None)))
        else:
            leaf = ("emit", name, arity)
            if arity >= 2:
                I.events.append(("glue-2q", name, tuple(vkey(a) for a in args), where(fr, e), fr.func.fq))
        I.mutate(o, "append " + name, e)
        o.term = t_seq(o.term, t_star(leaf) if I.weak(o) else leaf)
        return Sym("instrset")
    if name == "compose":
        other = args[0] if args else kwargs.get("other")
        oo = I.obj(other)
        qubits = args[1] if len(args) > 1 else kwargs.get("qubits", Const(None))
        front = kwargs.get("front", Const(False))
        inplace = kwargs.get("inplace", Const(False))
        if oo is None or oo.kind != "circuit":
            ot = ("unknown", f"compose of non-circuit value {other!r} at {where(fr, e)}")
        else:
            ot = oo.term
        extra = sorted(k for k, v in kwargs.items() if k not in ("other", "qubits", "clbits", "front", "inplace", "copy") and not (isinstance(v, Const) and v.v in (False, None)))
        if extra:
            # wrap=True packs the other circuit into ONE opaque instruction; var_remap / inline_captures change its contents
            ot = ("unknown", f"compose with {', '.join(extra)}= (the composed circuit does not arrive gate by gate) at {where(fr, e)}")
        q = qubits
        if isinstance(q, Ref):
            qo = I.heap[q.oid]
            ic = qo.meta.get("identity_conv_of")
            q = ic if ic is not None else I.sym_of(q)
        if not (isinstance(q, Const) and q.v is None):
            ot = ("mapped", ot, vkey(q))
        ft = I.truth(front, fr, fork=I.can_fork())
        if ft is None:
            new = ("unknown", f"compose with undecidable front= at {where(fr, e)}")
        else:
            new = t_seq(ot, o.term) if ft else t_seq(o.term, ot)
        it = I.truth(inplace, fr, fork=I.can_fork())
        if it is None:
            raise Unsupported(f"compose with undecidable inplace= inside a loop at {where(fr, e)}")
        if it:
            I.mutate(o, "compose(inplace=True)", e)
            o.term = new if not I.weak(o) else t_seq(o.term, t_star(ot))
            return Const(None)
        res = I.new_circuit(new, site=where(fr, e), width=o.width)
        I.events.append(("compose", o.oid, oo.oid if oo is not None else None, vkey(q), res.oid, where(fr, e)))
        return res
    if name == "inverse":
        return I.new_circuit(t_inv(o.term), site=where(fr, e), width=o.width)
    if name == "copy":
        r = I.new_circuit(o.term, site=where(fr, e), width=o.width)
        I.obj(r).meta = dict(o.meta)
        return r
    if name == "measure_all":
        ip = kwargs.get("inplace", Const(True))
        if isinstance(ip, Const) and ip.v is False:
            return I.new_circuit(t_seq(o.term, ("measure",)), site=where(fr, e), width=o.width)
        I.mutate(o, "measure_all", e)
        o.term = t_seq(o.term, ("measure",))
        return Const(None)
    if name in ("measure", "barrier", "append", "reset", "delay", "add_register", "remove_final_measurements", "clear", "assign_parameters", "add_bits"):
        ip = kwargs.get("inplace")
        if name in ("remove_final_measurements", "assign_parameters") and isinstance(ip, Const) and ip.v is False:
            return I.new_circuit(t_seq(o.term, ("unknown", f"circuit method {name}(inplace=False) at {where(fr, e)}")), site=where(fr, e), width=o.width)
        I.mutate(o, name, e)
        o.term = t_seq(o.term, ("unknown", f"circuit method {name} at {where(fr, e)}"))
        return Const(None)
    if name in ("draw", "depth", "count_ops", "size", "width", "qasm", "num_nonlocal_gates", "to_instruction", "to_gate", "decompose",
                "find_bit", "get_instructions", "num_connected_components", "num_tensor_factors", "has_register", "qubit_duration"):
        return I.derive("m:" + name, recv, *args)          # queries: the circuit is read, not changed
    o.term = t_seq(o.term, ("unknown", f"circuit method {name} at {where(fr, e)}"))
    return Sym("m:" + name, I.sym_of(recv))


def list_method(I, recv, o, name, args, kwargs, e, fr):
    if name == "append":
        I.mutate(o, "append", e)
        if o.shared():
            I.mark_shared(args[0], o.origin[1])
        if o.items is not None and not I.weak(o):
            o.items.append(args[0])
        else:
            o.items = None
        o.elem = join(o.elem, args[0])
        o.meta.setdefault("appends", []).append(where(fr, e))
        return Const(None)
    if name in ("extend", "insert", "remove", "pop", "clear", "sort", "reverse"):
        I.mutate(o, name, e)
        if name == "extend":
            so = I.obj(args[0])
            o.elem = join(o.elem, so.elem if so else I.iter_elem(args[0], fr, e))
        if name == "insert":
            o.elem = join(o.elem, args[1])
        if name in ("sort", "reverse"):
            o.meta["permuted"] = where(fr, e)
        if name == "pop":
            o.items = None
            return o.elem if o.elem is not None else Sym("elem", I.sym_of(recv))
        o.items = None
        return Const(None)
    if name == "copy":
        return I.new_list(elem=o.elem, items=o.items, kind=o.kind, site=where(fr, e))
    if name in ("index", "count"):
        return I.derive(name, I.sym_of(recv), *args)
    return I.derive("m:" + name, I.sym_of(recv), *args)


def dict_method(I, recv, o, name, args, kwargs, e, fr):
    if name in ("items",):
        return Sym("items", recv)
    if name in ("keys",):
        return Sym("iterof", Sym("keys", I.sym_of(recv)))
    if name in ("values",):
        return I.new_list(elem=o.elem, site=where(fr, e))
    if name == "get":
        dflt = args[1] if len(args) > 1 else Const(None)
        key = I.keyval(args[0]) if args else None
        for (k, v, _w) in reversed(o.meta.get("stores", [])):
            if key is not None and vkey(k) == vkey(key):
                return v
        if o.shared() and I.can_fork() and I.is_cache(o):
            # a cache lookup: MISS first (its store becomes the model of the contents), then HIT
            if I.decide(("cache-miss", o.origin[1])):
                return dflt
            mk = (o.origin[1], vkey(key))
            if mk in I.cache_model:
                v = I.materialize(I.cache_model[mk], o.origin[1])
                o.meta.setdefault("stores", []).append((key, v, "earlier call (modelled from the miss path)"))
                return v
            raise Unsupported(f"lookup in shared dictionary {o.origin[1]} whose contents are not modelled at {where(fr, e)}")
        return join(o.elem, dflt) if o.elem is not None else Sym("item", I.sym_of(recv), args[0], maybe_none=True)
    if name in ("update", "pop", "setdefault", "clear", "popitem"):
        I.mutate(o, name, e)
        if name == "update" and args:
            so = I.obj(args[0])
            if so is not None:
                o.elem = join(o.elem, so.elem)
            else:
                o.elem = join(o.elem, I.derive("vals", args[0]))
        if name == "setdefault" and len(args) > 1:
            o.elem = join(o.elem, args[1])
            if o.shared():
                I.mark_shared(args[1], o.origin[1])
                I.events.append(("store-shared", o.origin[1], args[0], args[1], where(fr, e), fr.func.fq))
            return o.elem
        return o.elem if name == "pop" and o.elem is not None else Const(None)
    if name == "copy":
        n = I.alloc("dict", site=where(fr, e))
        n.elem = o.elem
        n.meta["stores"] = list(o.meta.get("stores", []))
        return Ref(n.oid)
    return I.derive("m:" + name, I.sym_of(recv), *args)
