"""Abstract interpreter over the package's AST.

Circuit values are TERMS (absval.t_*), never circuits; containers are summary heap objects
with an allocation origin (fresh / param / shared).  Nothing of the repository is imported
or run.  Undecidable branches outside loops fork the path (re-execution under a decision
oracle, one result per return path = one alternative of a Choice); inside loops both
branches run in 'maybe' mode (weak updates, emissions become Star).  Constructs outside the
vocabulary raise Unsupported -> ANALYSIS-ERROR, never a verdict.
"""
from __future__ import annotations
import ast
from .absval import *
from .report import AnalysisError
from . import pyfacts

GATES1 = {"h", "s", "sdg", "x", "y", "z", "id", "i", "sx", "sxdg", "t", "tdg"}
GATES2 = {"cx", "cz", "swap", "cy", "ch", "iswap", "ecr", "dcx"}
GATES3 = {"ccx", "cswap", "ccz"}
CIRC_METHODS = GATES1 | GATES2 | GATES3 | {"compose", "inverse", "measure_all", "measure", "barrier", "append"}
RELEVANT_ATTR_CALLS = GATES1 | GATES2 | GATES3 | {"compose", "inverse", "measure_all", "read_text", "open_text", "read_binary"}
MAX_PATHS = 400
MAX_DEPTH = 14


class Unsupported(AnalysisError):
    pass


class _Return(Exception):
    def __init__(self, v):
        self.v = v


class _Raise(Exception):
    def __init__(self, what, node=None):
        self.what, self.node = what, node


class _Break(Exception):
    pass


class _Continue(Exception):
    pass


class _NeedDecision(Exception):
    pass


class Frame:
    def __init__(self, func, module, env=None, parent=None):
        self.func, self.module, self.env, self.parent = func, module, env or {}, parent
        self.returns = []   # returns collected in maybe mode


class PathResult:
    def __init__(self, kind, value, interp, what=None):
        self.kind, self.value, self.what = kind, value, what
        self.heap = interp.heap
        self.events = interp.events
        self.effects = interp.effects
        self.decisions = dict(interp.decisions)
        self.notes = interp.notes

    def describe(self, v=None, depth=0):
        """hashable structural description of a value with heap objects expanded"""
        v = self.value if v is None and depth == 0 else v
        if isinstance(v, Ref):
            o = self.heap[v.oid]
            if depth > 6:
                return ("...",)
            if o.kind == "circuit":
                return ("circuit", o.origin, o.term)
            if o.kind in ("list", "tuple", "dict"):
                if o.items is not None and o.kind != "dict":
                    return (o.kind, o.origin, tuple(self.describe(x, depth + 1) for x in o.items))
                if o.kind == "dict":
                    st = tuple((vkey(k), self.describe(x, depth + 1)) for (k, x, _w) in o.meta.get("stores", []) if isinstance(k, (Const, Sym)))
                    return (o.kind, o.origin, self.describe(o.elem, depth + 1) if o.elem is not None else None, st)
                return (o.kind, o.origin, self.describe(o.elem, depth + 1) if o.elem is not None else None)
            if o.kind == "record":
                return ("record", o.cls.fq if o.cls else "?", o.origin,
                        tuple(sorted((k, self.describe(x, depth + 1)) for k, x in o.fields.items())))
            return (o.kind, o.origin)
        if isinstance(v, Alt):
            return ("alt",) + tuple(self.describe(x, depth + 1) for x in v.vals)
        if v is None:
            return None
        return vkey(v)


class Interp:
    def __init__(self, prog: pyfacts.Program, decisions_prefix=None, inline_all=False, cache_model=None):
        self.prog = prog
        self.cache_model = cache_model if cache_model is not None else {}   # shared dict -> description of what misses store
        self.heap: dict[int, HObj] = {}
        self.next_oid = 1
        self.events = []      # ('gate', N, C, node, func) | ('access', kind, N, C, node, func) | ...
        self.effects = []     # ('mutate', oid, origin, op, where)
        self.decisions: dict = {}
        self.decision_order: list = []
        self.prefix = list(decisions_prefix or [])
        self.loop_depth = 0
        self.maybe = 0
        self.depth = 0
        self.notes = []
        self.module_vars: dict = {}
        self.stack = []
        self.inline_all = inline_all
        self.swallow = []     # exception types swallowed (caught without re-raise) by enclosing try statements
        self._relevant_cache = prog.__dict__.setdefault("_relevant_cache", {})

    # ------------------------------------------------------------------ heap
    def alloc(self, kind, origin=None, site="", cls=None):
        oid = self.next_oid
        self.next_oid += 1
        o = HObj(oid, kind, origin or ("fresh", site), site, cls, self.loop_depth)
        self.heap[oid] = o
        return o

    def new_circuit(self, term, site="", origin=None, width=None):
        o = self.alloc("circuit", origin, site)
        o.term = term
        o.width = width
        return Ref(o.oid)

    def new_list(self, elem=None, items=None, site="", kind="list", origin=None):
        o = self.alloc(kind, origin, site)
        o.items = list(items) if items is not None else None
        if items is not None:
            e = None
            for x in items:
                e = join(e, x)
            o.elem = e
        else:
            o.elem = elem
        return Ref(o.oid)

    def obj(self, v):
        return self.heap[v.oid] if isinstance(v, Ref) else None

    def materialize(self, d, what):
        """rebuild, in this heap and with origin shared, a value described by PathResult.describe()"""
        org = ("shared", what)
        if d is None:
            return Const(None)
        if isinstance(d, tuple) and d:
            h = d[0]
            if h == "circuit":
                return self.new_circuit(d[2], origin=org, site="cache content")
            if h in ("list", "tuple", "dict"):
                o = self.alloc(h, org, site="cache content")
                x = d[2]
                if isinstance(x, tuple) and x and isinstance(x[0], tuple) and h != "dict" and not _is_desc(x):
                    o.items = [self.materialize(y, what) for y in x]
                    for it in o.items:
                        o.elem = join(o.elem, it)
                elif x is not None:
                    o.elem = self.materialize(x, what)
                if h == "dict" and len(d) > 3:
                    for (kk, xd) in d[3]:
                        o.meta.setdefault("stores", []).append((_sym_from_key(kk), self.materialize(xd, what), "cache content"))
                return Ref(o.oid)
            if h == "record":
                cls = None
                try:
                    cls = self.prog.cls(d[1])
                except AnalysisError:
                    pass
                o = self.alloc("record", org, site="cache content", cls=cls)
                for k, x in d[3]:
                    o.fields[k] = self.materialize(x, what)
                return Ref(o.oid)
            if h == "alt":
                return Alt([self.materialize(y, what) for y in d[1:]])
            if h == "const":
                return Const(d[2])
            if h == "passmanager":
                return Ref(self.alloc("passmanager", org).oid)
            # a symbolic key: rebuild the Sym (provenance recovered from embedded file texts)
            return _sym_from_key(d)
        return Const(d) if isinstance(d, (int, str, float, bool)) else Sym("opaque", Const(repr(d)))

    def mark_shared(self, v, what, seen=None):
        seen = seen if seen is not None else set()
        if isinstance(v, Alt):
            for x in v.vals:
                self.mark_shared(x, what, seen)
            return
        if not isinstance(v, Ref) or v.oid in seen:
            return
        seen.add(v.oid)
        o = self.heap[v.oid]
        if o.origin[0] == "fresh":
            o.origin = ("shared", what)
        for x in o.fields.values():
            self.mark_shared(x, what, seen)
        if o.elem is not None:
            self.mark_shared(o.elem, what, seen)
        for x in (o.items or []):
            self.mark_shared(x, what, seen)

    def mutate(self, o: HObj, op, node):
        f = self.stack[-1].func if self.stack else None
        owner = o.meta.get("data_of") if o.kind == "list" else None
        if owner is not None and owner in self.heap:
            # an edit of circuit.data is an edit of the circuit: which gates remain is not modelled
            c = self.heap[owner]
            c.term = t_seq(c.term, ("unknown", f"the circuit's instruction list is edited in place (`{op}` on .data) at {pyfacts.where(f, node) if f else '?'}"))
            self.mutate(c, f".data {op}", node)
        self.effects.append(("mutate", o.oid, o.origin, o.kind, op,
                             pyfacts.where(f, node) if f else "?", pyfacts.norm_stmt(node), f.fq if f else "?"))

    def weak(self, o: HObj = None):
        return self.maybe > 0 or (o is not None and self.loop_depth > o.loop_depth)

    # ------------------------------------------------------------------ decisions
    def is_cache(self, o):
        """a shared dictionary that some function writes (a cache), not a constant table"""
        w = o.origin[1] if o.origin[0] == "shared" else ""
        if o.meta.get("empty_init"):
            return True
        return w.startswith("module:") and w[len("module:"):] in self.prog.written_globals() or w.startswith(("default argument", "cache decorator"))

    def can_fork(self):
        """paths fork only outside every loop / maybe region (of any frame on the stack)"""
        return self.maybe == 0 and self.loop_depth == 0

    def in_weak(self, fr):
        """control is inside a loop or maybe region opened by this frame"""
        return self.maybe > getattr(fr, "entry_maybe", 0) or self.loop_depth > getattr(fr, "entry_loop_depth", 0)

    def decide(self, key):
        if key in self.decisions:
            return self.decisions[key]
        i = len(self.decision_order)
        val = self.prefix[i] if i < len(self.prefix) else True
        self.decisions[key] = val
        self.decision_order.append(key)
        return val

    # ------------------------------------------------------------------ relevance (inline or opaque)
    def relevant(self, f) -> bool:
        if self.inline_all:
            return True
        c = self._relevant_cache
        if f in c:
            return c[f]
        clo = self.prog.closure([f], may=True)
        r = any(self._directly_relevant(g) for g in clo)
        c[f] = r
        return r

    def _directly_relevant(self, g):
        d = getattr(g, "_dr", None)
        if d is not None:
            return d
        d = False
        loc = self.prog._locals(g)
        for n in ast.walk(g.node):
            if isinstance(n, ast.Call):
                fn = n.func
                if isinstance(fn, ast.Attribute) and fn.attr in RELEVANT_ATTR_CALLS:
                    d = True
                    break
                if isinstance(fn, ast.Name) and fn.id == "QuantumCircuit":
                    d = True
                    break
            elif isinstance(n, ast.Name) and isinstance(n.ctx, ast.Load) and n.id not in loc:
                r = self.prog.lookup_global(g.module, n.id)
                if r and r[0] == "var":
                    for val in r[1].assigns.get(r[2], []):
                        if isinstance(val, (ast.Dict, ast.List, ast.Set)) or (isinstance(val, ast.Call) and "PassManager" in ast.unparse(val.func)):
                            d = True
        g._dr = d
        return d

    # ------------------------------------------------------------------ running
    def call_function(self, f, args, kwargs, node=None, closure=None):
        """inline a repo function with abstract arguments"""
        if self.depth > MAX_DEPTH or any(fr.func is f for fr in self.stack[-3:] if False):
            raise Unsupported(f"inlining depth exceeded at {f.fq}")
        if sum(1 for fr in self.stack if fr.func is f) >= 1:
            return Sym("call", f.fq, *[a for a in args])   # recursion: opaque
        a = f.node.args
        env = {}
        params = [x.arg for x in a.posonlyargs + a.args]
        defaults = [None] * (len(params) - len(a.defaults)) + list(a.defaults)
        for i, p in enumerate(params):
            if i < len(args):
                env[p] = args[i]
            elif p in kwargs:
                env[p] = kwargs.pop(p)
            elif defaults[i] is not None:
                env[p] = self.eval_default(f, defaults[i])
            else:
                env[p] = Sym("missing", p)
        if a.vararg:
            env[a.vararg.arg] = self.new_list(items=list(args[len(params):]), kind="tuple")
        for ko, kd in zip(a.kwonlyargs, a.kw_defaults):
            if ko.arg in kwargs:
                env[ko.arg] = kwargs.pop(ko.arg)
            elif kd is not None:
                env[ko.arg] = self.eval_default(f, kd)
        if a.kwarg:
            env[a.kwarg.arg] = Sym("kwargs")
        elif kwargs:
            self.notes.append(f"unexpected keyword(s) {sorted(kwargs)} in call to {f.fq}")
        fr = Frame(f, f.module, env)
        fr.closure = closure       # enclosing frame of a nested function: its variables are visible
        fr.entry_loop_depth, fr.entry_maybe = self.loop_depth, self.maybe
        from .consteval import _is_generator
        fr.yields = [] if _is_generator(f.node) else None
        self.stack.append(fr)
        self.depth += 1
        saved_maybe = self.maybe
        try:
            try:
                self.exec_block(f.node.body, fr)
                ret = Const(None)
            except _Return as r:
                ret = r.v
            except _MaybeExit:
                if not fr.returns and fr.yields is None:
                    raise
                ret = None
            if fr.yields is not None:
                # a generator function, evaluated eagerly: its result is the sequence of what it yields
                e = None
                for v in fr.yields:
                    e = join(e, v)
                return self.new_list(elem=e if e is not None else Sym("noelem"), site=f"generator {f.fq}")
            if fr.returns:
                for v in fr.returns:
                    ret = join(ret, v)
            return ret
        finally:
            self.maybe = saved_maybe
            self.depth -= 1
            self.stack.pop()

    def eval_default(self, f, node):
        """default-argument objects outlive the call: shared"""
        fr = Frame(f, f.module, {})
        self.stack.append(fr)
        try:
            v = self.eval(node, fr)
        finally:
            self.stack.pop()
        self.mark_shared(v, f"default argument of {f.fq}")
        return v

    # ------------------------------------------------------------------ statements
    def exec_block(self, stmts, fr):
        for st in stmts:
            self.exec_stmt(st, fr)

    def exec_stmt(self, st, fr):
        m = getattr(self, "st_" + type(st).__name__, None)
        if m is None:
            raise Unsupported(f"statement {type(st).__name__} at {pyfacts.where(fr.func, st)}")
        m(st, fr)

    def st_Expr(self, st, fr):
        if isinstance(st.value, ast.Constant):
            return
        self.eval(st.value, fr)

    def st_Pass(self, st, fr):
        pass

    def st_Import(self, st, fr):
        for a in st.names:
            fr.env[a.asname or a.name.split(".")[0]] = ExtV(a.name if a.asname else a.name.split(".")[0])

    def st_ImportFrom(self, st, fr):
        for a in st.names:
            if st.level >= 1:
                if st.module is None:
                    mod = self.prog.modules.get(a.name)
                    fr.env[a.asname or a.name] = ModV(mod) if mod else ExtV(a.name)
                else:
                    mod = self.prog.modules.get(st.module)
                    r = self.prog.lookup_global(mod, a.name) if mod else None
                    fr.env[a.asname or a.name] = self.global_value(r, fr) if r else ExtV(f"{st.module}.{a.name}")
            else:
                fr.env[a.asname or a.name] = ExtV(f"{st.module}.{a.name}")

    def st_FunctionDef(self, st, fr):
        for g in fr.module.all_funcs:
            if g.node is st:
                fr.env[st.name] = FuncV(g, closure=fr)
                return
        fr.env[st.name] = Sym("localfunc", st.name)

    def st_Global(self, st, fr):
        raise Unsupported(f"global statement at {pyfacts.where(fr.func, st)}")

    def st_Nonlocal(self, st, fr):
        pass

    def st_Delete(self, st, fr):
        for t in st.targets:
            if isinstance(t, ast.Subscript):
                base = self.eval(t.value, fr)
                o = self.obj(base)
                if o:
                    self.mutate(o, "del[]", st)

    def st_Return(self, st, fr):
        v = self.eval(st.value, fr) if st.value is not None else Const(None)
        if self.in_weak(fr):
            fr.returns.append(v)
            raise _MaybeExit()
        raise _Return(v)

    def st_Raise(self, st, fr):
        if self.in_weak(fr):
            raise _MaybeExit()
        raise _Raise(ast.unparse(st.exc) if st.exc else "re-raise", st)

    def st_Assert(self, st, fr):
        t = self.truth(self.eval(st.test, fr), fr, fork=False)
        if t is False:
            if self.in_weak(fr):
                raise _MaybeExit()
            raise _Raise("AssertionError", st)
        # `assert x is not None` narrows a joined value: the None alternative does not survive the statement
        c = st.test
        if isinstance(c, ast.Compare) and len(c.ops) == 1 and isinstance(c.ops[0], ast.IsNot) and isinstance(c.left, ast.Name) \
                and isinstance(c.comparators[0], ast.Constant) and c.comparators[0].value is None and c.left.id in fr.env:
            v = fr.env[c.left.id]
            if isinstance(v, Alt):
                rest = [x for x in v.vals if not (isinstance(x, Const) and x.v is None)]
                if rest and len(rest) < len(v.vals):
                    fr.env[c.left.id] = rest[0] if len(rest) == 1 else Alt(rest)

    def st_Break(self, st, fr):
        raise _Break()

    def st_Continue(self, st, fr):
        raise _Continue()

    def st_Assign(self, st, fr):
        v = self.eval(st.value, fr)
        for t in st.targets:
            self.assign(t, v, fr, st)

    def st_AnnAssign(self, st, fr):
        if st.value is not None:
            self.assign(st.target, self.eval(st.value, fr), fr, st)

    def st_AugAssign(self, st, fr):
        t = st.target
        cur = self.eval(_as_load(t), fr)
        rhs = self.eval(st.value, fr)
        o = self.obj(cur)
        if o is not None:
            self.mutate(o, "aug" + type(st.op).__name__, st)
            if o.kind in ("list",) and isinstance(st.op, ast.Add):
                ro = self.obj(rhs)
                o.elem = join(o.elem, ro.elem if ro else Sym("elem", rhs))
                o.items = None
            return
        self.assign(t, self.binop(st.op, cur, rhs), fr, st)

    def assign(self, t, v, fr, st):
        if isinstance(t, ast.Name):
            if self.maybe > 0 and t.id in fr.env:
                fr.env[t.id] = join(fr.env[t.id], v)
            else:
                fr.env[t.id] = v
        elif isinstance(t, (ast.Tuple, ast.List)):
            o = self.obj(v)
            for i, sub in enumerate(t.elts):
                if isinstance(sub, ast.Starred):
                    self.assign(sub.value, self.new_list(elem=o.elem if o else Sym("elem", v)), fr, st)
                elif o is not None and o.items is not None and i < len(o.items):
                    self.assign(sub, o.items[i], fr, st)
                elif o is not None and "split" in o.meta:
                    recv, sargs = o.meta["split"]
                    self.assign(sub, Sym("field", recv, *sargs, Const(i), Const(len(t.elts)), prov=recv.prov), fr, st)
                elif o is not None:
                    self.assign(sub, o.elem if o.elem is not None else Sym("elem", v), fr, st)
                elif isinstance(v, Alt):
                    self.assign(sub, self.getitem(v, Const(i), st, fr), fr, st)
                else:
                    self.assign(sub, self.derive("item", v, Const(i)), fr, st)
        elif isinstance(t, ast.Attribute):
            base = self.eval(t.value, fr)
            o = self.obj(base)
            if o is not None and o.kind == "record" and o.cls is not None and self.prog.find_property(o.cls, t.attr, setter=True) is not None:
                self.call_function(self.prog.find_property(o.cls, t.attr, setter=True), [base, v], {}, st)
                return
            if o is not None:
                init_self = fr.func is not None and fr.func.name == "__init__" and isinstance(t.value, ast.Name) and \
                    fr.func.params and t.value.id == fr.func.params[0]
                if not init_self:
                    self.mutate(o, f"setattr .{t.attr}", st)
                if o.kind == "circuit" and t.attr == "metadata":
                    o.meta["metadata"] = v
                    return
                if o.kind == "circuit" and t.attr in ("data", "_data"):
                    # the instruction list is replaced wholesale: what the circuit contains afterwards is not what was appended
                    o.term = t_seq(o.term, ("unknown", f"instruction list of the circuit replaced by assignment to .{t.attr} at {pyfacts.where(fr.func, st)}"))
                    return
                if self.weak(o) and t.attr in o.fields:
                    o.fields[t.attr] = join(o.fields[t.attr], v)
                else:
                    o.fields[t.attr] = v
            elif isinstance(base, Alt):
                for b in base.vals:
                    ob = self.obj(b)
                    if ob is not None:
                        self.mutate(ob, f"setattr .{t.attr}", st)
                        ob.fields[t.attr] = join(ob.fields.get(t.attr), v)
        elif isinstance(t, ast.Subscript):
            base = self.eval(t.value, fr)
            idx = self.keyval(self.eval(t.slice, fr))
            for b in (base.vals if isinstance(base, Alt) else [base]):
                o = self.obj(b)
                if o is not None:
                    self.mutate(o, "setitem", st)
                    if o.kind == "dict":
                        o.meta.setdefault("stores", []).append((idx, v, pyfacts.where(fr.func, st)))
                    o.elem = join(o.elem, v)
                    if o.items is not None and isinstance(idx, Const) and isinstance(idx.v, int) and -len(o.items) <= idx.v < len(o.items) and not self.weak(o):
                        o.items[idx.v] = v
                    else:
                        o.items = None
                    if o.shared():
                        self.mark_shared(v, o.origin[1])
                        self.events.append(("store-shared", o.origin[1], idx, v, pyfacts.where(fr.func, st), fr.func.fq))
        elif isinstance(t, ast.Starred):
            self.assign(t.value, v, fr, st)
        else:
            raise Unsupported(f"assignment target {type(t).__name__} at {pyfacts.where(fr.func, st)}")

    def st_Match(self, st, fr):
        """match on constants / alternatives of constants / wildcard, desugared into the equivalent if-chain"""
        subj = st.subject
        if not isinstance(subj, (ast.Name, ast.Attribute, ast.Constant)):
            # a computed subject is evaluated once, into a name of its own
            tmp = ast.Assign(targets=[ast.Name(id="__match_subject__", ctx=ast.Store())], value=subj)
            ast.copy_location(tmp, st)
            ast.fix_missing_locations(tmp)
            self.st_Assign(tmp, fr)
            subj = ast.Name(id="__match_subject__", ctx=ast.Load())

        def test_of(p):
            if isinstance(p, ast.MatchValue):
                return ast.Compare(left=subj, ops=[ast.Eq()], comparators=[p.value])
            if isinstance(p, ast.MatchSingleton):
                return ast.Compare(left=subj, ops=[ast.Is()], comparators=[ast.Constant(p.value)])
            if isinstance(p, ast.MatchOr):
                return ast.BoolOp(op=ast.Or(), values=[test_of(q) for q in p.patterns])
            if isinstance(p, ast.MatchAs) and p.pattern is None:
                return ast.Constant(True)
            if isinstance(p, ast.MatchSequence) and all(isinstance(q, ast.MatchValue) for q in p.patterns):
                # a sequence of constants: the subject, whatever sequence type it is, has exactly these elements
                tests = [ast.Compare(left=ast.Call(func=ast.Name(id="len", ctx=ast.Load()), args=[subj], keywords=[]), ops=[ast.Eq()], comparators=[ast.Constant(len(p.patterns))])]
                tests += [ast.Compare(left=ast.Subscript(value=subj, slice=ast.Constant(i), ctx=ast.Load()), ops=[ast.Eq()], comparators=[q.value]) for i, q in enumerate(p.patterns)]
                return ast.BoolOp(op=ast.And(), values=tests)
            raise Unsupported(f"match pattern {type(p).__name__} at {pyfacts.where(fr.func, st)}")

        chain = None
        for case in reversed(st.cases):
            t = test_of(case.pattern)
            body = list(case.body)
            if isinstance(case.pattern, ast.MatchAs) and case.pattern.pattern is None and case.pattern.name:
                body = [ast.Assign(targets=[ast.Name(id=case.pattern.name, ctx=ast.Store())], value=subj)] + body
            if case.guard is not None:
                t = ast.BoolOp(op=ast.And(), values=[t, case.guard])
            node = ast.If(test=t, body=body, orelse=[chain] if chain is not None else [])
            chain = node
        if chain is None:
            return
        for n in ast.walk(chain):
            if not hasattr(n, "lineno"):
                ast.copy_location(n, st)
        ast.fix_missing_locations(chain)
        self.st_If(chain, fr)

    def st_If(self, st, fr):
        cond = self.eval(st.test, fr)
        t = self.truth(cond, fr, fork=self.can_fork())
        if t is True:
            self.exec_block(st.body, fr)
        elif t is False:
            self.exec_block(st.orelse, fr)
        else:
            self.run_maybe([st.body, st.orelse], fr)

    def run_maybe(self, blocks, fr):
        """execute alternative blocks in maybe mode; env values joined; a block that exits
        (break/continue/return/raise) makes the remainder of the enclosing block 'maybe' too"""
        before = dict(fr.env)
        results = []
        exited = False
        for blk in blocks:
            fr.env = dict(before)
            self.maybe += 1
            try:
                self.exec_block(blk, fr)
                results.append(dict(fr.env))
            except (_MaybeExit, _Break, _Continue):
                exited = True
            finally:
                self.maybe -= 1
        if not results:
            fr.env = before
            raise _MaybeExit()
        env = {}
        for r in results:
            for k, v in r.items():
                env[k] = join(env.get(k), v) if k in env else v
        for k in env:
            if any(k not in r for r in results):
                env[k] = join(env[k], before.get(k, Sym("unbound", k)))
        fr.env = env
        if exited:
            fr.after_exit = True
            self.maybe += 1   # rest of the enclosing loop body is conditional; reset by loop
            fr.pending_maybe = getattr(fr, "pending_maybe", 0) + 1

    def st_For(self, st, fr):
        it = self.eval(st.iter, fr)
        elem = self.iter_elem(it, fr, st)
        self.loop_body(st, fr, lambda: self.assign(st.target, elem, fr, st))

    def st_While(self, st, fr):
        self.loop_body(st, fr, lambda: self.eval(st.test, fr))

    def loop_body(self, st, fr, bind):
        before = dict(fr.env)
        self.loop_depth += 1
        saved_maybe, saved_pending = self.maybe, getattr(fr, "pending_maybe", 0)
        fr.pending_maybe = 0
        try:
            bind()
            try:
                self.exec_block(st.body, fr)
            except (_Break, _Continue, _MaybeExit):
                pass
        finally:
            self.loop_depth -= 1
            self.maybe = saved_maybe
            fr.pending_maybe = saved_pending
        # zero or more iterations: join with the state before the loop
        env = dict(fr.env)
        for k, v in before.items():
            env[k] = join(v, env.get(k, v))
        fr.env = env
        if st.orelse:
            if _has_own_break(st):
                # `for ... else` with a break in the body: the else arm runs only when no iteration broke out
                try:
                    self.run_maybe([st.orelse, []], fr)
                except _MaybeExit:
                    if not self.in_weak(fr):
                        raise _Raise("exit from for-else", st)
                    raise
            else:
                self.exec_block(st.orelse, fr)

    def st_Try(self, st, fr):
        # cache idiom / generic: run the body; a handler whose type can be raised by a lookup in
        # the body is run as well (state joined) - the handler of `except KeyError` around a
        # dictionary load is the loader of that cache.
        handlers = st.handlers
        keyerr = [h for h in handlers if h.type is not None and "KeyError" in ast.unparse(h.type)]
        body_loads_shared_dict = None
        if keyerr:
            for n in ast.walk(ast.Module(body=st.body, type_ignores=[])):
                if isinstance(n, ast.Subscript) and isinstance(n.ctx, ast.Load):
                    try:
                        b = self.eval(n.value, fr)
                    except Exception:
                        continue
                    o = self.obj(b)
                    if o is not None and o.kind == "dict" and o.shared() and self.is_cache(o):
                        body_loads_shared_dict = (n, o)
                        break
        if body_loads_shared_dict is not None:
            n, o = body_loads_shared_dict
            self.events.append(("cache-idiom", o.origin[1], pyfacts.where(fr.func, st)))
            if self.can_fork():
                # a lookup in a cache forks into MISS (explored first: the KeyError handler runs instead of
                # the body; whatever the path stores into the cache becomes the model of its contents) and
                # HIT (the body runs, the load is materialised from that model with origin `shared`)
                if self.decide(("cache-miss", o.origin[1])):
                    self.exec_block(keyerr[0].body, fr)
                else:
                    self.exec_block(st.body, fr)
                    self.exec_block(st.orelse, fr)
                self.exec_block(st.finalbody, fr)
                return
            # inside a loop: hit and miss yield the same abstract value once the handler has stored it
            self.exec_block(keyerr[0].body, fr)
            self.exec_block(st.body, fr)
            self.exec_block(st.orelse, fr)
            self.exec_block(st.finalbody, fr)
            return
        swallowed = []
        for h in handlers:
            ends_in_raise = bool(h.body) and isinstance(h.body[-1], ast.Raise)
            returns = any(isinstance(x, ast.Return) for x in ast.walk(ast.Module(body=h.body, type_ignores=[])))
            if not ends_in_raise and not returns:
                swallowed += _names(h.type) if h.type is not None else ["BaseException"]
        self.swallow.append(swallowed)
        try:
            self.exec_block(st.body, fr)
        except _Raise as r:
            self.swallow.pop()
            swallowed = None
            for h in handlers:
                if h.type is None or any(nm in r.what for nm in _names(h.type)) or "Exception" in ast.unparse(h.type):
                    if h.name:
                        fr.env[h.name] = Sym("exc", r.what)
                    self.exec_block(h.body, fr)
                    break
            else:
                self.exec_block(st.finalbody, fr)
                raise
            self.exec_block(st.finalbody, fr)
            return
        finally:
            if swallowed is not None:
                self.swallow.pop()
        try:
            self.exec_block(st.orelse, fr)
        except _Raise as r:
            for h in handlers:
                if h.type is None or any(nm in r.what for nm in _names(h.type)) or "Exception" in ast.unparse(h.type):
                    if h.name:
                        fr.env[h.name] = Sym("exc", r.what)
                    self.exec_block(h.body, fr)
                    break
            else:
                self.exec_block(st.finalbody, fr)
                raise
        self.exec_block(st.finalbody, fr)
        # handlers not taken are alternative paths we do not enumerate: they start from an
        # exceptional state of external code; record for rules that care
        for h in handlers:
            self.events.append(("handler-not-explored", ast.unparse(h.type) if h.type else "bare", pyfacts.where(fr.func, h)))

    def st_With(self, st, fr):
        # the managers the code base could meet (locks, warnings.catch_warnings, open files, numpy errstate, suppress)
        # run the body once; a manager that swallows exceptions (suppress) makes the rest of the block 'maybe'
        for item in st.items:
            v = self.eval(item.context_expr, fr)
            txt = ast.unparse(item.context_expr)
            if "suppress" in txt:
                raise Unsupported(f"with-statement over an exception-suppressing manager at {pyfacts.where(fr.func, st)}")
            if item.optional_vars is not None:
                entered = v if isinstance(v, Ref) else self.derive("enter", v)
                self.assign(item.optional_vars, entered, fr, st)
        self.exec_block(st.body, fr)

    def st_ClassDef(self, st, fr):
        fr.env[st.name] = Sym("localclass", st.name)

    # ------------------------------------------------------------------ truthiness
    def truth(self, v, fr, fork=True):
        """True / False / None(unknown, only when fork is False)"""
        if isinstance(v, Const):
            return bool(v.v)
        if isinstance(v, Ref):
            o = self.heap[v.oid]
            if o.kind in ("list", "tuple", "dict"):
                if o.items is not None:
                    return len(o.items) > 0
                if not fork:
                    return None
                return self.decide(("nonempty", v.oid))
            return True
        if isinstance(v, (FuncV, ClassV, ModV, ExtV, Bound, LambdaV)):
            return True
        if isinstance(v, Sym) and v.tag == "not":
            t = self.truth(v.args[0], fr, fork)
            return None if t is None else (not t)
        if isinstance(v, Sym) and v.tag == "and":
            r = True
            for a in v.args:
                t = self.truth(a, fr, fork)
                if t is False:
                    return False
                if t is None:
                    r = None
            return r
        if isinstance(v, Sym) and v.tag == "or":
            r = False
            for a in v.args:
                t = self.truth(a, fr, fork)
                if t is True:
                    return True
                if t is None:
                    r = None
            return r
        if not fork:
            return None
        return self.decide(("truth", vkey(v)))

    # ------------------------------------------------------------------ expressions
    def eval(self, e, fr):
        m = getattr(self, "ex_" + type(e).__name__, None)
        if m is None:
            raise Unsupported(f"expression {type(e).__name__} at {pyfacts.where(fr.func, e)}")
        return m(e, fr)

    def ex_Constant(self, e, fr):
        return Const(e.value)

    def ex_Name(self, e, fr):
        f = fr
        while f is not None:
            if e.id in f.env:
                v = f.env[e.id]
                return self.refine(v)
            f = f.parent
        # closure of nested function
        clo = getattr(fr, "closure", None)
        hops = 0
        while clo is not None and hops < 6:
            if e.id in clo.env:
                return self.refine(clo.env[e.id])
            clo = getattr(clo, "closure", None) or clo.parent
            hops += 1
        r = self.prog.lookup_global(fr.module, e.id)
        if r is None:
            raise Unsupported(f"unresolved name {e.id} at {pyfacts.where(fr.func, e)}")
        return self.global_value(r, fr)

    def refine(self, v):
        if isinstance(v, Sym) and v.maybe_none:
            d = self.decisions.get(("isnone", vkey(v)))
            if d is True:
                return Const(None)
        return v

    def global_value(self, r, fr):
        k = r[0]
        if k == "func":
            return FuncV(r[1])
        if k == "class":
            return ClassV(r[1])
        if k == "module":
            return ModV(r[1])
        if k == "external":
            return ExtV(r[1])
        if k == "builtin":
            return ExtV("builtins." + r[1])
        if k == "var":
            mod, name = r[1], r[2]
            key = (mod.name, name)
            if key not in self.module_vars:
                vals = mod.assigns[name]
                mfr = Frame(_ModuleFunc(mod), mod, {})
                self.stack.append(mfr)
                saved = (self.loop_depth, self.maybe)
                self.loop_depth, self.maybe = 0, 0
                try:
                    v = None
                    for node in vals:
                        v = join(v, self.eval(node, mfr))
                finally:
                    self.loop_depth, self.maybe = saved
                    self.stack.pop()
                self.mark_shared(v, f"module:{mod.name}.{name}")
                vo = self.obj(v)
                if vo is not None and vo.kind == "dict" and not vo.meta.get("stores") and vo.elem is None:
                    vo.meta["empty_init"] = True      # a module-level dictionary created empty is there to be filled: a cache
                if vo is not None and vo.kind == "record":
                    # a module-level instance of a repository class (a hand-written memo): its empty dictionaries likewise
                    for fv in vo.fields.values():
                        fo = self.obj(fv)
                        if fo is not None and fo.kind == "dict" and not fo.meta.get("stores") and fo.elem is None:
                            fo.meta["empty_init"] = True
                self.module_vars[key] = v
            return self.module_vars[key]
        raise Unsupported(f"global kind {k}")

    def class_value(self, cls, attr):
        """value of a class-level assignment.  A display of callables / constants written in the class body (a dispatch
        table) is evaluated in the class scope: the names of the class's own functions denote the plain functions."""
        node = cls.class_assigns[attr]
        simple = all(isinstance(n, (ast.Tuple, ast.List, ast.Dict, ast.Name, ast.Constant, ast.Lambda, ast.arguments, ast.arg, ast.Load, ast.Call, ast.Attribute,
                                    ast.Compare, ast.BoolOp, ast.UnaryOp, ast.BinOp, ast.operator, ast.cmpop, ast.boolop, ast.unaryop, ast.IfExp, ast.Subscript, ast.keyword)) for n in ast.walk(node))
        if not (simple and isinstance(node, (ast.Tuple, ast.List, ast.Dict))):
            return Sym("classattr", cls.fq, attr)
        key = ("<class>", cls.fq, attr)
        if key not in self.module_vars:
            env = {name: FuncV(m) for name, m in cls.methods.items()}
            mfr = Frame(_ModuleFunc(cls.module), cls.module, env)
            self.stack.append(mfr)
            saved = (self.loop_depth, self.maybe)
            self.loop_depth, self.maybe = 0, 0
            try:
                v = self.eval(node, mfr)
            except Unsupported:
                v = Sym("classattr", cls.fq, attr)
            finally:
                self.loop_depth, self.maybe = saved
                self.stack.pop()
            self.mark_shared(v, f"class:{cls.fq}.{attr}")
            self.module_vars[key] = v
        return self.module_vars[key]

    def ex_Attribute(self, e, fr):
        base = self.eval(e.value, fr)
        return self.getattr(base, e.attr, e, fr)

    def getattr(self, base, attr, e, fr):
        if isinstance(base, Alt):
            out = None
            for b in base.vals:
                out = join(out, self.getattr(b, attr, e, fr))
            return out
        if isinstance(base, ModV):
            r = self.prog.lookup_global(base.mod, attr)
            if r is None:
                raise Unsupported(f"module {base.mod.name} has no {attr} at {pyfacts.where(fr.func, e)}")
            return self.global_value(r, fr)
        if isinstance(base, ExtV):
            return ExtV(base.dotted + "." + attr)
        if isinstance(base, ClassV):
            if attr in ("__new__", "_make") and self.prog.find_method(base.cls, attr) is None:
                return Bound(base, attr)
            meth = self.prog.find_method(base.cls, attr)
            if meth:
                return FuncV(meth) if (meth.is_static) else Bound(base, attr, meth)
            if attr in base.cls.inner:
                return ClassV(base.cls.inner[attr])
            if attr in base.cls.class_assigns:
                return self.class_value(base.cls, attr)
            return Sym("classattr", base.cls.fq, attr)
        if isinstance(base, Ref):
            o = self.heap[base.oid]
            if o.kind == "circuit":
                if attr == "num_qubits":
                    return o.width if o.width is not None else Sym("attr", self.sym_of(base), "num_qubits")
                if attr == "metadata":
                    # Qiskit >= 1.0: metadata is always a dictionary owned by the circuit (Q1: copied by compose)
                    if "metadata" not in o.meta:
                        d = self.alloc("dict", origin=o.origin if o.origin[0] != "fresh" else None, site=f"metadata of circuit #{o.oid}")
                        o.meta["metadata"] = Ref(d.oid)
                    return o.meta["metadata"]
                if attr == "data":
                    # the circuit's own instruction list: edits made through it change the circuit
                    d = o.meta.get("data_list")
                    if d is None:
                        dl = self.alloc("list", o.origin if o.origin[0] != "fresh" else None, pyfacts.where(fr.func, e))
                        dl.elem = Sym("instruction", self.sym_of(base))
                        dl.meta["data_of"] = o.oid
                        d = o.meta["data_list"] = Ref(dl.oid)
                    return d
                if attr in ("qubits", "clbits", "name", "num_clbits", "global_phase"):
                    return Sym("attr", self.sym_of(base), attr)
                return Bound(base, attr)
            if o.kind == "record":
                if o.cls is not None and attr not in o.fields:
                    pg = self.prog.find_property(o.cls, attr)
                    if pg is not None:
                        return self.call_function(pg, [base], {}, e)      # property: the getter runs
                if attr in o.fields:
                    return self.refine(o.fields[attr])
                if o.cls is not None:
                    meth = self.prog.find_method(o.cls, attr)
                    if meth:
                        return Bound(base, attr, meth)
                    if attr in o.cls.class_assigns:
                        return self.class_value(o.cls, attr)
                return Sym("attr", self.sym_of(base), attr)
            return Bound(base, attr)
        if isinstance(base, Const):
            return Bound(base, attr)
        if isinstance(base, Sym):
            if base.typ is not None and not isinstance(base.typ, str):
                meth = self.prog.find_method(base.typ, attr)
                if meth:
                    return Bound(base, attr, meth)
            if attr in STR_LIKE_METHODS or attr in OPAQUE_METHODS:
                return Bound(base, attr)
            return Sym("attr", base, attr, prov=base.prov)
        if isinstance(base, (FuncV, Bound)):
            return Sym("attr", Sym("callable"), attr)
        raise Unsupported(f"attribute {attr} of {base!r} at {pyfacts.where(fr.func, e)}")

    def keyval(self, idx):
        """dictionary keys: a tuple of values is compared structurally"""
        o = self.obj(idx)
        if o is not None and o.kind == "tuple" and o.items is not None:
            return Sym("tuple", *[self.keyval(x) for x in o.items])
        return idx

    def sym_of(self, v):
        """a Sym standing for a heap object in symbolic expressions"""
        if isinstance(v, Ref):
            o = self.heap[v.oid]
            if o.origin[0] == "param":
                return Sym("param", o.origin[1])
            if o.kind == "record" and o.cls is not None and "ctor_args" in o.meta:
                return Sym("new", o.cls.name, *o.meta["ctor_args"])
            return Sym("obj", o.kind, o.oid)
        return v

    def derive(self, tag, *vals):
        prov = frozenset()
        args = []
        for v in vals:
            if isinstance(v, Sym):
                prov |= v.prov
            if isinstance(v, Ref):
                o = self.heap[v.oid]
                if isinstance(o.elem, Sym):
                    prov |= o.elem.prov
                args.append(self.sym_of(v))
            elif isinstance(v, Alt):
                for x in v.vals:
                    if isinstance(x, Sym):
                        prov |= x.prov
                args.append(v)
            else:
                args.append(v)
        return Sym(tag, *args, prov=prov)

    def ex_JoinedStr(self, e, fr):
        parts = []
        for v in e.values:
            if isinstance(v, ast.Constant):
                parts.append(Const(v.value))
            else:
                val = self.eval(v.value, fr)
                if v.format_spec is not None or v.conversion != -1:
                    val = self.derive("fmt", val)
                parts.append(val)
        if all(isinstance(p, Const) for p in parts):
            return Const("".join(str(p.v) for p in parts))
        return Sym("fstr", *parts)

    def ex_FormattedValue(self, e, fr):
        return self.derive("fmt", self.eval(e.value, fr))

    def ex_Tuple(self, e, fr):
        return self.new_list(items=[self.eval(x, fr) for x in e.elts if not isinstance(x, ast.Starred)], kind="tuple",
                             site=pyfacts.where(fr.func, e))

    def ex_List(self, e, fr):
        items = []
        for x in e.elts:
            if isinstance(x, ast.Starred):
                v = self.eval(x.value, fr)
                o = self.obj(v)
                if o is not None and o.items is not None:
                    items.extend(o.items)
                else:
                    return self.new_list(elem=o.elem if o else Sym("elem", v), site=pyfacts.where(fr.func, e))
            else:
                items.append(self.eval(x, fr))
        return self.new_list(items=items, site=pyfacts.where(fr.func, e))

    def ex_Set(self, e, fr):
        return self.new_list(items=[self.eval(x, fr) for x in e.elts], kind="list", site=pyfacts.where(fr.func, e))

    def ex_Dict(self, e, fr):
        o = self.alloc("dict", site=pyfacts.where(fr.func, e))
        for k, v in zip(e.keys, e.values):
            if k is not None:
                kv = self.eval(k, fr)
                vv = self.eval(v, fr)
                o.elem = join(o.elem, vv)
                o.meta.setdefault("stores", []).append((kv, vv, pyfacts.where(fr.func, e)))
        return Ref(o.oid)

    def ex_Lambda(self, e, fr):
        return LambdaV(e, fr)

    def ex_Yield(self, e, fr):
        if getattr(fr, "yields", None) is None:
            raise Unsupported(f"yield outside a generator function at {pyfacts.where(fr.func, e)}")
        fr.yields.append(self.eval(e.value, fr) if e.value is not None else Const(None))
        return Const(None)

    def ex_YieldFrom(self, e, fr):
        if getattr(fr, "yields", None) is None:
            raise Unsupported(f"yield from outside a generator function at {pyfacts.where(fr.func, e)}")
        fr.yields.append(self.iter_elem(self.eval(e.value, fr), fr, e))
        return Const(None)

    def call_lambda(self, lam, args, kwargs):
        a = lam.node.args
        params = [x.arg for x in a.posonlyargs + a.args]
        defaults = [None] * (len(params) - len(a.defaults)) + list(a.defaults)
        env = {}
        for i, p in enumerate(params):
            if i < len(args):
                env[p] = args[i]
            elif p in kwargs:
                env[p] = kwargs[p]
            elif defaults[i] is not None:
                env[p] = self.eval(defaults[i], lam.frame)
            else:
                env[p] = Sym("missing", p)
        sub = Frame(lam.frame.func, lam.frame.module, env)
        sub.closure = lam.frame
        sub.entry_loop_depth, sub.entry_maybe = self.loop_depth, self.maybe
        return self.eval(lam.node.body, sub)

    def ex_IfExp(self, e, fr):
        t = self.truth(self.eval(e.test, fr), fr, fork=self.can_fork())
        if t is True:
            return self.eval(e.body, fr)
        if t is False:
            return self.eval(e.orelse, fr)
        return join(self.eval(e.body, fr), self.eval(e.orelse, fr))

    def ex_BoolOp(self, e, fr):
        vals = []
        is_and = isinstance(e.op, ast.And)
        for x in e.values:
            v = self.eval(x, fr)
            t = self.truth(v, fr, fork=False)
            if is_and and t is False:
                return v if not vals else Const(False)
            if (not is_and) and t is True:
                return v if not vals else (v if all(self.truth(q, fr, fork=False) is False for q in vals) else Sym("or", *vals, v))
            if t is None:
                vals.append(v)
            elif is_and and t is True:
                last = v
            elif (not is_and) and t is False:
                last = v
        if not vals:
            return v
        if len(vals) == 1 and vals[0] is v:
            return v
        return Sym("and" if is_and else "or", *vals)

    def ex_UnaryOp(self, e, fr):
        v = self.eval(e.operand, fr)
        if isinstance(e.op, ast.Not):
            t = self.truth(v, fr, fork=False)
            if t is not None:
                return Const(not t)
            return Sym("not", v)
        if isinstance(v, Const) and isinstance(v.v, (int, float)):
            if isinstance(e.op, ast.USub):
                return Const(-v.v)
            if isinstance(e.op, ast.UAdd):
                return Const(+v.v)
            if isinstance(e.op, ast.Invert) and isinstance(v.v, int):
                return Const(~v.v)
        return self.derive("un" + type(e.op).__name__, v)

    def ex_BinOp(self, e, fr):
        return self.binop(e.op, self.eval(e.left, fr), self.eval(e.right, fr))

    def binop(self, op, a, b):
        if isinstance(a, Const) and isinstance(b, Const):
            try:
                import operator as _o
                fn = {ast.Add: _o.add, ast.Sub: _o.sub, ast.Mult: _o.mul, ast.FloorDiv: _o.floordiv, ast.Mod: _o.mod,
                      ast.Pow: _o.pow, ast.LShift: _o.lshift, ast.RShift: _o.rshift, ast.BitAnd: _o.and_,
                      ast.BitOr: _o.or_, ast.BitXor: _o.xor, ast.Div: _o.truediv}.get(type(op))
                if fn and not (isinstance(op, ast.Pow) and isinstance(b.v, int) and abs(b.v) > 64):
                    return Const(fn(a.v, b.v))
            except Exception:
                pass
        oa, ob = self.obj(a), self.obj(b)
        if isinstance(op, ast.Add) and oa is not None and ob is not None and oa.kind in ("list", "tuple") and ob.kind == oa.kind:
            if oa.items is not None and ob.items is not None:
                return self.new_list(items=oa.items + ob.items, kind=oa.kind)
            return self.new_list(elem=join(oa.elem, ob.elem), kind=oa.kind)
        if isinstance(op, ast.Mult) and oa is not None and oa.kind in ("list", "tuple"):
            return self.new_list(elem=oa.elem, kind=oa.kind)
        if isinstance(op, ast.Div) and isinstance(a, Sym) and a.tag.endswith("resources.files"):
            return Sym("respath", b)
        return self.derive("bin" + type(op).__name__, a, b)

    def ex_Compare(self, e, fr):
        left = self.eval(e.left, fr)
        results = []
        for op, rn in zip(e.ops, e.comparators):
            right = self.eval(rn, fr)
            results.append(self.compare(op, left, right, fr))
            left = right
        if all(isinstance(r, Const) for r in results):
            return Const(all(r.v for r in results))
        if any(isinstance(r, Const) and r.v is False for r in results):
            return Const(False)
        rs = [r for r in results if not isinstance(r, Const)]
        return rs[0] if len(rs) == 1 else Sym("and", *rs)

    def compare(self, op, a, b, fr):
        if isinstance(op, (ast.Is, ast.IsNot)):
            neg = isinstance(op, ast.IsNot)
            r = self.is_test(a, b)
            if r is None:
                s = a if not (isinstance(a, Const) and a.v is None) else b
                if isinstance(s, Sym) and s.maybe_none:
                    if ("isnone", vkey(s)) in self.decisions:
                        r = self.decisions[("isnone", vkey(s))]      # decided earlier on this path (also inside loops)
                    elif self.can_fork():
                        r = self.decide(("isnone", vkey(s)))
                    else:
                        return Sym("isnot" if neg else "is", a, b)
                else:
                    return Sym("isnot" if neg else "is", a, b)
            return Const(r != neg)
        if isinstance(a, Const) and isinstance(b, Const):
            try:
                import operator as _o
                fn = {ast.Eq: _o.eq, ast.NotEq: _o.ne, ast.Lt: _o.lt, ast.LtE: _o.le, ast.Gt: _o.gt, ast.GtE: _o.ge}.get(type(op))
                if fn:
                    return Const(fn(a.v, b.v))
                if isinstance(op, ast.In):
                    return Const(a.v in b.v)
                if isinstance(op, ast.NotIn):
                    return Const(a.v not in b.v)
            except Exception:
                pass
        if isinstance(op, (ast.In, ast.NotIn)):
            ob = self.obj(b)
            if ob is not None and ob.kind == "dict" and ob.shared() and self.can_fork() and self.is_cache(ob):
                # membership in a cache: fork into miss (explored first) and hit
                a = self.keyval(a)
                if any(vkey(k) == vkey(a) for (k, _v, _w) in ob.meta.get("stores", [])):
                    present = True
                else:
                    present = not self.decide(("cache-miss", ob.origin[1]))
                return Const(present if isinstance(op, ast.In) else not present)
        if isinstance(op, (ast.In, ast.NotIn)) and isinstance(a, Const):
            ob = self.obj(b)
            if ob is not None and ob.items is not None and all(isinstance(x, Const) for x in ob.items):
                r = a.v in [x.v for x in ob.items]
                return Const(r if isinstance(op, ast.In) else not r)
        if isinstance(op, (ast.Eq, ast.NotEq)) and vkey(a) == vkey(b) and isinstance(a, (Sym, Ref)):
            return Const(isinstance(op, ast.Eq))
        return self.derive("cmp" + type(op).__name__, a, b)

    def is_test(self, a, b):
        """a is b: True / False / None"""
        an = isinstance(a, Const) and a.v is None
        bn = isinstance(b, Const) and b.v is None
        if an and bn:
            return True
        if an or bn:
            other = b if an else a
            if isinstance(other, (Ref, FuncV, ClassV, ModV, ExtV, Bound)):
                return False
            if isinstance(other, Const):
                return other.v is None
            if isinstance(other, Sym) and not other.maybe_none and other.tag in ("param", "new", "fileline", "filetext", "fstr"):
                return False
            return None
        if isinstance(a, Ref) and isinstance(b, Ref):
            return a.oid == b.oid
        return None

    def ex_Subscript(self, e, fr):
        base = self.eval(e.value, fr)
        idx = self.eval(e.slice, fr) if not isinstance(e.slice, ast.Slice) else self.ex_Slice(e.slice, fr)
        bo = self.obj(base)
        if bo is not None and bo.kind == "dict":
            idx = self.keyval(idx)
        return self.getitem(base, idx, e, fr)

    def ex_Slice(self, e, fr):
        parts = [self.eval(x, fr) if x is not None else Const(None) for x in (e.lower, e.upper, e.step)]
        return Sym("slice", *parts)

    def getitem(self, base, idx, e, fr):
        if isinstance(base, Alt):
            out = None
            for b in base.vals:
                out = join(out, self.getitem(b, idx, e, fr))
            return out
        o = self.obj(base)
        if o is not None:
            if o.kind in ("list", "tuple"):
                if isinstance(idx, Sym) and idx.tag == "slice":
                    return self.new_list(elem=o.elem, kind=o.kind, site=pyfacts.where(fr.func, e))
                if o.items is not None and isinstance(idx, Const) and isinstance(idx.v, int) and -len(o.items) <= idx.v < len(o.items):
                    return o.items[idx.v]
                if "split" in o.meta and isinstance(idx, Const) and isinstance(idx.v, int):
                    recv, sargs = o.meta["split"]
                    return Sym("field", recv, *sargs, idx, prov=recv.prov)
                if o.elem is None:
                    return Sym("elem", self.sym_of(base))
                return o.elem
            if o.kind == "dict":
                stores = o.meta.get("stores", [])
                for (k, v, _) in reversed(stores):
                    if vkey(k) == vkey(idx):
                        return v
                if o.elem is not None:
                    return o.elem
                if o.shared():
                    mk = (o.origin[1], vkey(idx))
                    if mk in self.cache_model:
                        v = self.materialize(self.cache_model[mk], o.origin[1])
                        o.meta.setdefault("stores", []).append((idx, v, "earlier call (modelled from the miss path)"))
                        return v
                    raise Unsupported(f"load from shared dictionary {o.origin[1]} whose contents are not modelled at {pyfacts.where(fr.func, e)}")
                return Sym("item", self.sym_of(base), idx)
            if o.kind == "circuit":
                return Sym("item", self.sym_of(base), idx)
            if o.kind == "record":
                return Sym("item", self.sym_of(base), idx)
        if isinstance(base, Const) and isinstance(idx, Const):
            try:
                return Const(base.v[idx.v])
            except Exception:
                pass
        if isinstance(base, ExtV):      # typing subscripts  List[int]
            if base.dotted.split(".")[-1] == "Literal":
                io = self.obj(idx)
                items = io.items if (io is not None and io.items is not None) else [idx]
                return Sym("literal", *items)
            return base
        return self.derive("item", base, idx)

    def ex_Starred(self, e, fr):
        return self.eval(e.value, fr)

    def ex_ListComp(self, e, fr):
        return self.comp(e, fr, "list")

    def ex_GeneratorExp(self, e, fr):
        v = self.comp(e, fr, "list")
        o = self.obj(v)
        if o is not None:
            o.meta["generator"] = pyfacts.where(fr.func, e)      # a one-shot iterator, modelled by the list of what it yields
        return v

    def ex_SetComp(self, e, fr):
        return self.comp(e, fr, "list")

    def ex_DictComp(self, e, fr):
        o = self.alloc("dict", site=pyfacts.where(fr.func, e))
        sub = Frame(fr.func, fr.module, dict(fr.env), parent=fr.parent)
        sub.entry_loop_depth = getattr(fr, "entry_loop_depth", 0)
        self.loop_depth += 1
        try:
            for g in e.generators:
                self.assign(g.target, self.iter_elem(self.eval(g.iter, sub), sub, e), sub, e)
            o.elem = self.eval(e.value, sub)
        finally:
            self.loop_depth -= 1
        return Ref(o.oid)

    def comp(self, e, fr, kind):
        sub = Frame(fr.func, fr.module, dict(fr.env), parent=fr.parent)
        sub.entry_loop_depth = getattr(fr, "entry_loop_depth", 0)
        sub.closure = getattr(fr, "closure", None)
        res = self.alloc(kind, site=pyfacts.where(fr.func, e))   # allocated outside the loop
        self.loop_depth += 1
        saved = self.maybe
        try:
            for g in e.generators:
                self.assign(g.target, self.iter_elem(self.eval(g.iter, sub), sub, e), sub, e)
                for c in g.ifs:
                    self.eval(c, sub)
            res.elem = self.eval(e.elt, sub)
            if len(e.generators) == 1 and not e.generators[0].ifs and isinstance(e.elt, ast.Name) and \
                    isinstance(e.generators[0].target, ast.Name) and e.elt.id == e.generators[0].target.id:
                src = self.eval(e.generators[0].iter, sub)
                so = self.obj(src)
                res.meta["identity_conv_of"] = (so.meta.get("identity_conv_of") or self.sym_of(src)) if so is not None else (src if isinstance(src, Sym) and src.tag == "param" else None)
            elif any(g.ifs for g in e.generators):
                res.meta["filtered"] = pyfacts.where(fr.func, e)
            elif len(e.generators) == 1 and isinstance(e.generators[0].target, ast.Name):
                # [f(x) for x in xs]: one element per element of xs, in order (an order-preserving elementwise image)
                so = self.obj(self.eval(e.generators[0].iter, sub))
                if so is not None and so.kind in ("list", "tuple"):
                    res.meta["elementwise_of"] = so.meta.get("elementwise_of", so.oid)
            # [fn(x) for x in text.split(sep)]: element i is fn(field i)
            if len(e.generators) == 1 and not e.generators[0].ifs and isinstance(e.generators[0].target, ast.Name) and \
                    isinstance(e.elt, ast.Call) and isinstance(e.elt.func, ast.Name) and len(e.elt.args) == 1 and not e.elt.keywords and \
                    isinstance(e.elt.args[0], ast.Name) and e.elt.args[0].id == e.generators[0].target.id and e.elt.func.id in ("int", "str", "float"):
                so = self.obj(self.eval(e.generators[0].iter, sub))
                if so is not None and "split" in so.meta:
                    recv, sargs = so.meta["split"]
                    res.meta["mapsplit"] = Sym("mapsplit", Const(e.elt.func.id), recv, *sargs, prov=recv.prov)
        finally:
            self.loop_depth -= 1
            self.maybe = saved
        return Ref(res.oid)

    def iter_elem(self, it, fr, node):
        if isinstance(it, Alt):
            out = None
            for x in it.vals:
                out = join(out, self.iter_elem(x, fr, node))
            return out
        o = self.obj(it)
        if o is not None:
            if o.kind in ("list", "tuple"):
                if o.items is not None and len(o.items) == 0 and (not self.weak(o) or o.kind == "tuple"):
                    return Sym("noelem")      # iteration over a known-empty literal: the body never runs with a value
                return o.elem if o.elem is not None else Sym("elem", self.sym_of(it))
            if o.kind == "dict":
                return Sym("key", self.sym_of(it))
            return Sym("elem", self.sym_of(it))
        if isinstance(it, Const) and it.v is None:
            return Sym("noelem")              # iterating None raises: no value reaches the body
        if isinstance(it, Sym) and it.tag == "enumerate":
            inner = self.iter_elem(it.args[0], fr, node)
            return self.new_list(items=[Sym("index", vkey_s(it.args[0])), inner], kind="tuple")
        if isinstance(it, Sym) and it.tag == "zip":
            return self.new_list(items=[self.iter_elem(a, fr, node) for a in it.args], kind="tuple")
        if isinstance(it, Sym) and it.tag == "items":
            src = it.args[0]
            so = self.obj(src)
            return self.new_list(items=[Sym("key", self.sym_of(src)), so.elem if so and so.elem is not None else Sym("val", self.sym_of(src))], kind="tuple")
        if isinstance(it, Sym) and it.tag in ("iterof", "reversed", "filter", "sorted"):
            return self.iter_elem(it.args[-1], fr, node)
        if isinstance(it, Sym) and it.tag == "range":
            return Sym("rangeelem", *it.args)
        return self.derive("elem", it)

    def ex_Call(self, e, fr):
        from .abscalls import do_call
        return do_call(self, e, fr)

    def ex_NamedExpr(self, e, fr):
        v = self.eval(e.value, fr)
        fr.env[e.target.id] = v
        return v


def _has_own_break(loop):
    """a break statement that leaves THIS loop (not one of a nested loop)"""
    def walk(stmts):
        for x in stmts:
            if isinstance(x, ast.Break):
                return True
            if isinstance(x, (ast.For, ast.While, ast.AsyncFor)):
                if walk(x.orelse):
                    return True
                continue
            if isinstance(x, (ast.FunctionDef, ast.AsyncFunctionDef, ast.ClassDef)):
                continue
            for fld in ("body", "orelse", "finalbody"):
                if walk(getattr(x, fld, []) or []):
                    return True
            for h in getattr(x, "handlers", []) or []:
                if walk(h.body):
                    return True
            for c in getattr(x, "cases", []) or []:
                if walk(c.body):
                    return True
        return False
    return walk(loop.body)


class _MaybeExit(Exception):
    """control left a block that runs in maybe/loop mode"""


class _ModuleFunc:
    """stand-in 'function' for module-level evaluation"""

    def __init__(self, mod):
        self.module, self.qualname, self.name, self.fq, self.params, self.cls = mod, "<module>", "<module>", f"{mod.name}.<module>", [], None
        self.node = mod.tree


STR_LIKE_METHODS = {"split", "replace", "strip", "lstrip", "rstrip", "startswith", "endswith", "join", "format", "lower", "upper",
                    "count", "index", "find", "encode", "decode", "zfill", "rjust", "ljust", "splitlines", "isdigit"}
OPAQUE_METHODS = {"joinpath", "read_text", "read_bytes", "is_file", "exists", "open", "astype", "reshape", "any", "all", "sum", "copy", "tolist", "items", "keys", "values", "get", "evolve", "to_labels",
                  "to_matrix", "fill", "transpose", "get_counts", "bit_count", "commutes_with_all", "update", "append", "reverse",
                  "dot", "flatten", "nonzero", "astype", "id", "name", "to_list", "expand", "validate", "is_qubit_entangled",
                  "compress", "get_edges", "has_edge", "add_edge", "pop", "extend", "insert", "sort", "setdefault", "clear", "remove"}


def _names(node):
    if isinstance(node, ast.Tuple):
        return [ast.unparse(x) for x in node.elts]
    return [ast.unparse(node)]


def _as_load(t):
    t2 = ast.parse(ast.unparse(t), mode="eval").body
    ast.copy_location(t2, t)
    for n in ast.walk(t2):
        if not hasattr(n, "lineno"):
            n.lineno = getattr(t, "lineno", 0)
            n.col_offset = 0
    return t2


def _is_desc(x):
    return isinstance(x, tuple) and x and isinstance(x[0], str)


def _sym_from_key(k):
    if not isinstance(k, tuple) or not k:
        return k      # raw atoms (parameter / attribute names, tags) are kept as they are inside Sym arguments
    if k[0] == "const":
        return Const(k[2])
    if not isinstance(k[0], str):
        return Sym("tuple", *[_sym_from_key(x) for x in k])
    args = [_sym_from_key(x) for x in k[1:]]
    prov = frozenset()
    for a in args:
        if isinstance(a, Sym):
            prov |= a.prov
    if k[0] == "filetext":
        prov = frozenset([("file", k[1])])
    return Sym(k[0], *args, prov=prov)


def vkey_s(v):
    return v if isinstance(v, (Sym, Const)) else Sym("v", Const(repr(vkey(v))))


# ---------------------------------------------------------------------------------------------
def run_entry(prog, func, make_args, inline_all=False):
    """Enumerate the return paths of `func` under abstract arguments.
    make_args(interp) -> (args list, kwargs dict).  Returns list[PathResult]."""
    results = []
    prefixes = [[]]
    n = 0
    cache_model = {}
    while prefixes:
        prefix = prefixes.pop()
        n += 1
        if n > MAX_PATHS:
            raise Unsupported(f"more than {MAX_PATHS} paths through {func.fq}")
        it = Interp(prog, prefix, inline_all=inline_all, cache_model=cache_model)
        args, kwargs = make_args(it, func)
        try:
            v = it.call_function(func, args, dict(kwargs))
            results.append(PathResult("return", v, it))
            for ev in it.events:
                if ev[0] == "store-shared" and (ev[1], vkey(ev[2])) not in cache_model:
                    cache_model[(ev[1], vkey(ev[2]))] = results[-1].describe(ev[3], 1)
        except _Raise as r:
            results.append(PathResult("raise", None, it, what=r.what))
        except (_MaybeExit, _Break, _Continue):
            results.append(PathResult("raise", None, it, what="exit in maybe mode"))
        # schedule the unexplored siblings of every decision taken beyond the prefix
        order = it.decision_order
        taken = [it.decisions[k] for k in order]
        for i in range(len(prefix), len(order)):
            if taken[i] is True:
                prefixes.append(taken[:i] + [False])
    return results


def default_args(interp, func):
    """abstract arguments from the annotations of an entry point"""
    a = func.node.args
    out = []
    params = a.posonlyargs + a.args
    defaults = [None] * (len(params) - len(a.defaults)) + list(a.defaults)
    for arg, dflt in zip(params, defaults):
        if func.cls is not None and func.is_classmethod and arg is params[0]:
            out.append(ClassV(func.cls))
            continue
        if func.cls is not None and not func.is_static and arg is params[0]:
            o = interp.alloc("record", ("param", arg.arg), cls=func.cls)
            out.append(Ref(o.oid))
            continue
        out.append(param_value(interp, func, arg, dflt))
    return out, {}


def param_value(interp, func, arg, dflt):
    ann = ast.unparse(arg.annotation) if arg.annotation is not None else ""
    maybe_none = ("Optional" in ann) or (isinstance(dflt, ast.Constant) and dflt.value is None)
    if ann in ("QuantumCircuit",) or ann.startswith("QuantumCircuit"):
        return interp.new_circuit(("param", arg.arg), origin=("param", arg.arg))
    c = interp.prog.ann_class(func.module, arg.annotation)
    return Sym("param", arg.arg, typ=c if c is not None else (ann or None), maybe_none=maybe_none)
