"""Abstract values and circuit terms of the abstract interpreter (absint)."""
from __future__ import annotations


class Const:
    __slots__ = ("v",)

    def __init__(self, v):
        self.v = v

    def key(self):
        return ("const", type(self.v).__name__, self.v)

    def __repr__(self):
        return f"Const({self.v!r})"


class Sym:
    """symbolic / opaque scalar with structural identity; prov = table files the value derives from;
    typ = repo Class or external dotted name when known"""
    __slots__ = ("tag", "args", "prov", "typ", "maybe_none")

    def __init__(self, tag, *args, prov=frozenset(), typ=None, maybe_none=False):
        self.tag, self.args, self.prov, self.typ, self.maybe_none = tag, tuple(args), frozenset(prov), typ, maybe_none

    def key(self):
        return (self.tag,) + tuple(vkey(a) for a in self.args)

    def __repr__(self):
        return fmt(self.key())


class Ref:
    __slots__ = ("oid",)

    def __init__(self, oid):
        self.oid = oid

    def key(self):
        return ("ref", self.oid)

    def __repr__(self):
        return f"Ref({self.oid})"


class FuncV:
    def __init__(self, func, closure=None):
        self.func, self.closure = func, closure

    def key(self):
        return ("func", self.func.fq)


class ClassV:
    def __init__(self, cls):
        self.cls = cls

    def key(self):
        return ("class", self.cls.fq)


class ModV:
    def __init__(self, mod):
        self.mod = mod

    def key(self):
        return ("module", self.mod.name)


class ExtV:
    """external (qiskit / numpy / stdlib / builtin) callable or module, by dotted name"""

    def __init__(self, dotted):
        self.dotted = dotted

    def key(self):
        return ("ext", self.dotted)

    def __repr__(self):
        return f"Ext({self.dotted})"


class LambdaV:
    """a lambda expression together with the frame it was created in"""

    def __init__(self, node, frame):
        self.node, self.frame = node, frame

    def key(self):
        return ("lambda", id(self.node))


class Bound:
    def __init__(self, recv, name, func=None):
        self.recv, self.name, self.func = recv, name, func

    def key(self):
        return ("bound", vkey(self.recv), self.name)


class Alt:
    """join of several abstract values (weak update)"""

    def __init__(self, vals):
        flat = []
        for v in vals:
            if isinstance(v, Alt):
                flat.extend(v.vals)
            else:
                flat.append(v)
        seen, out = set(), []
        for v in flat:
            k = vkey(v)
            if k not in seen:
                seen.add(k)
                out.append(v)
        self.vals = out

    def key(self):
        return ("alt",) + tuple(sorted((vkey(v) for v in self.vals), key=repr))

    def __repr__(self):
        return f"Alt({self.vals})"


def join(a, b):
    if a is None:
        return b
    if b is None:
        return a
    if vkey(a) == vkey(b):
        return a
    return Alt([a, b])


def vkey(v):
    if isinstance(v, (Const, Sym, Ref, FuncV, ClassV, ModV, ExtV, Bound, Alt, LambdaV)):
        return v.key()
    if isinstance(v, tuple):
        return tuple(vkey(x) for x in v)
    if isinstance(v, (str, int, float, bool, type(None), frozenset)):
        return v
    return ("py", repr(v))


def fmt(k) -> str:
    if isinstance(k, tuple) and k:
        h = k[0]
        if h == "const":
            return repr(k[2])
        if h == "param":
            return str(k[1])
        if h == "attr":
            return f"{fmt(k[1])}.{k[2]}"
        if h == "len":
            return f"len({fmt(k[1])})"
        return f"{h}(" + ", ".join(fmt(x) for x in k[1:]) + ")"
    return str(k)


class HObj:
    """heap object.  kind: circuit | list | dict | record | tuple | passmanager
    origin: ('fresh', site) | ('param', name) | ('shared', what)"""

    def __init__(self, oid, kind, origin, site="", cls=None, depth=0):
        self.oid, self.kind, self.origin, self.site, self.cls = oid, kind, origin, site, cls
        self.fields: dict = {}
        self.term = None          # circuits
        self.width = None
        self.elem = None          # lists / dicts / tuples (summary)
        self.items: list | None = None   # tuples/lists with known items
        self.loop_depth = depth
        self.meta: dict = {}

    def shared(self):
        return self.origin[0] == "shared"


# ---------------------------------------------------------------------------------------------
# circuit terms (nested tuples)

def t_empty():
    return ("seq", ())


def t_seq(*ts):
    out = []
    for t in ts:
        if t[0] == "seq":
            out.extend(t[1])
        else:
            out.append(t)
    # merge adjacent stars
    merged = []
    for t in out:
        if merged and t[0] == "star" and merged[-1][0] == "star":
            merged[-1] = ("star", merged[-1][1] | t[1])
        else:
            merged.append(t)
    if len(merged) == 1:
        return merged[0]
    return ("seq", tuple(merged))


def t_star(t):
    """zero or more occurrences, in any order, of the leaves of t"""
    if t[0] == "seq" and not t[1]:
        return t
    if t[0] == "star":
        return t
    items = set()

    def rec(x):
        if x[0] == "seq":
            for y in x[1]:
                rec(y)
        elif x[0] == "star":
            items.update(x[1])
        else:
            items.add(x)
    rec(t)
    return ("star", frozenset(items))


def t_inv(t):
    if t[0] == "inv":
        return t[1]
    return ("inv", t)


def t_leaves(t, inv=0, mapped=()):
    """yield (leaf, inversion parity, tuple of mappings applied, under_star, cancel lists)"""
    def rec(x, inv, mapped, star, cancel):
        h = x[0]
        if h == "seq":
            for y in x[1]:
                yield from rec(y, inv, mapped, star, cancel)
        elif h == "star":
            for y in sorted(x[1], key=repr):
                yield from rec(y, inv, mapped, True, cancel)
        elif h == "inv":
            yield from rec(x[1], inv ^ 1, mapped, star, cancel)
        elif h == "mapped":
            yield from rec(x[1], inv, mapped + (x[2],), star, cancel)
        elif h == "cancel":
            yield from rec(x[1], inv, mapped, star, cancel + (x[2],))
        else:
            yield (x, inv, mapped, star, cancel)
    yield from rec(t, inv, mapped, False, ())


def t_fmt(t) -> str:
    h = t[0]
    if h == "seq":
        return "Seq(" + ", ".join(t_fmt(x) for x in t[1]) + ")" if t[1] else "Empty"
    if h == "star":
        tg = [x for x in t[1] if x[0] == "tgate"]
        rest = [x for x in t[1] if x[0] != "tgate"]
        parts = []
        for key in sorted({(x[3], x[4]) for x in tg}, key=repr):
            gs = sorted(f"{x[1]}/{x[2]}" for x in tg if (x[3], x[4]) == key)
            files = ", ".join(fmt(f[1]) for f in key[0])
            parts.append(f"Table[{files}; parse#{key[1]}]{{{' '.join(gs)}}}")
        parts += sorted(t_fmt(x) for x in rest)
        return parts[0] if len(parts) == 1 and not rest else "Star{" + ", ".join(parts) + "}"
    if h == "inv":
        return f"Inv({t_fmt(t[1])})"
    if h == "mapped":
        return f"Mapped({t_fmt(t[1])}, {fmt(t[2])})"
    if h == "cancel":
        return f"Cancel({t_fmt(t[1])}, {{{', '.join(map(str, t[2]))}}})"
    if h == "emit":
        return f"Emit({t[1]}/{t[2]})"
    if h == "table":
        return f"Table({t[1]}, {fmt(t[2])}, {fmt(t[3])})"
    if h == "param":
        return f"Param({t[1]})"
    if h == "measure":
        return "Measure"
    if h == "unknown":
        return f"Unknown({t[1]})"
    if h == "opaque":
        return f"Opaque({t[1]})"
    return str(t)
