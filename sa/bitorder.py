"""Bit-order / index-role qualifier inference (rules B1, B2, B3).

Qualifiers of strings:   ('LE', R)  character p holds element |R|-1-p of R   (count keys: R = register)
                         ('BE', R)  character p holds element p of R
                         ('ORD', L, 'fwd'|'rev', 'ok'|'mirror')  assembled by join over list L
of integers:             ('ILE', X) bit j = element j of X        ('IBE', X) bit j = element |X|-1-j
Anything the algebra does not know is None; a None reaching a sink is an analysis error (exit 2).
"""
from __future__ import annotations
import ast
from .report import AnalysisError
from . import pyfacts


def toggle(q):
    if q is None:
        return None
    if q[0] == "LE":
        return ("BE",) + q[1:]
    if q[0] == "BE":
        return ("LE",) + q[1:]
    if q[0] == "ORD":
        return ("ORD", q[1], "rev" if q[2] == "fwd" else "fwd", q[3])
    return None


def is_rev_slice(s):
    return isinstance(s, ast.Slice) and s.lower is None and s.upper is None and isinstance(s.step, ast.UnaryOp) and \
        isinstance(s.step.op, ast.USub) and isinstance(s.step.operand, ast.Constant) and s.step.operand.value == 1


def index_form(idx, var, strname=None):
    """'direct' if idx is the bare variable, 'fromright' for -1-var, -var-1, ~var, len(s)-1-var, len(s)-var-1; else None"""
    if isinstance(idx, ast.Name) and idx.id == var:
        return "direct"
    if isinstance(idx, ast.UnaryOp) and isinstance(idx.op, ast.Invert) and isinstance(idx.operand, ast.Name) and idx.operand.id == var:
        return "fromright"
    if isinstance(idx, ast.BinOp) and isinstance(idx.op, ast.Sub):
        l, r = idx.left, idx.right
        def is_var(e):
            return isinstance(e, ast.Name) and e.id == var
        def const(e, v):
            return (isinstance(e, ast.Constant) and e.value == v) or \
                (v < 0 and isinstance(e, ast.UnaryOp) and isinstance(e.op, ast.USub) and isinstance(e.operand, ast.Constant) and e.operand.value == -v)
        def is_len(e):
            return isinstance(e, ast.Call) and isinstance(e.func, ast.Name) and e.func.id == "len"
        if const(l, -1) and is_var(r):
            return "fromright"                                   # -1 - q
        if isinstance(l, ast.UnaryOp) and isinstance(l.op, ast.USub) and is_var(l.operand) and const(r, 1):
            return "fromright"                                   # -q - 1
        if isinstance(l, ast.BinOp) and isinstance(l.op, ast.Sub) and is_len(l.left) and const(l.right, 1) and is_var(r):
            return "fromright"                                   # len(s) - 1 - q
        if isinstance(l, ast.BinOp) and isinstance(l.op, ast.Sub) and is_len(l.left) and is_var(l.right) and const(r, 1):
            return "fromright"                                   # len(s) - q - 1
    return None


class StrQual:
    """forward qualifier evaluation inside one function"""

    def __init__(self, func, key_vars, list_params):
        self.f = func
        self.env = dict(key_vars)          # name -> qualifier
        self.list_params = set(list_params)
        self.problems = []                 # (rule, node, message)

    def q(self, e):
        if isinstance(e, ast.Name):
            return self.env.get(e.id)
        if isinstance(e, ast.Call):
            fn = e.func
            if isinstance(fn, ast.Attribute):
                if fn.attr in ("replace", "strip", "lstrip", "rstrip", "zfill", "rjust", "upper", "lower"):
                    return self.q(fn.value)
                if fn.attr == "join" and e.args:
                    return self.join(e.args[0], e)
            if isinstance(fn, ast.Name):
                if fn.id == "int" and e.args:
                    base2 = len(e.args) > 1 and isinstance(e.args[1], ast.Constant) and e.args[1].value == 2
                    base2 = base2 or any(k.arg == "base" and isinstance(k.value, ast.Constant) and k.value.value == 2 for k in e.keywords)
                    s = self.q(e.args[0])
                    if s is None or not base2:
                        return None
                    if s[0] == "LE":
                        return ("ILE", s[1])
                    if s[0] == "BE":
                        return ("IBE", s[1])
                    if s[0] == "ORD":
                        kind = "ILE" if s[2] == "rev" else "IBE"
                        return (kind, s[1], s[3])
                if fn.id in ("Bitstring", "int", "str") and e.args:
                    return self.q(e.args[0])
                if fn.id == "reversed" and e.args:
                    return toggle(self.q(e.args[0]))
                if fn.id in ("list", "tuple") and e.args:
                    return self.q(e.args[0])
            if isinstance(fn, ast.Attribute) and fn.attr in ("int64", "int32", "uint64") and e.args:
                return self.q(e.args[0])
        if isinstance(e, ast.Subscript) and is_rev_slice(e.slice):
            return toggle(self.q(e.value))
        return None

    def join(self, gen, node):
        if not isinstance(gen, (ast.GeneratorExp, ast.ListComp)) or len(gen.generators) != 1:
            return None
        g = gen.generators[0]
        if not isinstance(g.target, ast.Name) or g.ifs:
            return None
        var = g.target.id
        it = g.iter
        order = None
        lst = None
        if isinstance(it, ast.Name) and it.id in self.list_params:
            order, lst = "fwd", it.id
        elif isinstance(it, ast.Call) and isinstance(it.func, ast.Name) and it.func.id == "reversed" and it.args and isinstance(it.args[0], ast.Name) and it.args[0].id in self.list_params:
            order, lst = "rev", it.args[0].id
        elif isinstance(it, ast.Subscript) and is_rev_slice(it.slice) and isinstance(it.value, ast.Name) and it.value.id in self.list_params:
            order, lst = "rev", it.value.id
        if order is None:
            return None
        elt = gen.elt
        if not isinstance(elt, ast.Subscript):
            return None
        s = self.q(elt.value)
        form = index_form(elt.slice, var)
        if s is None or form is None or s[0] not in ("LE", "BE"):
            return None
        sel = "ok" if (s[0], form) in (("BE", "direct"), ("LE", "fromright")) else "mirror"
        if sel == "mirror":
            self.problems.append(("B2", node, f"character selected for list element q is `{ast.unparse(elt)}` on a {'little' if s[0]=='LE' else 'big'}-endian key: that is the bit of register qubit N-1-q, not q"))
        return ("ORD", lst, order, sel)

    def run(self, stmts, on_sink):
        for st in stmts:
            if isinstance(st, ast.Assign) and len(st.targets) == 1 and isinstance(st.targets[0], ast.Name):
                for c in ast.walk(st.value):
                    on_sink(self, c)
                self.env[st.targets[0].id] = self.q(st.value)
            elif isinstance(st, ast.For):
                self.bind_loop(st)
                self.run(st.body, on_sink)
            elif isinstance(st, ast.If):
                saved = dict(self.env)
                self.run(st.body, on_sink)
                e1 = self.env
                self.env = dict(saved)
                self.run(st.orelse, on_sink)
                for k in set(e1) | set(self.env):
                    if e1.get(k) != self.env.get(k):
                        self.env[k] = None
            elif isinstance(st, ast.Expr) and isinstance(st.value, ast.Call) and isinstance(st.value.func, ast.Attribute) and \
                    st.value.func.attr == "reverse" and isinstance(st.value.func.value, ast.Name):
                nm = st.value.func.value.id
                self.env[nm] = toggle(self.env.get(nm))
            else:
                for c in ast.walk(st):
                    on_sink(self, c)

    def bind_loop(self, st):
        """for key, value in counts.items(): key is a little-endian count key over the register (Q5)"""
        it = st.iter
        if isinstance(it, ast.Call) and isinstance(it.func, ast.Attribute) and it.func.attr == "items" and isinstance(st.target, ast.Tuple) and \
                isinstance(st.target.elts[0], ast.Name) and isinstance(it.func.value, ast.Name) and it.func.value.id in self.env.get("__counts__", ()):
            self.env[st.target.elts[0].id] = ("LE", "register")
        elif isinstance(it, ast.Name) and it.id in self.env.get("__counts__", ()) and isinstance(st.target, ast.Name):
            self.env[st.target.id] = ("LE", "register")
        elif isinstance(it, ast.Call) and isinstance(it.func, ast.Attribute) and it.func.attr == "items" and isinstance(it.func.value, ast.Call) and \
                isinstance(it.func.value.func, ast.Name) and it.func.value.func.id == "marginal_counts" and isinstance(st.target, ast.Tuple) and isinstance(st.target.elts[0], ast.Name):
            # qiskit.result.marginal_counts(counts, indices): keys keep one character per selected clbit,
            # little-endian over the SORTED indices (the order of `indices` is ignored)
            mc = it.func.value
            idx = mc.args[1] if len(mc.args) > 1 else next((k.value for k in mc.keywords if k.arg == "indices"), None)
            src = mc.args[0] if mc.args else None
            if isinstance(src, ast.Name) and src.id in self.env.get("__counts__", ()):
                if idx is None or (isinstance(idx, ast.Constant) and idx.value is None):
                    self.env[st.target.elts[0].id] = ("LE", "register")
                else:
                    base = idx
                    while isinstance(base, ast.Call) and isinstance(base.func, ast.Name) and base.func.id in ("list", "tuple", "sorted") and base.args:
                        base = base.args[0]
                    if isinstance(base, ast.Name) and base.id in self.list_params:
                        self.env[st.target.elts[0].id] = ("LE", ("sorted", base.id))
