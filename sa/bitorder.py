"""Bit-order / index-role qualifier inference (rules B1, B2, B3).

Qualifiers of strings:   ('LE', R)  character p holds element |R|-1-p of R   (count keys: R = register)
                         ('BE', R)  character p holds element p of R
                         ('ORD', L, 'fwd'|'rev', 'ok'|'mirror')  assembled by join over list L
of integers:             ('ILE', X) bit j = element j of X        ('IBE', X) bit j = element |X|-1-j
Anything the algebra does not know is None; a None reaching a sink is an analysis error (exit 2).
"""
from __future__ import annotations
import ast
from .report import AnalysisError
from . import pyfacts


def toggle(q):
    if q is None:
        return None
    if q[0] == "LE":
        return ("BE",) + q[1:]
    if q[0] == "BE":
        return ("LE",) + q[1:]
    if q[0] == "ORD":
        return ("ORD", q[1], "rev" if q[2] == "fwd" else "fwd", q[3])
    return None


def is_rev_slice(s):
    return isinstance(s, ast.Slice) and s.lower is None and s.upper is None and isinstance(s.step, ast.UnaryOp) and \
        isinstance(s.step.op, ast.USub) and isinstance(s.step.operand, ast.Constant) and s.step.operand.value == 1


def index_form(idx, var, strname=None):
    """'direct' if idx is the bare variable, 'fromright' for -1-var, -var-1, ~var, len(s)-1-var, len(s)-var-1; else None"""
    if isinstance(idx, ast.Name) and idx.id == var:
        return "direct"
    if isinstance(idx, ast.UnaryOp) and isinstance(idx.op, ast.Invert) and isinstance(idx.operand, ast.Name) and idx.operand.id == var:
        return "fromright"
    if isinstance(idx, ast.BinOp) and isinstance(idx.op, ast.Sub):
        l, r = idx.left, idx.right
        def is_var(e):
            return isinstance(e, ast.Name) and e.id == var
        def const(e, v):
            return (isinstance(e, ast.Constant) and e.value == v) or \
                (v < 0 and isinstance(e, ast.UnaryOp) and isinstance(e.op, ast.USub) and isinstance(e.operand, ast.Constant) and e.operand.value == -v)
        def is_len(e):
            return isinstance(e, ast.Call) and isinstance(e.func, ast.Name) and e.func.id == "len"
        if const(l, -1) and is_var(r):
            return "fromright"                                   # -1 - q
        if isinstance(l, ast.UnaryOp) and isinstance(l.op, ast.USub) and is_var(l.operand) and const(r, 1):
            return "fromright"                                   # -q - 1
        if isinstance(l, ast.BinOp) and isinstance(l.op, ast.Sub) and is_len(l.left) and const(l.right, 1) and is_var(r):
            return "fromright"                                   # len(s) - 1 - q
        if isinstance(l, ast.BinOp) and isinstance(l.op, ast.Sub) and is_len(l.left) and is_var(l.right) and const(r, 1):
            return "fromright"                                   # len(s) - q - 1
    return None


class StrQual:
    """forward qualifier evaluation inside one function"""

    def __init__(self, func, key_vars, list_params):
        self.f = func
        self.env = dict(key_vars)          # name -> qualifier
        self.list_params = set(list_params)
        self.problems = []                 # (rule, node, message)

    def q(self, e):
        if isinstance(e, ast.Name):
            return self.env.get(e.id)
        if isinstance(e, ast.Call):
            fn = e.func
            if isinstance(fn, ast.Attribute):
                if fn.attr in ("replace", "strip", "lstrip", "rstrip", "zfill", "rjust", "upper", "lower"):
                    return self.q(fn.value)
                if fn.attr == "join" and e.args:
                    return self.join(e.args[0], e)
            if isinstance(fn, ast.Name):
                if fn.id == "int" and e.args:
                    base2 = len(e.args) > 1 and isinstance(e.args[1], ast.Constant) and e.args[1].value == 2
                    base2 = base2 or any(k.arg == "base" and isinstance(k.value, ast.Constant) and k.value.value == 2 for k in e.keywords)
                    s = self.q(e.args[0])
                    if s is None or not base2:
                        return None
                    if s[0] == "LE":
                        return ("ILE", s[1])
                    if s[0] == "BE":
                        return ("IBE", s[1])
                    if s[0] == "ORD":
                        kind = "ILE" if s[2] == "rev" else "IBE"
                        return (kind, s[1], s[3])
                if fn.id in ("Bitstring", "int", "str") and e.args:
                    return self.q(e.args[0])
                if fn.id == "reversed" and e.args:
                    return toggle(self.q(e.args[0]))
                if fn.id in ("list", "tuple") and e.args:
                    return self.q(e.args[0])
            if isinstance(fn, ast.Attribute) and fn.attr in ("int64", "int32", "uint64") and e.args:
                return self.q(e.args[0])
        if isinstance(e, ast.Subscript) and is_rev_slice(e.slice):
            return toggle(self.q(e.value))
        return None

    def join(self, gen, node):
        if not isinstance(gen, (ast.GeneratorExp, ast.ListComp)) or len(gen.generators) != 1:
            return None
        g = gen.generators[0]
        if not isinstance(g.target, ast.Name) or g.ifs:
            return None
        var = g.target.id
        it = g.iter
        order = None
        lst = None
        if isinstance(it, ast.Name) and it.id in self.list_params:
            order, lst = "fwd", it.id
        elif isinstance(it, ast.Call) and isinstance(it.func, ast.Name) and it.func.id == "reversed" and it.args and isinstance(it.args[0], ast.Name) and it.args[0].id in self.list_params:
            order, lst = "rev", it.args[0].id
        elif isinstance(it, ast.Subscript) and is_rev_slice(it.slice) and isinstance(it.value, ast.Name) and it.value.id in self.list_params:
            order, lst = "rev", it.value.id
        if order is None:
            return None
        elt = gen.elt
        if not isinstance(elt, ast.Subscript):
            return None
        s = self.q(elt.value)
        form = index_form(elt.slice, var)
        if s is None or form is None or s[0] not in ("LE", "BE"):
            return None
        sel = "ok" if (s[0], form) in (("BE", "direct"), ("LE", "fromright")) else "mirror"
        if sel == "mirror":
            self.problems.append(("B2", node, f"character selected for list element q is `{ast.unparse(elt)}` on a {'little' if s[0]=='LE' else 'big'}-endian key: that is the bit of register qubit N-1-q, not q"))
        return ("ORD", lst, order, sel)

    def run(self, stmts, on_sink):
        for st in stmts:
            if isinstance(st, ast.Assign) and len(st.targets) == 1 and isinstance(st.targets[0], ast.Name):
                for c in ast.walk(st.value):
                    on_sink(self, c)
                self.env[st.targets[0].id] = self.q(st.value)
            elif isinstance(st, ast.For):
                self.bind_loop(st)
                self.run(st.body, on_sink)
            elif isinstance(st, ast.If):
                saved = dict(self.env)
                self.run(st.body, on_sink)
                e1 = self.env
                self.env = dict(saved)
                self.run(st.orelse, on_sink)
                for k in set(e1) | set(self.env):
                    if e1.get(k) != self.env.get(k):
                        self.env[k] = None
            elif isinstance(st, ast.Expr) and isinstance(st.value, ast.Call) and isinstance(st.value.func, ast.Attribute) and \
                    st.value.func.attr == "reverse" and isinstance(st.value.func.value, ast.Name):
                nm = st.value.func.value.id
                self.env[nm] = toggle(self.env.get(nm))
            else:
                for c in ast.walk(st):
                    on_sink(self, c)

    def bind_loop(self, st):
        """for key, value in counts.items(): key is a little-endian count key over the register (Q5)"""
        it = st.iter
        if isinstance(it, ast.Call) and isinstance(it.func, ast.Attribute) and it.func.attr == "items" and isinstance(st.target, ast.Tuple) and \
                isinstance(st.target.elts[0], ast.Name) and isinstance(it.func.value, ast.Name) and it.func.value.id in self.env.get("__counts__", ()):
            self.env[st.target.elts[0].id] = ("LE", "register")
        elif isinstance(it, ast.Name) and it.id in self.env.get("__counts__", ()) and isinstance(st.target, ast.Name):
            self.env[st.target.id] = ("LE", "register")
        elif isinstance(it, ast.Call) and isinstance(it.func, ast.Attribute) and it.func.attr == "items" and isinstance(it.func.value, ast.Call) and \
                isinstance(it.func.value.func, ast.Name) and it.func.value.func.id == "marginal_counts" and isinstance(st.target, ast.Tuple) and isinstance(st.target.elts[0], ast.Name):
            # qiskit.result.marginal_counts(counts, indices): keys keep one character per selected clbit,
            # little-endian over the SORTED indices (the order of `indices` is ignored)
            mc = it.func.value
            idx = mc.args[1] if len(mc.args) > 1 else next((k.value for k in mc.keywords if k.arg == "indices"), None)
            src = mc.args[0] if mc.args else None
            if isinstance(src, ast.Name) and src.id in self.env.get("__counts__", ()):
                if idx is None or (isinstance(idx, ast.Constant) and idx.value is None):
                    self.env[st.target.elts[0].id] = ("LE", "register")
                else:
                    base = idx
                    while isinstance(base, ast.Call) and isinstance(base.func, ast.Name) and base.func.id in ("list", "tuple", "sorted") and base.args:
                        base = base.args[0]
                    if isinstance(base, ast.Name) and base.id in self.list_params:
                        self.env[st.target.elts[0].id] = ("LE", ("sorted", base.id))


# =============================================================================================
class QualEval:
    """Interprocedural qualifier evaluation of the counts parser under an assumption about the qubit-list parameter
    (None = all qubits measured / given = subset).  Follows calls into repo helpers (depth <= 4); records every
    construction of an outcome record (a repo class whose constructor has a `bitstring` parameter) as a sink."""

    def __init__(self, prog, counts_names, list_param, assume_none):
        self.prog = prog
        self.counts = set(counts_names)
        self.lp = list_param
        self.assume_none = assume_none
        self.sinks = []        # (func, call node, qualifier)
        self.problems = []     # (func, node, message)

    # -- helpers --------------------------------------------------------------------------
    def _is_none_test(self, test, lists):
        if isinstance(test, ast.Compare) and len(test.ops) == 1 and isinstance(test.left, ast.Name) and test.left.id in lists and \
                isinstance(test.comparators[0], ast.Constant) and test.comparators[0].value is None:
            if isinstance(test.ops[0], ast.Is):
                return True
            if isinstance(test.ops[0], ast.IsNot):
                return False
        return None

    def resolve(self, f, call):
        fn = call.func
        if isinstance(fn, ast.Name):
            r = self.prog.lookup_global(f.module, fn.id)
            if r and r[0] == "func":
                return r[1], None
            if r and r[0] == "class":
                return r[1], "class"
        if isinstance(fn, ast.Attribute) and isinstance(fn.value, ast.Name) and f.cls is not None and f.params and fn.value.id in (f.params[0], f.cls.name):
            m = self.prog.find_method(f.cls, fn.attr)
            if m:
                return m, "method"
        return None, None

    # -- evaluation -----------------------------------------------------------------------
    def run_function(self, f, env, lists, depth=0):
        """returns the qualifier of the returned value (None if unknown / several)"""
        rets = []
        self._block(f, f.node.body, dict(env), set(lists), rets, depth)
        qs = {repr(q) for q in rets}
        return rets[0] if len(qs) == 1 and rets else None

    def _block(self, f, stmts, env, lists, rets, depth):
        for st in stmts:
            if isinstance(st, ast.If):
                t = self._is_none_test(st.test, lists)
                if t is not None:
                    take_body = (t == self.assume_none)
                    self._block(f, st.body if take_body else st.orelse, env, lists, rets, depth)
                    continue
                e1, e2 = dict(env), dict(env)
                self._block(f, st.body, e1, lists, rets, depth)
                self._block(f, st.orelse, e2, lists, rets, depth)
                for k in set(e1) | set(e2):
                    env[k] = e1.get(k) if repr(e1.get(k)) == repr(e2.get(k)) else None
            elif isinstance(st, ast.For):
                self._bind(f, st.target, st.iter, env, lists, depth)
                self._block(f, st.body, env, lists, rets, depth)
            elif isinstance(st, (ast.Assign, ast.AnnAssign)) and getattr(st, "value", None) is not None:
                tgs = st.targets if isinstance(st, ast.Assign) else [st.target]
                q = self.q(f, st.value, env, lists, depth)
                for t in tgs:
                    if isinstance(t, ast.Name):
                        env[t.id] = q
            elif isinstance(st, ast.Return):
                rets.append(self.q(f, st.value, env, lists, depth) if st.value is not None else None)
            elif isinstance(st, ast.Expr) and isinstance(st.value, ast.Call) and isinstance(st.value.func, ast.Attribute) and \
                    st.value.func.attr == "reverse" and isinstance(st.value.func.value, ast.Name):
                nm = st.value.func.value.id
                env[nm] = toggle(env.get(nm))
            elif isinstance(st, (ast.Expr,)):
                self.q(f, st.value, env, lists, depth)
            elif isinstance(st, (ast.While, ast.With, ast.Try)):
                for blk in (getattr(st, "body", []), getattr(st, "orelse", []), getattr(st, "finalbody", [])):
                    self._block(f, blk, env, lists, rets, depth)

    def _bind(self, f, target, it, env, lists, depth):
        """for key, value in counts.items() / marginal_counts(counts, idx).items() / for key in counts"""
        key_target = None
        if isinstance(target, ast.Tuple) and target.elts and isinstance(target.elts[0], ast.Name):
            key_target = target.elts[0].id
        elif isinstance(target, ast.Name):
            key_target = target.id
        if key_target is None:
            return
        if isinstance(it, ast.Call) and isinstance(it.func, ast.Attribute) and it.func.attr == "items":
            src = it.func.value
            if isinstance(src, ast.Name) and src.id in self.counts and isinstance(target, ast.Tuple):
                env[key_target] = ("LE", "register")
                return
            if isinstance(src, ast.Call) and isinstance(src.func, ast.Name) and src.func.id == "marginal_counts" and isinstance(target, ast.Tuple):
                idx = src.args[1] if len(src.args) > 1 else next((k.value for k in src.keywords if k.arg == "indices"), None)
                c0 = src.args[0] if src.args else None
                if isinstance(c0, ast.Name) and c0.id in self.counts:
                    if idx is None or (isinstance(idx, ast.Constant) and idx.value is None):
                        env[key_target] = ("LE", "register")
                    else:
                        base = idx
                        while isinstance(base, ast.Call) and isinstance(base.func, ast.Name) and base.func.id in ("list", "tuple", "sorted") and base.args:
                            base = base.args[0]
                        if isinstance(base, ast.Name) and base.id in lists:
                            env[key_target] = ("LE", ("sorted", self.lp))
                return
        if isinstance(it, ast.Name) and it.id in self.counts and isinstance(target, ast.Name):
            env[key_target] = ("LE", "register")

    def q(self, f, e, env, lists, depth):
        if e is None:
            return None
        if isinstance(e, ast.Name):
            return env.get(e.id)
        if isinstance(e, (ast.ListComp, ast.GeneratorExp)) and len(e.generators) == 1:
            g = e.generators[0]
            sub = dict(env)
            self._bind(f, g.target, g.iter, sub, lists, depth)
            self.q(f, e.elt, sub, lists, depth)       # sinks inside the element expression
            return None
        if isinstance(e, ast.Subscript) and is_rev_slice(e.slice):
            return toggle(self.q(f, e.value, env, lists, depth))
        if isinstance(e, ast.Call):
            fn = e.func
            # string-preserving methods
            if isinstance(fn, ast.Attribute) and fn.attr in ("replace", "strip", "lstrip", "rstrip", "zfill", "rjust", "upper", "lower"):
                return self.q(f, fn.value, env, lists, depth)
            if isinstance(fn, ast.Attribute) and fn.attr == "join" and e.args:
                return self._join(f, e.args[0], e, env, lists, depth)
            if isinstance(fn, ast.Name) and fn.id == "int" and e.args:
                base2 = (len(e.args) > 1 and isinstance(e.args[1], ast.Constant) and e.args[1].value == 2) or \
                    any(k.arg == "base" and isinstance(k.value, ast.Constant) and k.value.value == 2 for k in e.keywords)
                s = self.q(f, e.args[0], env, lists, depth)
                if len(e.args) == 1 and not e.keywords:
                    return s            # int(x) of an integer keeps it
                if s is None or not base2:
                    return None
                if s[0] == "LE":
                    return ("ILE", s[1])
                if s[0] == "BE":
                    return ("IBE", s[1])
                if s[0] == "ORD":
                    return ("ILE" if s[2] == "rev" else "IBE", s[1], s[3])
                return None
            if isinstance(fn, ast.Name) and fn.id in ("Bitstring", "str", "list", "tuple") and e.args:
                return self.q(f, e.args[0], env, lists, depth)
            if isinstance(fn, ast.Attribute) and fn.attr in ("int64", "int32", "uint64") and e.args:
                return self.q(f, e.args[0], env, lists, depth)
            if isinstance(fn, ast.Name) and fn.id == "reversed" and e.args:
                return toggle(self.q(f, e.args[0], env, lists, depth))
            # repo callee: a sink (outcome record) or a helper to follow
            g, kind = self.resolve(f, e)
            if g is not None and kind == "class":
                init = self.prog.find_method(g, "__init__")
                if init is not None and "bitstring" in init.params:
                    arg = e.args[0] if e.args else next((k.value for k in e.keywords if k.arg == "bitstring"), None)
                    self.sinks.append((f, e, self.q(f, arg, env, lists, depth)))
                    return None
            if g is not None and kind in (None, "method") and depth < 4 and not isinstance(g, type(None)) and hasattr(g, "node"):
                params = g.params[1:] if kind == "method" and not g.is_static else g.params
                sub_env, sub_lists = {}, set()
                for i, a in enumerate(e.args):
                    if i < len(params):
                        if isinstance(a, ast.Name) and a.id in lists:
                            sub_lists.add(params[i])
                        sub_env[params[i]] = self.q(f, a, env, lists, depth)
                for k in e.keywords:
                    if k.arg in params:
                        if isinstance(k.value, ast.Name) and k.value.id in lists:
                            sub_lists.add(k.arg)
                        sub_env[k.arg] = self.q(f, k.value, env, lists, depth)
                # a list parameter not passed keeps its default (None): in the callee it is 'None' regardless of the assumption
                inner = QualEval(self.prog, [], next(iter(sub_lists), "\0none"), self.assume_none if sub_lists else True)
                inner.lp_outer = self.lp
                inner.sinks, inner.problems = self.sinks, self.problems
                inner._outer_lp_name = self.lp
                r = inner.run_function(g, sub_env, sub_lists, depth + 1)
                # qualifiers mention the callee's list-parameter name: translate back
                return _rename(r, next(iter(sub_lists), None), self.lp)
            for a in list(e.args) + [k.value for k in e.keywords]:
                self.q(f, a, env, lists, depth)
        return None

    def _join(self, f, gen, node, env, lists, depth):
        if not isinstance(gen, (ast.GeneratorExp, ast.ListComp)) or len(gen.generators) != 1:
            return None
        g = gen.generators[0]
        if not isinstance(g.target, ast.Name) or g.ifs:
            return None
        var, it = g.target.id, g.iter
        order = lst = None
        if isinstance(it, ast.Name) and it.id in lists:
            order, lst = "fwd", it.id
        elif isinstance(it, ast.Call) and isinstance(it.func, ast.Name) and it.func.id == "reversed" and it.args and isinstance(it.args[0], ast.Name) and it.args[0].id in lists:
            order, lst = "rev", it.args[0].id
        elif isinstance(it, ast.Subscript) and is_rev_slice(it.slice) and isinstance(it.value, ast.Name) and it.value.id in lists:
            order, lst = "rev", it.value.id
        elif isinstance(it, ast.Call) and isinstance(it.func, ast.Name) and it.func.id == "sorted" and it.args and isinstance(it.args[0], ast.Name) and it.args[0].id in lists:
            # the characters are taken in sorted order of the qubit numbers, not in the order of the list
            self.problems.append((f, node, f"the key characters are joined over `{ast.unparse(it)}`: the order of the caller's qubit list is lost (position j of the outcome no longer belongs to the j-th listed qubit)"))
            return ("ORD", it.args[0].id, "rev" if any(k.arg == "reverse" and isinstance(k.value, ast.Constant) and k.value.value for k in it.keywords) else "fwd", "ok")
        if order is None or not isinstance(gen.elt, ast.Subscript):
            return None
        s = self.q(f, gen.elt.value, env, lists, depth)
        form = index_form(gen.elt.slice, var)
        if s is None or form is None or s[0] not in ("LE", "BE"):
            return None
        sel = "ok" if (s[0], form) in (("BE", "direct"), ("LE", "fromright")) else "mirror"
        if sel == "mirror":
            self.problems.append((f, node, f"character selected for list element q is `{ast.unparse(gen.elt)}` on a {'little' if s[0] == 'LE' else 'big'}-endian key: that is the bit of register qubit N-1-q, not q"))
        return ("ORD", lst, order, sel)


def _rename(q, old, new):
    if q is None or old is None:
        return q
    return tuple(new if x == old else (("sorted", new) if x == ("sorted", old) else x) for x in q)
