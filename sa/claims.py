"""Claim table: what each check decides (MANIFEST level_claimed.text) - single source."""

TB = "Trusted base: Qiskit/numpy axioms Q1-Q5, N1 of DESIGN.md section 2.3 (compose/inverse/copy/InverseCancellation/gate-append/measure_all semantics); the ast module of the repository's own Python 3.12. No repository code, numpy or Qiskit is imported or executed by the check."

CLAIMS = {
 "C02": dict(ref="DESIGN.md 4/C02", technique="static analysis: table lint (edge membership of all two-qubit tokens) + circuit-term abstract interpretation of the API call closure + exact partial evaluation of the coupling-graph builders",
   text="Decides the property under the trusted base: every two-qubit token of all advertised table files lies on a documented edge (T4, exhaustive), the loader appends nothing but a token's own gate on exactly the written qubits, under every calling convention the API uses (K1), every circuit-returning API takes its two-qubit gates only from the table of the requested (n, connectivity) mapped through the caller's qubit list (P1-P3 over circuit terms; a two-qubit gate emitted by glue code or a table other than the requested one is judged violation / contained / undecidable=exit 2), and the coupling graphs built by the code equal the documented edge sets (G3).",
   note=TB),
 "C03": dict(ref="DESIGN.md 4/C03", technique="static analysis: circuit-term abstract interpretation (inverse parity), non-interference (no read of the sign field in the over-approximated call closure), literal lint of the cancellation list",
   text="Partial: decides that the readout is exactly the inverse of the sign-free preparation term (P4), that this term cannot depend on the generators' signs (NI1: zero reads of the sign field in an over-approximated call closure) and that the cancellation pass lists only self-inverse gates (P5). Does NOT decide that the sign-free preparation term prepares the state (value-level).",
   note=TB),
 "C04": dict(ref="DESIGN.md 4/C04", technique="static analysis: table lint (counted cost, scheduled depth of every line) + reader def-use + circuit-term conservation rule",
   text="Decides 'delivered cost/depth = reported cost/depth of the class id used' for every input: cost and depth columns of all stabilizer lines equal the counted/scheduled values (T5/T6, exhaustive), the reader takes them from the documented columns (K2), and composition, inversion, sign layer and H-cancellation add or remove no two-qubit gate (P6, T10). The clause 'LC-equivalent states get the same id' is C06 (not decided); sign-independence of the id is decided (NI1).",
   note=TB),
 "C05": dict(ref="DESIGN.md 4/C05", technique="static analysis: per-qubit abstract interpretation of every table circuit + cross-table monotonicity lint",
   text="Necessary conditions only: three sound non-optimality detectors over all advertised stabilizer tables (L1 two-qubit gate on a provably product operand, L2 cost monotone under coupling-graph inclusion, L3 product-state line free of two-qubit gates). A pass does not certify optimality (that needs shortest-path search in the LC quotient - another family). Known findings on the pinned tree are listed in known_findings.json.",
   note=TB + " Abstract domain per qubit: {Z,X,Y eigenstate of an unentangled qubit, TOP}."),
 "C07": dict(ref="DESIGN.md 4/C07", technique="static analysis: parameter-mutation summaries (alias analysis) + circuit-term rules",
   text="Partial: decides that the input circuit is never mutated (A4), that the output obeys the connectivity (C02 rules) and that the output's two-qubit cost is the class cost independent of the input's length (P6+T5: the caller's circuit is not a leaf of the result term). Does NOT decide 'prepares the same state' (value-level).",
   note=TB),
 "C08": dict(ref="DESIGN.md 4/C08", technique="static analysis: sibling agreement by exact partial evaluation of the gate predicate over an enumerated grid + dominance (must-pass-through) of the gate before every table access + flag propagation",
   text="Partial: decides the configuration clause (five sibling definitions of the supported set agree with the 20 advertised pairs; a gate call on the entry's own (qubit count, connectivity) precedes every table read (G2); no raise path of an entry point can be taken by a valid request for an advertised pair (G6)) and that the underconstrained-input check of the sign-reference synthesis is never relaxed on the API path (G4). Also decides a necessary condition of 'the validity check accepts exactly the commuting independent sets': its verdict does not depend on the signs (NI2). Does NOT decide 'raise or be correct' for arbitrary invalid Pauli sets (value-level).",
   note=TB),
 "C09": dict(ref="DESIGN.md 4/C09", technique="static analysis: table lint incl. exhaustive GF(2) arithmetic on the basis literals + def-use wiring of the info API + paired-event path rule",
   text="Partial: decides 2^n+1 lines x n strings, commuting/independent/partition of the Pauli group on the literals (T7, T9 exhaustive), header = (sum, max, max depth) of the lines (T8), info API wired to the right header fields and to 2^n+1 (W8), the two returned lists built pairwise from the same lines and returned unpermuted (W9). Does NOT decide 'i-th circuit diagonalises i-th basis' nor 'MUB cost <= readout cost' (value-level).",
   note=TB),
 "C10": dict(ref="DESIGN.md 4/C10", technique="static analysis: bit-order qualifier inference + def-use wiring rules + finite-domain evaluation of the estimator's sign/parity/normalisation fragments",
   text="Partial (necessary conditions): bit-order consistency count key -> bitstring -> Z mask -> Pauli (B1); k-th circuit fitted with k-th counts and its own readout (W2, W3); pull-back/sign conjugation directions (W4); one mask for Pauli and estimator (W5); sign, parity, accumulation and 2^-n tables (S1-S3). Does NOT decide that Pauli.evolve realises those conjugations, hence not exactness for all rho.",
   note=TB),
 "C11": dict(ref="DESIGN.md 4/C11", technique="static analysis: bit-order / index-role qualifier inference on the marginalisation and re-embedding code",
   text="Partial (core clause): marginalisation selects exactly the listed qubits in the listed order and bit significance (B2), readout composed onto the listed qubits in order (P3, W1), the fitter marginalises onto exactly the stored list (W11), outcome histograms add up marginal outcomes that coincide (H1), re-embedding writes factor j at register position q_j (B3). Values of expectations as C10.",
   note=TB),
 "C12": dict(ref="DESIGN.md 4/C12", technique="static analysis: loop-domain evaluation, typestate on the key variable, plus the C10 wiring rules",
   text="Partial: 2^n entries (mask loop domain + identity entry, W6), keys unsigned (typestate W7), same wiring/direction/sign/parity/bit-order rules as C10, readout is the inverted sign-free circuit (P4). Sign correctness inside Pauli.evolve is trusted.",
   note=TB),
 "C13": dict(ref="DESIGN.md 4/C13", technique="static analysis: shared-object inventory + allocation-site freshness/escape analysis + parameter-mutation summaries + nondeterminism-source reachability",
   text="Decides the aliasing/history clauses: no shared (cache-, module-, class-, default-argument-reachable) mutable container or circuit escapes uncopied or is mutated in place (A1, A3, A5), cache keys complete (A2; cache lookups by try/except KeyError, `in` and `.get` are modelled as a miss/hit fork), memoised functions hand out immutable or copied results (A1), module state is not re-bound from parameters (A1, else exit 2), protected parameters never mutated (A4), no nondeterminism source reachable incl. iteration over sets of non-integers (A7). Behaviour of Qiskit objects themselves is trusted.",
   note=TB),
 "C14": dict(ref="DESIGN.md 4/C14", technique="static analysis: finite-domain evaluation of the Pauli codec tables, structural mirror rule, may-be-empty analysis of the graph-state circuit",
   text="Partial (thin): Pauli-character encode/decode tables mutually inverse (K4), reversed export is a pure character-order mirror (B4), graph constructor = (I, Gamma, 0) (K5), graph-state circuit well-defined for every graph incl. edgeless (E2). Does NOT decide string/matrix/circuit parsing values or Qiskit tableau conventions.",
   note=TB),
 "C16": dict(ref="DESIGN.md 4/C16", technique="static analysis: exact partial evaluation of the validity filter (16 patterns) and of the six gate branches, enumeration-domain rule, may-be-empty analysis",
   text="Partial: validity filter == invertibility on all 16 coefficient patterns (K6), six gate branches == their symplectic matrices (K7), whole kernel span enumerated (K9), 'no layer' path well-typed (E1). Does NOT decide that the linearised system encodes the graph-state condition.",
   note=TB),
 "C17": dict(ref="DESIGN.md 4/C17", technique="static analysis: independent grammar + counting/scheduling lint over every table line",
   text="Partial: one line per class id, four fields, documented vocabulary, arity, indices < n, cost column = counted cost (SWAP = 3), depth column = scheduled two-qubit depth - for all stabilizer files incl. stray ones, exhaustively. Does NOT decide circuit <-> graph state <-> class membership (value-level; covered for shipped files by the passing table tests).",
   note=TB),
 "C18": dict(ref="DESIGN.md 4/C18", technique="static analysis: may-be-empty + dtype analysis at the kernel routine's return, parameter-mutation summaries",
   text="Partial (one clause): the empty kernel is returned with declared integer dtype and 2-D shape on every path (E1); none of the four routines mutates its argument (A4). Does NOT decide correctness of the elimination (value-level).",
   note=TB),
 "C19": dict(ref="DESIGN.md 4/C19", technique="static analysis: loop-nest recognition + exact partial evaluation (no import, whitelisted AST evaluator) of the codecs on unit graphs and of local complementation on every graph of the enumerated finite domain",
   text="Partial (codec clause): compress/decompress enumerate the same affine (i,j)->bit bijection, equal to the documented layout (K10); edge store/test primitives symmetric (K11); local complementation (both forms) complements exactly the edges among the neighbours, is an involution and keeps the graph simple, by exact evaluation of the method's syntax tree for EVERY graph on 2..5 vertices (quick) / 2..6 vertices = the property's whole domain (thorough) (K12). Does NOT decide 'the state stays in the same class' nor grouping index arithmetic.",
   note=TB),
}

NOT_APPLICABLE = {
 "C01": "value-level: equality of a prepared quantum state with the joint +1 eigenstate for ~5M groups x signs x generator sets runs through the classifier, a GF(2) search and Qiskit's sign propagation; no sound static argument in reach bounds those values. The only shape clause (sign repair applied on every path) is indistinguishable in the term domain (Star(x) = zero or more X gates) and already exercised by passing tests; shared sub-mechanisms are decided under C03/C04/C16.",
 "C06": "value-level: 'same id <=> same local-Clifford orbit' over all pairs of up to 4.9M groups is a statement about values computed by hand-written invariant logic; deciding it needs the orbit partition (enumeration family). Structural fragments (start indices vs class counts) are checked as side condition K3 of C17 and say nothing about invariance.",
 "C15": "value-level: the three predicates are one-expression GF(2) computations on runtime matrices; their correctness is arithmetic, not code shape. No clause can be named that a static rule decides and the tests do not already pin.",
}

NOTES = ("Technique family: static analysis only. Every check reads /repo's working tree (src/htstabilizer/*.py via ast, data/*.txt via an independent grammar), never imports or runs repository code, and reports file/function/statement or table coordinates. "
         "exit 2 + 'ANALYSIS-ERROR' = construct outside an engine's vocabulary or vanished anchor (never a silent pass). known_findings.json lists genuine defects recorded rather than repaired (C05 table entries) and 'fixed:' entries for repaired ones.")
