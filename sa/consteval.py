"""Exact partial evaluator for closed, side-effect-free fragments over tiny finite domains.

A whitelisted AST evaluator (ints, bools, strings, None, lists, tuples, dicts, small integer
matrices, instances of repo classes, a gate *recorder* standing for a circuit).  Nothing from
the repository is imported: the functions are evaluated from their syntax trees.  The domain of
every fragment is enumerated completely by the calling rule; any construct outside the
whitelist raises Unsupported (-> exit 2), never a silent pass.
"""
from __future__ import annotations
import ast
import re
import itertools
import operator
from .report import AnalysisError
from . import pyfacts


class Unsupported(AnalysisError):
    pass


class CERaise(Exception):
    """the evaluated fragment raised"""

    def __init__(self, etype, msg=""):
        self.etype, self.msg = etype, msg
        self.where = None

    def __str__(self):
        return f"{self.etype}: {self.msg}"


class _Ret(Exception):
    def __init__(self, v):
        self.v = v


class _Brk(Exception):
    pass


class _Cont(Exception):
    pass


class Mat:
    """small integer matrix (list of rows) or vector (ndim 1) with the numpy idioms the repo uses"""

    def __init__(self, data, ndim=None):
        self.d = data
        self.ndim = ndim if ndim is not None else (2 if data and isinstance(data[0], list) else 1)

    @staticmethod
    def zeros(shape):
        if isinstance(shape, int):
            return Mat([0] * shape, 1)
        if len(shape) == 1:
            return Mat([0] * shape[0], 1)
        m = Mat([[0] * shape[1] for _ in range(shape[0])], 2)
        m.ncols = shape[1]          # remembered for matrices without rows
        return m

    @property
    def shape(self):
        if self.ndim == 1:
            return (len(self.d),)
        return (len(self.d), len(self.d[0]) if self.d else getattr(self, "ncols", 0))

    def copy(self):
        return Mat([list(r) for r in self.d], 2) if self.ndim == 2 else Mat(list(self.d), 1)

    def _rows(self, i):
        n = len(self.d)
        if isinstance(i, slice):
            return list(range(*i.indices(n)))
        if i < -n or i >= n:
            raise CERaise("IndexError", f"index {i} out of bounds for axis of size {n}")
        return [i % n]

    @staticmethod
    def _fancy(ix):
        """list of ints for a list / 1-D Mat index, else None"""
        if isinstance(ix, Mat) and ix.ndim == 1:
            return list(ix.d)
        if isinstance(ix, list) and all(isinstance(x, int) for x in ix):
            return list(ix)
        return None

    def get(self, idx):
        if isinstance(idx, tuple) and idx and idx[0] == "ix":
            return Mat([[self.d[r][c] for c in idx[2]] for r in idx[1]], 2)
        if self.ndim == 2 and isinstance(idx, tuple) and len(idx) == 2 and Mat._fancy(idx[0]) is not None and Mat._fancy(idx[1]) is not None:
            return Mat([self.d[r][c] for r, c in zip(Mat._fancy(idx[0]), Mat._fancy(idx[1]))], 1)
        if self.ndim == 1:
            if isinstance(idx, slice):
                return Mat(self.d[idx], 1)
            if isinstance(idx, list):
                if idx and all(isinstance(x, bool) for x in idx):
                    m_ = Mat([int(x) for x in idx], 1)
                    m_.is_bool = True
                    idx = m_
                elif all(isinstance(x, int) and not isinstance(x, bool) for x in idx):
                    idx = Mat(list(idx), 1)
                else:
                    raise Unsupported("vector index list of mixed type")
            if isinstance(idx, Mat) and idx.ndim == 1:
                if getattr(idx, "is_bool", False):
                    if len(idx.d) != len(self.d):
                        raise CERaise("IndexError", "boolean index did not match")
                    return Mat([x for x, b in zip(self.d, idx.d) if b], 1)
                return Mat([self.d[i] for i in idx.d], 1)
            if not isinstance(idx, int):
                raise Unsupported(f"vector index of type {type(idx).__name__}")
            if idx < -len(self.d) or idx >= len(self.d):
                raise CERaise("IndexError", "vector index")
            return self.d[idx]
        if isinstance(idx, tuple) and len(idx) == 2 and any(isinstance(x, (Mat, list)) for x in idx):
            # one axis selected by a boolean mask / an index list, the other by a slice or an integer
            nrows, ncols = self.shape

            def sel(x, size):
                if isinstance(x, slice):
                    return list(range(*x.indices(size))), True
                if isinstance(x, list):
                    if x and all(isinstance(v, bool) for v in x):
                        mm_ = Mat([int(v) for v in x], 1)
                        mm_.is_bool = True
                        x = mm_
                    elif all(isinstance(v, int) and not isinstance(v, bool) for v in x):
                        x = Mat(list(x), 1)
                    else:
                        raise Unsupported("index list of mixed type")
                if isinstance(x, Mat) and x.ndim == 1:
                    if getattr(x, "is_bool", False):
                        if len(x.d) != size:
                            raise CERaise("IndexError", f"boolean index did not match indexed array along axis; size of axis is {size} but size of corresponding boolean axis is {len(x.d)}")
                        return [k for k, b in enumerate(x.d) if b], True
                    if any(k < -size or k >= size for k in x.d):
                        raise CERaise("IndexError", "index out of bounds")
                    return [k % size for k in x.d], True
                if isinstance(x, int) and not isinstance(x, bool):
                    if x < -size or x >= size:
                        raise CERaise("IndexError", "index out of bounds")
                    return [x % size], False
                raise Unsupported(f"matrix index of type {type(x).__name__}")
            (rs, rkeep), (cs, ckeep) = sel(idx[0], nrows), sel(idx[1], ncols)
            if rkeep and ckeep:
                out = Mat([[self.d[r][c] for c in cs] for r in rs], 2)
                out.ncols = len(cs)
                return out
            if rkeep:
                return Mat([self.d[r][cs[0]] for r in rs], 1)
            return Mat([self.d[rs[0]][c] for c in cs], 1)
        if isinstance(idx, tuple):
            i, j = idx
            rs = self._rows(i)
            ncols = len(self.d[0]) if self.d else 0
            cs = list(range(*j.indices(ncols))) if isinstance(j, slice) else None
            if cs is None and (j < -ncols or j >= ncols):
                raise CERaise("IndexError", "column index")
            if not isinstance(i, slice) and cs is None:
                return self.d[rs[0]][j]
            if not isinstance(i, slice):
                return Mat([self.d[rs[0]][c] for c in cs], 1)
            if cs is None:
                return Mat([self.d[r][j] for r in rs], 1)
            return Mat([[self.d[r][c] for c in cs] for r in rs], 2)
        if isinstance(idx, slice):
            return Mat([list(r) for r in self.d[idx]], 2)
        rs = self._rows(idx)
        return RowView(self, rs[0])

    def set(self, idx, v):
        if isinstance(idx, tuple) and idx and idx[0] == "ix":
            for a, r in enumerate(idx[1]):
                for b, c in enumerate(idx[2]):
                    self.d[r][c] = _scalar(v.d[a][b] if isinstance(v, Mat) else v)
            return
        if self.ndim == 2 and isinstance(idx, tuple) and len(idx) == 2 and Mat._fancy(idx[0]) is not None and Mat._fancy(idx[1]) is not None:
            for k, (r, c) in enumerate(zip(Mat._fancy(idx[0]), Mat._fancy(idx[1]))):
                self.d[r][c] = _scalar(v.d[k] if isinstance(v, Mat) else v)
            return
        if self.ndim == 1:
            n = len(self.d)
            if isinstance(idx, slice):
                pos = list(range(*idx.indices(n)))
            elif isinstance(idx, Mat) and getattr(idx, "is_bool", False):
                if len(idx.d) != n:
                    raise CERaise("IndexError", "boolean index did not match")
                pos = [k for k, b in enumerate(idx.d) if b]
            elif Mat._fancy(idx) is not None and not (isinstance(idx, list) and any(isinstance(x, bool) for x in idx)):
                pos = Mat._fancy(idx)
                if any(k < -n or k >= n for k in pos):
                    raise CERaise("IndexError", "index out of bounds for vector store")
            elif isinstance(idx, int) and not isinstance(idx, bool):
                if idx < -n or idx >= n:
                    raise CERaise("IndexError", "vector index")
                self.d[idx] = _scalar(v)
                return
            else:
                raise Unsupported(f"vector store with an index of type {type(idx).__name__}")
            if isinstance(v, RowView):
                v = Mat(list(v.row()), 1)
            if isinstance(v, (list, tuple)):
                v = Mat(list(v), 1)
            if isinstance(v, Mat):
                if v.ndim != 1 or len(v.d) != len(pos):
                    raise CERaise("ValueError", "shape mismatch in vector store")
                for k, x in zip(pos, v.d):
                    self.d[k] = _scalar(x)
            else:
                for k in pos:
                    self.d[k] = _scalar(v)
            return
        if isinstance(idx, tuple):
            i, j = idx
            rs = self._rows(i)
            ncols = len(self.d[0]) if self.d else 0
            cs = list(range(*j.indices(ncols))) if isinstance(j, slice) else [j % ncols if -ncols <= j < ncols else _oob()]
            vals = v
            for a, r in enumerate(rs):
                for b, c in enumerate(cs):
                    if isinstance(vals, Mat):
                        if vals.ndim == 1:
                            x = vals.d[b if len(cs) > 1 else a]
                        else:
                            x = vals.d[a][b]
                    else:
                        x = vals
                    self.d[r][c] = _scalar(x)
            return
        rs = self._rows(idx)
        for r in rs:
            row = v.d if isinstance(v, Mat) else (v.row() if isinstance(v, RowView) else [v] * len(self.d[r]))
            self.d[r] = [_scalar(x) for x in row]

    def fill(self, v):
        if self.ndim == 1:
            self.d[:] = [v] * len(self.d)
        else:
            for r in self.d:
                r[:] = [v] * len(r)

    def flat(self):
        return list(self.d) if self.ndim == 1 else [x for r in self.d for x in r]

    def map(self, fn):
        return Mat([fn(x) for x in self.d], 1) if self.ndim == 1 else Mat([[fn(x) for x in r] for r in self.d], 2)

    def zipmap(self, other, fn):
        if isinstance(other, RowView):
            other = Mat(other.row(), 1)
        if isinstance(other, Mat):
            if other.shape != self.shape:
                raise Unsupported(f"broadcast of shapes {self.shape} and {other.shape}")
            if self.ndim == 1:
                return Mat([fn(a, b) for a, b in zip(self.d, other.d)], 1)
            return Mat([[fn(a, b) for a, b in zip(r, s)] for r, s in zip(self.d, other.d)], 2)
        return self.map(lambda a: fn(a, other))

    def transpose(self):
        if self.ndim == 1:
            return self.copy()
        return Mat([list(c) for c in zip(*self.d)], 2) if self.d else Mat([], 2)

    def __eq__(self, other):
        return isinstance(other, Mat) and self.d == other.d

    def __repr__(self):
        return f"Mat({self.d})"


class RowView:
    """m[i] of a matrix: a view (writes go through)"""

    def __init__(self, m, i):
        self.m, self.i = m, i

    def row(self):
        return self.m.d[self.i]

    def get(self, j):
        if isinstance(j, slice):
            return Mat(self.row()[j], 1)
        return self.row()[j]

    def set(self, j, v):
        self.row()[j] = _scalar(v)


def _oob():
    raise CERaise("IndexError", "index out of bounds")


def _scalar(x):
    if isinstance(x, bool):
        return int(x)
    if isinstance(x, int):
        return x
    raise Unsupported(f"non-integer matrix entry {x!r}")


class Instance:
    def __init__(self, cls):
        self.cls = cls
        self.attrs = {}

    def __repr__(self):
        return f"<{self.cls.name} {self.attrs}>"


class Recorder:
    """stands for a QuantumCircuit: logs (method, args) of every gate call"""

    def __init__(self, width):
        self.width = width
        self.log = []

    def __repr__(self):
        return f"Recorder({self.log})"


class BoundRepo:
    def __init__(self, inst, func):
        self.inst, self.func = inst, func


class ExtName:
    def __init__(self, dotted):
        self.dotted = dotted

    def __eq__(self, other):
        return isinstance(other, ExtName) and other.dotted == self.dotted

    def __hash__(self):
        return hash(self.dotted)

    def __repr__(self):
        return f"Ext({self.dotted})"


BINOPS = {ast.Add: operator.add, ast.Sub: operator.sub, ast.Mult: operator.mul, ast.FloorDiv: operator.floordiv,
          ast.Mod: operator.mod, ast.Pow: operator.pow, ast.LShift: operator.lshift, ast.RShift: operator.rshift,
          ast.BitAnd: operator.and_, ast.BitOr: operator.or_, ast.BitXor: operator.xor, ast.Div: operator.truediv}
CMPOPS = {ast.Eq: operator.eq, ast.NotEq: operator.ne, ast.Lt: operator.lt, ast.LtE: operator.le, ast.Gt: operator.gt,
          ast.GtE: operator.ge, ast.Is: operator.is_, ast.IsNot: operator.is_not}
GATE_METHODS = {"h", "s", "sdg", "x", "y", "z", "cx", "cz", "swap", "id", "cy", "ccx", "t", "tdg", "sx"}


def _is_generator(fnode):
    r = getattr(fnode, "_sa_is_gen", None)
    if r is None:
        r = fnode._sa_is_gen = _is_generator_uncached(fnode)
    return r


def _is_generator_uncached(fnode):
    todo = list(fnode.body)
    while todo:
        n = todo.pop()
        if isinstance(n, (ast.Yield, ast.YieldFrom)):
            return True
        if isinstance(n, (ast.FunctionDef, ast.AsyncFunctionDef, ast.Lambda, ast.ClassDef)):
            continue
        todo.extend(ast.iter_child_nodes(n))
    return False


class CE:
    def __init__(self, prog: pyfacts.Program, max_steps=2_000_000):
        self.prog = prog
        self.steps = 0
        self.max_steps = max_steps
        self.module_cache = {}
        self.touched = set()        # rel paths of the modules whose code or globals the evaluation consulted

    # --- public -------------------------------------------------------------------------
    def call(self, fq, *args, **kwargs):
        return self.call_func(self.prog.func(fq), list(args), dict(kwargs))

    def outcome(self, fq, *args, **kwargs):
        """('return', value) | ('raise', etype)"""
        try:
            return ("return", self.call(fq, *args, **kwargs))
        except CERaise as r:
            return ("raise", r.etype)

    # --- functions ----------------------------------------------------------------------
    def call_func(self, f, args, kwargs, closure=None):
        stub = getattr(self, "stubs", {}).get(f.fq)
        if stub is not None:
            return stub(*args, **kwargs)
        self.touched.add(f.module.rel)
        a = f.node.args
        params = [x.arg for x in a.posonlyargs + a.args]
        defaults = [None] * (len(params) - len(a.defaults)) + list(a.defaults)
        env = dict(closure or {})
        if len(args) > len(params) and not a.vararg:
            raise CERaise("TypeError", f"{f.fq}() takes {len(params)} positional arguments but {len(args)} were given")
        for i, p in enumerate(params):
            if i < len(args):
                env[p] = args[i]
            elif p in kwargs:
                env[p] = kwargs.pop(p)
            elif defaults[i] is not None:
                env[p] = self.ev(defaults[i], {}, f)
            else:
                raise CERaise("TypeError", f"{f.fq}() missing required argument {p}")
        if a.vararg:
            env[a.vararg.arg] = tuple(args[len(params):])
        for ko, kd in zip(a.kwonlyargs, a.kw_defaults):
            if ko.arg in kwargs:
                env[ko.arg] = kwargs.pop(ko.arg)
            elif kd is not None:
                env[ko.arg] = self.ev(kd, {}, f)
        if kwargs:
            raise CERaise("TypeError", f"{f.fq}() got unexpected keyword {sorted(kwargs)}")
        if _is_generator(f.node):
            # a generator function is evaluated eagerly into the list of what it yields (pure code: same elements)
            env["__yields__"] = []
            try:
                self.block(f.node.body, env, f)
            except _Ret:
                pass
            return env["__yields__"]
        try:
            self.block(f.node.body, env, f)
        except _Ret as r:
            return r.v
        return None

    def block(self, stmts, env, f):
        for st in stmts:
            self.stmt(st, env, f)

    def tick(self, node, f):
        self.steps += 1
        if self.steps > self.max_steps:
            raise Unsupported(f"step budget exceeded in {f.fq}")

    def stmt(self, st, env, f):
        try:
            return self._stmt(st, env, f)
        except CERaise as ex:
            if getattr(ex, "where", None) is None and not isinstance(st, (ast.For, ast.While, ast.If, ast.With, ast.Try)):
                ex.where = f"{pyfacts.where(f, st)} [{pyfacts.norm_stmt(st)[:80]}]"      # innermost statement
            raise

    def _stmt(self, st, env, f):
        self.tick(st, f)
        t = type(st)
        if t is ast.Expr:
            if not isinstance(st.value, ast.Constant):
                self.ev(st.value, env, f)
        elif t is ast.Assign:
            v = self.ev(st.value, env, f)
            for tg in st.targets:
                self.assign(tg, v, env, f)
        elif t is ast.AnnAssign:
            if st.value is not None:
                self.assign(st.target, self.ev(st.value, env, f), env, f)
        elif t is ast.AugAssign:
            cur = self.ev(_load(st.target), env, f)
            rhs = self.ev(st.value, env, f)
            new = self.binop(st.op, cur, rhs)
            if isinstance(cur, Mat) and isinstance(new, Mat) and not isinstance(st.target, ast.Subscript) and new.shape == cur.shape:
                # numpy's augmented operators work IN PLACE: every alias of the array sees the change
                if cur.ndim == 1:
                    cur.d[:] = new.d
                else:
                    for r, nr in zip(cur.d, new.d):
                        r[:] = nr
                return
            self.assign(st.target, new, env, f)
        elif t is ast.If:
            self.block(st.body if self.truth(self.ev(st.test, env, f)) else st.orelse, env, f)
        elif t is ast.For:
            it = self.iterate(self.ev(st.iter, env, f))
            broke = False
            for x in it:
                self.assign(st.target, x, env, f)
                try:
                    self.block(st.body, env, f)
                except _Brk:
                    broke = True
                    break
                except _Cont:
                    continue
            if not broke:
                self.block(st.orelse, env, f)
        elif t is ast.While:
            while self.truth(self.ev(st.test, env, f)):
                self.tick(st, f)
                try:
                    self.block(st.body, env, f)
                except _Brk:
                    break
                except _Cont:
                    continue
        elif t is ast.Return:
            raise _Ret(self.ev(st.value, env, f) if st.value is not None else None)
        elif t is ast.Raise:
            if st.exc is None:
                raise CERaise("re-raise")
            e = st.exc
            name = ast.unparse(e.func) if isinstance(e, ast.Call) else ast.unparse(e)
            raise CERaise(name.split(".")[-1], "")
        elif t is ast.Assert:
            if not self.truth(self.ev(st.test, env, f)):
                raise CERaise("AssertionError", ast.unparse(st.msg) if st.msg else "")
        elif t is ast.Pass:
            pass
        elif t is ast.Break:
            raise _Brk()
        elif t is ast.Continue:
            raise _Cont()
        elif t is ast.Try:
            try:
                self.block(st.body, env, f)
            except CERaise as r:
                for h in st.handlers:
                    names = [ast.unparse(x).split(".")[-1] for x in (h.type.elts if isinstance(h.type, ast.Tuple) else [h.type])] if h.type is not None else None
                    if names is None or r.etype in names or "Exception" in names or "BaseException" in names:
                        self.block(h.body, env, f)
                        break
                else:
                    raise
            else:
                self.block(st.orelse, env, f)
            self.block(st.finalbody, env, f)
        elif t in (ast.Import, ast.ImportFrom):
            for a in st.names:
                env[a.asname or a.name.split(".")[0]] = ExtName((getattr(st, "module", None) or "") + "." + a.name if t is ast.ImportFrom else a.name)
        elif t is ast.Match:
            subject = self.ev(st.subject, env, f)
            for case in st.cases:
                b = self.match_pattern(case.pattern, subject, env, f)
                if b is not None and (case.guard is None or self.truth(self.ev(case.guard, dict(env, **b), f))):
                    env.update(b)
                    self.block(case.body, env, f)
                    break
        elif t is ast.FunctionDef:
            for g in f.module.all_funcs:
                if g.node is st:
                    env[st.name] = ("closure", g, env)
                    return
            raise Unsupported(f"nested def {st.name}")
        else:
            raise Unsupported(f"statement {t.__name__} at {pyfacts.where(f, st)}")

    def match_pattern(self, pat, v, env, f):
        """bindings dict if the pattern matches, else None (value / literal / wildcard / capture / or / sequence patterns)"""
        if isinstance(pat, ast.MatchValue):
            return {} if self.ev(pat.value, env, f) == v else None
        if isinstance(pat, ast.MatchSingleton):
            return {} if v is pat.value else None
        if isinstance(pat, ast.MatchAs):
            if pat.pattern is None:
                return {pat.name: v} if pat.name else {}
            b = self.match_pattern(pat.pattern, v, env, f)
            if b is None:
                return None
            if pat.name:
                b[pat.name] = v
            return b
        if isinstance(pat, ast.MatchOr):
            for p in pat.patterns:
                b = self.match_pattern(p, v, env, f)
                if b is not None:
                    return b
            return None
        if isinstance(pat, ast.MatchSequence):
            if not isinstance(v, (list, tuple)) or len(v) != len(pat.patterns) or any(isinstance(p, ast.MatchStar) for p in pat.patterns):
                return None
            out = {}
            for p, x in zip(pat.patterns, v):
                b = self.match_pattern(p, x, env, f)
                if b is None:
                    return None
                out.update(b)
            return out
        raise Unsupported(f"match pattern {type(pat).__name__}")

    def assign(self, tg, v, env, f):
        if isinstance(tg, ast.Name):
            env[tg.id] = v
        elif isinstance(tg, (ast.Tuple, ast.List)):
            vals = list(self.iterate(v))
            stars = [i for i, s_ in enumerate(tg.elts) if isinstance(s_, ast.Starred)]
            if len(stars) == 1:
                k = stars[0]
                after = len(tg.elts) - k - 1
                if len(vals) < len(tg.elts) - 1:
                    raise CERaise("ValueError", "not enough values to unpack")
                for s_, x in zip(tg.elts[:k], vals[:k]):
                    self.assign(s_, x, env, f)
                self.assign(tg.elts[k].value, list(vals[k:len(vals) - after]), env, f)
                for s_, x in zip(tg.elts[k + 1:], vals[len(vals) - after:] if after else []):
                    self.assign(s_, x, env, f)
                return
            if stars:
                raise Unsupported("several starred assignment targets")
            if len(vals) != len(tg.elts):
                raise CERaise("ValueError", "unpack")
            for s, x in zip(tg.elts, vals):
                self.assign(s, x, env, f)
        elif isinstance(tg, ast.Attribute):
            o = self.ev(tg.value, env, f)
            if isinstance(o, Instance):
                ps = self.prog.find_property(o.cls, tg.attr, setter=True)
                if ps is not None:
                    self.call_func(ps, [o, v], {})
                elif self.prog.find_property(o.cls, tg.attr) is not None and not any("cached_property" in d for d in self.prog.find_property(o.cls, tg.attr).decorators):
                    raise CERaise("AttributeError", f"property {tg.attr} has no setter")
                else:
                    o.attrs[tg.attr] = v
            else:
                raise Unsupported(f"attribute store on {type(o).__name__} at {pyfacts.where(f, tg)}")
        elif isinstance(tg, ast.Subscript):
            o = self.ev(tg.value, env, f)
            idx = self.index(tg.slice, env, f)
            if isinstance(o, (Mat, RowView)):
                o.set(idx, v)
            elif isinstance(o, (list, dict)):
                try:
                    o[idx] = v
                except (IndexError, KeyError, TypeError) as ex:
                    raise CERaise(type(ex).__name__, str(ex))
            else:
                raise Unsupported(f"subscript store on {type(o).__name__} at {pyfacts.where(f, tg)}")
        else:
            raise Unsupported(f"assignment target {type(tg).__name__}")

    def index(self, s, env, f):
        if isinstance(s, ast.Slice):
            return slice(*[self.ev(x, env, f) if x is not None else None for x in (s.lower, s.upper, s.step)])
        if isinstance(s, ast.Tuple):
            return tuple(self.index(x, env, f) for x in s.elts)
        return self.ev(s, env, f)

    def dunder(self, inst, name):
        """a special method defined by the repository class of an instance (or None)"""
        if isinstance(inst, Instance):
            m = self.prog.find_method(inst.cls, name)
            if m is not None:
                return m
        return None

    def truth(self, v):
        if isinstance(v, Mat):
            raise Unsupported("truth value of a matrix")
        if isinstance(v, Instance):
            for nm in ("__bool__", "__len__"):
                m = self.dunder(v, nm)
                if m is not None:
                    return bool(self.call_func(m, [v], {}))
            return True
        return bool(v)

    def iterate(self, v):
        if isinstance(v, Mat):
            if v.ndim == 1:
                return list(v.d)
            return [RowView(v, i) for i in range(len(v.d))]
        if isinstance(v, RowView):
            return list(v.row())
        if isinstance(v, Instance):
            it = self.dunder(v, "__iter__")
            if it is not None:
                return list(self.iterate(self.call_func(it, [v], {})))
            gi, ln = self.dunder(v, "__getitem__"), self.dunder(v, "__len__")
            if gi is not None and ln is not None:
                return [self.call_func(gi, [v, i], {}) for i in range(self.call_func(ln, [v], {}))]
            if "_fields" in v.attrs and any(b.split(".")[-1] == "NamedTuple" for b in v.cls.bases):
                return [v.attrs[nm] for nm in v.attrs["_fields"]]       # a NamedTuple is its fields, in order
            raise Unsupported(f"iteration over an instance of {v.cls.name}")
        if isinstance(v, (list, tuple, range, str, dict, set, frozenset)) or hasattr(v, "__next__"):
            return v
        if type(v).__name__ in ("dict_items", "dict_keys", "dict_values"):
            return list(v)
        if isinstance(v, (itertools.product, enumerate, zip, reversed, map, filter)):
            return v
        raise Unsupported(f"iteration over {type(v).__name__}")

    # --- expressions --------------------------------------------------------------------
    def ev(self, e, env, f):
        try:
            return self._ev(e, env, f)
        except (TypeError, ValueError, AttributeError, IndexError, KeyError, ZeroDivisionError, RecursionError) as ex:
            # an idiom the emulation does not model shows up as an exception of the emulation itself: no verdict
            raise Unsupported(f"expression `{ast.unparse(e)[:80]}` at {pyfacts.where(f, e)}: not modelled by the evaluator ({type(ex).__name__}: {str(ex)[:80]})")

    def _ev(self, e, env, f):
        self.tick(e, f)
        t = type(e)
        if t is ast.Constant:
            return e.value
        if t is ast.Name:
            if e.id in env:
                return env[e.id]
            return self.global_name(e.id, f)
        if t is ast.NamedExpr:
            v = self.ev(e.value, env, f)
            env[e.target.id] = v
            return v
        if t is ast.Tuple:
            return tuple(self.ev(x, env, f) for x in e.elts)
        if t is ast.List:
            out = []
            for x in e.elts:
                if isinstance(x, ast.Starred):
                    out.extend(self.iterate(self.ev(x.value, env, f)))
                else:
                    out.append(self.ev(x, env, f))
            return out
        if t is ast.Dict:
            return {self.ev(k, env, f): self.ev(v, env, f) for k, v in zip(e.keys, e.values)}
        if t is ast.Set:
            return {self.ev(x, env, f) for x in e.elts}
        if t is ast.BinOp:
            return self.binop(e.op, self.ev(e.left, env, f), self.ev(e.right, env, f))
        if t is ast.UnaryOp:
            v = self.ev(e.operand, env, f)
            if isinstance(e.op, ast.Not):
                return not self.truth(v)
            if isinstance(e.op, ast.USub):
                return -v
            if isinstance(e.op, ast.UAdd):
                return +v
            if isinstance(e.op, ast.Invert):
                return ~v
        if t is ast.BoolOp:
            if isinstance(e.op, ast.And):
                v = True
                for x in e.values:
                    v = self.ev(x, env, f)
                    if not self.truth(v):
                        return v
                return v
            v = False
            for x in e.values:
                v = self.ev(x, env, f)
                if self.truth(v):
                    return v
            return v
        if t is ast.Compare:
            left = self.ev(e.left, env, f)
            for op, rn in zip(e.ops, e.comparators):
                right = self.ev(rn, env, f)
                r = self.cmp(op, left, right)
                if isinstance(r, Mat):
                    if len(e.ops) != 1:
                        raise Unsupported("chained elementwise comparison")
                    return r
                if not r:
                    return False
                left = right
            return True
        if t is ast.IfExp:
            return self.ev(e.body if self.truth(self.ev(e.test, env, f)) else e.orelse, env, f)
        if t is ast.JoinedStr:
            out = ""
            for v in e.values:
                if isinstance(v, ast.Constant):
                    out += v.value
                else:
                    x = self.ev(v.value, env, f)
                    spec_ = self.ev(v.format_spec, env, f) if v.format_spec is not None else ""
                    if v.conversion == 114:
                        x = repr(x)
                    try:
                        out += format(x, spec_)
                    except Exception as ex:
                        raise CERaise(type(ex).__name__, str(ex))
            return out
        if t is ast.Subscript:
            o = self.ev(e.value, env, f)
            idx = self.index(e.slice, env, f)
            if isinstance(o, (Mat, RowView)):
                return o.get(idx)
            if isinstance(o, Instance) and self.dunder(o, "__getitem__") is not None:
                return self.call_func(self.dunder(o, "__getitem__"), [o, idx], {})
            if isinstance(o, ExtName):
                if o.dotted.split(".")[-1] == "Literal":
                    return ("literal", tuple(idx) if isinstance(idx, tuple) else (idx,))
                return o
            try:
                return o[idx]
            except (IndexError, KeyError, TypeError) as ex:
                raise CERaise(type(ex).__name__, str(ex))
        if t is ast.Attribute:
            return self.getattr(self.ev(e.value, env, f), e.attr, e, f)
        if t is ast.Call:
            return self.call_expr(e, env, f)
        if t in (ast.ListComp, ast.GeneratorExp, ast.SetComp):
            out = []
            self.comp(e.generators, 0, dict(env), f, lambda en: out.append(self.ev(e.elt, en, f)))
            return set(out) if t is ast.SetComp else out
        if t is ast.DictComp:
            out = {}
            self.comp(e.generators, 0, dict(env), f, lambda en: out.__setitem__(self.ev(e.key, en, f), self.ev(e.value, en, f)))
            return out
        if t is ast.Lambda:
            return ("lambda", e, dict(env), f)
        if t is ast.Yield and "__yields__" in env:
            env["__yields__"].append(self.ev(e.value, env, f) if e.value is not None else None)
            return None
        if t is ast.YieldFrom and "__yields__" in env:
            env["__yields__"].extend(self.iterate(self.ev(e.value, env, f)))
            return None
        if t is ast.Starred:
            return self.ev(e.value, env, f)
        raise Unsupported(f"expression {t.__name__} at {pyfacts.where(f, e)}")

    def comp(self, gens, i, env, f, emit):
        if i == len(gens):
            emit(env)
            return
        g = gens[i]
        for x in self.iterate(self.ev(g.iter, env, f)):
            self.assign(g.target, x, env, f)
            if all(self.truth(self.ev(c, env, f)) for c in g.ifs):
                self.comp(gens, i + 1, env, f, emit)

    def binop(self, op, a, b):
        fn = BINOPS.get(type(op))
        if fn is None:
            if isinstance(op, ast.MatMult):
                return self.matmul(a, b)
            raise Unsupported(f"operator {type(op).__name__}")
        if isinstance(a, RowView):
            a = Mat(list(a.row()), 1)
        if isinstance(b, RowView):
            b = Mat(list(b.row()), 1)
        if isinstance(a, Mat):
            return a.zipmap(b, fn)
        if isinstance(b, Mat):
            return b.map(lambda x: fn(a, x))
        try:
            return fn(a, b)
        except (TypeError, ZeroDivisionError, ValueError) as ex:
            raise CERaise(type(ex).__name__, str(ex))

    def matmul(self, a, b):
        if isinstance(a, Mat) and isinstance(b, Mat) and a.ndim == 2 and b.ndim == 2:
            if a.shape[1] != b.shape[0]:
                raise CERaise("ValueError", f"matmul: shapes {a.shape} and {b.shape} do not match")
            ncols = b.shape[1]
            r_ = Mat([[sum(row[k] * b.d[k][j] for k in range(len(b.d))) for j in range(ncols)] for row in a.d], 2)
            r_.ncols = ncols
            return r_
        if isinstance(a, Mat) and isinstance(b, Mat) and a.ndim == 2 and b.ndim == 1:
            return Mat([sum(x * y for x, y in zip(r, b.d)) for r in a.d], 1)
        if isinstance(a, Mat) and isinstance(b, Mat) and a.ndim == 1 and b.ndim == 2:
            if len(a.d) != len(b.d):
                raise CERaise("ValueError", "matmul: shapes do not match")
            return Mat([sum(x * row[j] for x, row in zip(a.d, b.d)) for j in range(b.shape[1])], 1)
        if isinstance(a, Mat) and isinstance(b, Mat) and a.ndim == 1 and b.ndim == 1:
            if len(a.d) != len(b.d):
                raise CERaise("ValueError", "matmul: shapes do not match")
            return sum(x * y for x, y in zip(a.d, b.d))
        raise Unsupported("matmul operands")

    def cmp(self, op, a, b):
        if isinstance(op, (ast.In, ast.NotIn)) and isinstance(b, Instance):
            cm = self.dunder(b, "__contains__")
            r = self.truth(self.call_func(cm, [b, a], {})) if cm is not None else any(self.cmp(ast.Eq(), x, a) for x in self.iterate(b))
            return r if isinstance(op, ast.In) else not r
        if isinstance(op, ast.In):
            return a in b
        if isinstance(op, ast.NotIn):
            return a not in b
        if isinstance(a, RowView):
            a = Mat(list(a.row()), 1)
        if isinstance(a, Mat) and isinstance(b, list):
            b = Mat(b)
        if isinstance(b, RowView):
            b = Mat(list(b.row()), 1)
        if isinstance(op, (ast.Is, ast.IsNot)) and (isinstance(a, Mat) or isinstance(b, Mat)):
            return (a is b) == isinstance(op, ast.Is)        # identity of the array objects
        if isinstance(a, Mat) or isinstance(b, Mat):
            fn = CMPOPS.get(type(op))
            if fn is None:
                raise Unsupported("matrix comparison")
            # elementwise, as numpy does: the result is a boolean array
            r = a.zipmap(b, lambda x, y: int(fn(x, y))) if isinstance(a, Mat) else b.map(lambda y: int(fn(a, y)))
            r.is_bool = True
            return r
        if isinstance(op, (ast.Eq, ast.NotEq)) and isinstance(a, Instance) and self.dunder(a, "__eq__") is not None:
            r = self.truth(self.call_func(self.dunder(a, "__eq__"), [a, b], {}))
            return r if isinstance(op, ast.Eq) else not r
        if isinstance(op, (ast.Is, ast.IsNot)) and isinstance(a, ExtName) and isinstance(b, ExtName):
            return (a == b) == isinstance(op, ast.Is)
        fn = CMPOPS.get(type(op))
        try:
            return fn(a, b)
        except TypeError as ex:
            raise CERaise("TypeError", str(ex))

    def global_name(self, name, f):
        self.touched.add(f.module.rel)
        r = self.prog.lookup_global(f.module, name)
        if r is not None and r[0] == "var":
            self.touched.add(r[1].rel)
        if r is None:
            raise Unsupported(f"unresolved name {name} in {f.fq}")
        if r[0] == "func":
            return r[1]
        if r[0] == "class":
            return r[1]
        if r[0] == "module":
            return r[1] if r[1] is not None else ExtName(name)
        if r[0] == "external":
            return ExtName(r[1])
        if r[0] == "builtin":
            return ExtName("builtins." + r[1])
        if r[0] == "var":
            mod, nm = r[1], r[2]
            key = (mod.name, nm)
            if key not in self.module_cache:
                mf = pyfacts.Func.__new__(pyfacts.Func)
                mf.module, mf.qualname, mf.name, mf.node, mf.cls = mod, "<module>", "<module>", mod.tree, None
                self.module_cache[key] = self.ev(mod.assigns[nm][-1], {}, mf)
            return self.module_cache[key]
        raise Unsupported(f"global kind {r[0]}")

    def getattr(self, o, attr, e, f):
        if isinstance(o, Instance):
            pg = self.prog.find_property(o.cls, attr)
            if pg is not None and attr not in o.attrs:
                val = self.call_func(pg, [o], {})
                if any("cached_property" in d for d in pg.decorators):
                    o.attrs[attr] = val
                return val
            if attr in o.attrs:
                return o.attrs[attr]
            m = self.prog.find_method(o.cls, attr)
            if m is not None:
                return BoundRepo(o, m)
            if attr in o.cls.class_assigns:
                mf = pyfacts.Func.__new__(pyfacts.Func)
                mf.module, mf.qualname, mf.name, mf.node, mf.cls = o.cls.module, "<class>", "<class>", o.cls.node, None
                # the class body's own names (methods defined before the table, other class-level values) are in scope
                cenv = dict(o.cls.methods)
                return self.ev(o.cls.class_assigns[attr], cenv, mf)
            if self.prog.find_method(o.cls, "__init__") is None and "_fields" not in o.attrs:
                raise Unsupported(f"attribute {attr} of an instance of {o.cls.name} whose fields are not modelled")
            raise CERaise("AttributeError", attr)
        if isinstance(o, pyfacts.Class):
            m = self.prog.find_method(o, attr)
            if m is not None:
                return m if m.is_static else BoundRepo(o, m)
            if attr == "_fields" and any(b.split(".")[-1] == "NamedTuple" for b in o.bases):
                return tuple(st.target.id for st in o.node.body if isinstance(st, ast.AnnAssign) and isinstance(st.target, ast.Name))
            if attr in o.class_assigns:
                mf = pyfacts.Func.__new__(pyfacts.Func)
                mf.module, mf.qualname, mf.name, mf.node, mf.cls = o.module, "<class>", "<class>", o.node, None
                return self.ev(o.class_assigns[attr], dict(o.methods), mf)
            raise Unsupported(f"class attribute {o.name}.{attr}")
        if isinstance(o, pyfacts.Module):
            r = self.prog.lookup_global(o, attr)
            if r and r[0] in ("func", "class"):
                return r[1]
            if r and r[0] in ("var", "module", "external", "builtin"):
                # a module-level value of another repository module (`from . import _common; _common.TABLE`): evaluated there
                mf = pyfacts.Func.__new__(pyfacts.Func)
                mf.module, mf.qualname, mf.name, mf.node, mf.cls = o, "<module>", "<module>", o.tree, None
                return self.global_name(attr, mf)
            raise Unsupported(f"module attribute {o.name}.{attr}")
        if isinstance(o, ExtName):
            return ExtName(o.dotted + "." + attr)
        if isinstance(o, Mat):
            if attr == "shape":
                return o.shape
            if attr == "T":
                return o.transpose()
            if attr in ("fill", "copy", "sum", "any", "all", "transpose", "astype", "reshape", "tolist", "setflags", "nonzero", "flatten", "ravel", "tobytes", "view", "item"):
                return ("matmethod", o, attr)
            if attr == "dtype":
                return ExtName("numpy.int8")
        if isinstance(o, RowView):
            return self.getattr(Mat(list(o.row()), 1), attr, e, f)
        if isinstance(o, Recorder):
            if attr == "num_qubits":
                return o.width
            if attr not in GATE_METHODS and attr not in ("copy", "compose", "inverse", "measure_all", "barrier", "append", "remove_final_measurements", "to_gate", "to_instruction"):
                # data attributes / introspection of a circuit (`.data`, `.count_ops`, `.depth` ...) are not modelled: a
                # deferred method marker must never be taken for a value
                raise Unsupported(f"circuit attribute .{attr} at {pyfacts.where(f, e)}")
            return ("recmethod", o, attr)
        if isinstance(o, tuple) and o and o[0] == "respath":
            return ("respath-method", o, attr)
        if o == ("logger",):
            return ("loggermethod", attr)
        if isinstance(o, (re.Pattern, re.Match)):
            if isinstance(o, re.Match) and attr in ("string", "pos", "endpos", "lastindex", "lastgroup"):
                return getattr(o, attr)
            if isinstance(o, re.Pattern) and attr in ("pattern", "groups", "flags"):
                return getattr(o, attr)
            return ("pymethod", o, attr)
        if isinstance(o, tuple) and o and isinstance(o[0], str) and o[0] in ("pymethod", "recmethod", "matmethod", "respath-method", "loggermethod", "lambda", "closure", "literal"):
            raise Unsupported(f"attribute {attr} of an unevaluated method / function marker at {pyfacts.where(f, e)}")
        if isinstance(o, (str, list, dict, tuple, int, set)):
            return ("pymethod", o, attr)
        raise Unsupported(f"attribute {attr} of {type(o).__name__} at {pyfacts.where(f, e)}")

    def call_expr(self, e, env, f):
        fn = self.ev(e.func, env, f)
        args = []
        for a in e.args:
            if isinstance(a, ast.Starred):
                args.extend(self.iterate(self.ev(a.value, env, f)))
            else:
                args.append(self.ev(a, env, f))
        kwargs = {k.arg: self.ev(k.value, env, f) for k in e.keywords if k.arg is not None}
        return self.apply(fn, args, kwargs, e, f)

    def apply(self, fn, args, kwargs, e, f):
        if isinstance(fn, pyfacts.Func):
            return self.call_func(fn, args, kwargs)
        if isinstance(fn, BoundRepo):
            if isinstance(fn.inst, pyfacts.Class):
                return self.call_func(fn.func, ([fn.inst] if fn.func.is_classmethod else []) + args, kwargs)
            if fn.func.is_static:
                return self.call_func(fn.func, args, kwargs)
            if fn.func.is_classmethod:
                return self.call_func(fn.func, [fn.inst.cls] + args, kwargs)
            return self.call_func(fn.func, [fn.inst] + args, kwargs)
        if isinstance(fn, pyfacts.Class):
            self.touched.add(fn.module.rel)
            inst = Instance(fn)
            init = self.prog.find_method(fn, "__init__")
            if init is not None:
                self.call_func(init, [inst] + args, kwargs)
                return inst
            names = [st.target.id for st in fn.node.body if isinstance(st, ast.AnnAssign) and isinstance(st.target, ast.Name)]
            tuple_like = any(b.split(".")[-1] == "NamedTuple" for b in fn.bases) or any("dataclass" in ast.unparse(d) for d in fn.node.decorator_list)
            if names and tuple_like:
                if len(args) > len(names):
                    raise CERaise("TypeError", f"{fn.name}() takes {len(names)} fields")
                for i, nm in enumerate(names):
                    if i < len(args):
                        inst.attrs[nm] = args[i]
                    elif nm in kwargs:
                        inst.attrs[nm] = kwargs[nm]
                    elif nm in fn.class_assigns:
                        mf = pyfacts.Func.__new__(pyfacts.Func)
                        mf.module, mf.qualname, mf.name, mf.node, mf.cls = fn.module, "<class>", "<class>", fn.node, None
                        inst.attrs[nm] = self.ev(fn.class_assigns[nm], {}, mf)
                    else:
                        raise CERaise("TypeError", f"{fn.name}() missing field {nm}")
                inst.attrs["_fields"] = tuple(names)
                return inst
            if args or kwargs:
                raise Unsupported(f"instantiation of {fn.name} without a modelled constructor")
            return inst
        if isinstance(fn, tuple) and fn and fn[0] == "closure":
            return self.call_func(fn[1], args, kwargs, closure=fn[2])
        if isinstance(fn, tuple) and fn and fn[0] == "lambda":
            _, node, cenv, cf = fn
            en = dict(cenv)
            for p, a in zip([x.arg for x in node.args.args], args):
                en[p] = a
            return self.ev(node.body, en, cf)
        if isinstance(fn, tuple) and fn and fn[0] == "loggermethod":
            # logging never changes a result: handlers are outside the evaluated fragment
            if fn[1] in ("debug", "info", "warning", "error", "exception", "critical", "log", "setLevel", "addHandler"):
                return None
            if fn[1] == "isEnabledFor":
                return False
            if fn[1] == "getChild":
                return ("logger",)
            raise Unsupported(f"logger method {fn[1]}")
        if isinstance(fn, tuple) and fn and fn[0] == "matmethod":
            return self.mat_method(fn[1], fn[2], args, kwargs)
        if isinstance(fn, tuple) and fn and fn[0] == "recmethod":
            rec, name = fn[1], fn[2]
            if name in GATE_METHODS:
                need = 2 if name in ("cx", "cz", "swap", "cy") else (3 if name == "ccx" else 1)
                if len(args) != need:
                    raise CERaise("TypeError", f"{name}() takes {need} qubit argument(s), {len(args)} given")
                flat = []
                for a in args:
                    flat.append(list(a) if isinstance(a, (range, list, tuple)) else a)
                rec.log.append((name,) + tuple(tuple(x) if isinstance(x, list) else x for x in flat))
                return None
            if name == "copy" and not args:
                r2 = Recorder(rec.width)
                r2.log = list(rec.log)
                return r2
            raise Unsupported(f"circuit method {name} in evaluated fragment at {pyfacts.where(f, e)}")
        if isinstance(fn, tuple) and fn and fn[0] == "respath-method":
            _, rp, name = fn
            if name in ("joinpath", "__truediv__"):
                return ("respath", rp[1] + "/" + str(args[0]))
            if name in ("is_file", "exists"):
                return self.prog.tree.exists(rp[1])
            if name == "read_text":
                if not self.prog.tree.exists(rp[1]):
                    raise CERaise("FileNotFoundError", rp[1])
                return self.prog.tree.read(rp[1])
            raise Unsupported(f"resource path method {name}")
        if isinstance(fn, tuple) and fn and fn[0] == "pymethod":
            o, name = fn[1], fn[2]
            allowed = {str: {"__getitem__", "__contains__", "split", "replace", "startswith", "endswith", "lstrip", "rstrip", "strip", "join", "format", "count", "index", "find", "lower", "upper", "zfill", "encode", "isdigit", "isalpha", "partition", "rpartition", "splitlines", "removeprefix", "removesuffix", "translate"},
                       list: {"append", "extend", "copy", "index", "count", "reverse", "pop", "insert", "sort", "__getitem__", "__len__", "__contains__"},
                       dict: {"get", "items", "keys", "values", "copy", "update", "setdefault", "__getitem__", "__contains__"},
                       tuple: {"index", "count", "__getitem__", "__len__", "__contains__"}, int: {"bit_count", "bit_length", "to_bytes"}, set: {"add", "union"},
                       re.Pattern: {"match", "fullmatch", "search", "findall", "finditer", "split", "sub"},
                       re.Match: {"group", "groups", "groupdict", "start", "end", "span"}}
            if isinstance(o, re.Pattern) and not all(isinstance(a, (str, int)) for a in list(args) + list(kwargs.values())):
                raise Unsupported(f"regular expression method {name} on non-string arguments")
            if isinstance(o, int) and not isinstance(o, bool) and name == "item" and not args:
                return o
            # callables of the evaluated program handed to a built-in method (sort(key=...))
            def _pyc(v):
                if isinstance(v, (pyfacts.Func, BoundRepo)) or (isinstance(v, tuple) and v and v[0] in ("lambda", "closure")):
                    return lambda *a: self.apply(v, list(a), {}, e, f)
                return v
            if name in ("sort",):
                kwargs = {k: (_pyc(v) if k == "key" else v) for k, v in kwargs.items()}
            for ty, names in allowed.items():
                if isinstance(o, ty) and name in names:
                    try:
                        return getattr(o, name)(*args, **kwargs)
                    except (ValueError, IndexError, KeyError, TypeError) as ex:
                        raise CERaise(type(ex).__name__, str(ex))
            raise Unsupported(f"method {type(o).__name__}.{name}")
        if isinstance(fn, ExtName):
            return self.call_ext(fn.dotted, args, kwargs, e, f)
        raise Unsupported(f"call of {fn!r} at {pyfacts.where(f, e)}")

    def mat_method(self, m, name, args, kwargs):
        if name == "fill":
            m.fill(args[0])
            return None
        if name == "copy":
            return m.copy()
        if name == "sum":
            return sum(m.flat())
        if name == "any":
            return any(m.flat())
        if name == "all":
            return all(m.flat())
        if name == "transpose":
            return m.transpose()
        if name == "astype":
            return m.copy()
        if name == "tolist":
            return [list(r) for r in m.d] if m.ndim == 2 else list(m.d)
        if name == "setflags":
            if kwargs.get("write", args[0] if args else None) is False:
                m.readonly = True
            return None
        if name == "nonzero":
            if m.ndim == 1:
                return (Mat([i for i, x in enumerate(m.d) if x], 1),)
            return (Mat([i for i, r in enumerate(m.d) for x in r if x], 1), Mat([j for r in m.d for j, x in enumerate(r) if x], 1))
        if name in ("flatten", "ravel"):
            return Mat(m.flat(), 1)
        if name == "item" and not args:
            fl = m.flat()
            if len(fl) != 1:
                raise CERaise("ValueError", "can only convert an array of size 1 to a Python scalar")
            return fl[0]
        if name == "view":
            r = m.copy()
            want = args[0] if args else kwargs.get("dtype")
            if want is bool or (isinstance(want, ExtName) and want.dotted.split(".")[-1] in ("bool", "bool_")):
                if not all(x in (0, 1) for x in m.flat()):
                    raise Unsupported("view(bool) of values other than 0/1")
                r.is_bool = True
                return r
            raise Unsupported(f"view as {want!r}")
        if name == "tobytes":
            if kwargs.get("order", args[0] if args else "C") not in ("C", None):
                raise Unsupported("tobytes with a non-C order")
            if not getattr(m, "is_u8", False) and not all(-128 <= x <= 127 for x in m.flat()):
                raise Unsupported("tobytes of values outside int8")
            return bytes(x & 0xFF for x in m.flat())
        if name == "reshape":
            shape = args[0] if len(args) == 1 and isinstance(args[0], (tuple, list)) else tuple(args)
            shape = tuple(shape)
            flat = m.flat()
            if not all(isinstance(x, int) and not isinstance(x, bool) for x in shape):
                raise Unsupported(f"reshape to {shape!r}")
            if shape.count(-1) == 1:
                rest = 1
                for x in shape:
                    if x != -1:
                        rest *= x
                if rest == 0 or len(flat) % rest:
                    raise CERaise("ValueError", f"cannot reshape array of size {len(flat)} into shape {shape}")
                shape = tuple(len(flat) // rest if x == -1 else x for x in shape)
            total = 1
            for x in shape:
                total *= x
            if total != len(flat) or any(x < 0 for x in shape):
                raise CERaise("ValueError", f"cannot reshape array of size {len(flat)} into shape {shape}")
            if len(shape) == 1:
                return Mat(flat, 1)
            if len(shape) != 2:
                raise Unsupported(f"reshape to {len(shape)} dimensions")
            r, c = shape
            return Mat([flat[i * c:(i + 1) * c] for i in range(r)], 2)
        raise Unsupported(f"matrix method {name}")

    def call_ext(self, dotted, args, kwargs, e, f):
        name = dotted.split(".")[-1]
        xs = getattr(self, "ext_stubs", None)
        if xs and name in xs:
            return xs[name](*args, **kwargs)      # a rule's stand-in for a library constructor (e.g. Pauli -> its argument)
        if dotted == "builtins.int.from_bytes":
            if not (args and isinstance(args[0], (bytes, bytearray))):
                raise Unsupported("int.from_bytes of a non-bytes value")
            try:
                return int.from_bytes(args[0], *args[1:], **kwargs)
            except (TypeError, ValueError) as ex:
                raise CERaise(type(ex).__name__, str(ex))
        if dotted.startswith("builtins."):
            safe = {"range": range, "len": len, "list": list, "tuple": tuple, "int": int, "bool": bool, "str": str, "abs": abs,
                    "min": min, "max": max, "sum": sum, "any": any, "all": all, "enumerate": enumerate, "zip": zip,
                    "reversed": reversed, "sorted": sorted, "dict": dict, "set": set, "map": map, "filter": filter,
                    "print": lambda *a, **k: None, "next": next, "iter": iter, "format": format, "bin": bin, "divmod": divmod,
                    "ord": ord, "chr": chr, "round": round, "pow": pow, "frozenset": frozenset, "bytes": bytes, "float": float, "hex": hex, "repr": repr}
            if name == "isinstance":
                return self.isinstance(args[0], e.args[1], f)
            if name == "getattr" and len(args) in (2, 3) and isinstance(args[1], str):
                try:
                    return self.getattr(args[0], args[1], e, f)
                except CERaise:
                    if len(args) == 3:
                        return args[2]
                    raise
            if name == "setattr" and len(args) == 3 and isinstance(args[1], str) and isinstance(args[0], Instance):
                ps = self.prog.find_property(args[0].cls, args[1], setter=True)
                if ps is not None:
                    self.call_func(ps, [args[0], args[2]], {})
                else:
                    args[0].attrs[args[1]] = args[2]
                return None
            if name == "hasattr" and len(args) == 2 and isinstance(args[1], str) and isinstance(args[0], Instance):
                return args[1] in args[0].attrs or self.prog.find_method(args[0].cls, args[1]) is not None or self.prog.find_property(args[0].cls, args[1]) is not None
            if name == "type" and len(args) == 1:
                v = args[0]
                if isinstance(v, Instance):
                    return v.cls
                if isinstance(v, Mat):
                    return ExtName("numpy.ndarray")
                return ExtName("builtins." + type(v).__name__)
            if name == "len" and isinstance(args[0], Mat):
                return len(args[0].d)
            if name in ("list", "tuple", "sum", "any", "all", "sorted", "min", "max", "enumerate", "zip", "reversed", "set") and args and isinstance(args[0], (Mat, RowView)):
                args = [self.iterate(args[0])] + list(args[1:])
            if name in ("map", "filter") and args and not callable(args[0]):
                fn0 = args[0]
                args = [lambda *a: self.apply(fn0, list(a), {}, e, f)] + [self.iterate(x) for x in args[1:]]
            if name == "len" and len(args) == 1 and isinstance(args[0], Instance) and self.dunder(args[0], "__len__") is not None:
                return self.call_func(self.dunder(args[0], "__len__"), [args[0]], {})
            if name in ("list", "tuple", "sorted", "sum", "min", "max", "any", "all", "enumerate", "reversed", "set") and args and isinstance(args[0], Instance):
                args = [self.iterate(args[0])] + list(args[1:])
            if "key" in kwargs and (isinstance(kwargs["key"], (pyfacts.Func, BoundRepo)) or (isinstance(kwargs["key"], tuple) and kwargs["key"] and kwargs["key"][0] in ("lambda", "closure"))):
                kf = kwargs["key"]
                kwargs = dict(kwargs, key=lambda *a: self.apply(kf, list(a), {}, e, f))
            if name in safe:
                try:
                    return safe[name](*args, **kwargs)
                except (ValueError, TypeError, IndexError, StopIteration) as ex:
                    raise CERaise(type(ex).__name__, str(ex))
            raise Unsupported(f"builtin {name}")
        if dotted in ("itertools.product",):
            return list(itertools.product(*[list(self.iterate(a)) for a in args], **kwargs))
        if dotted in ("itertools.combinations",):
            return list(itertools.combinations(list(self.iterate(args[0])), args[1]))
        if dotted in ("itertools.permutations", "itertools.combinations_with_replacement"):
            return list(getattr(itertools, name)(list(self.iterate(args[0])), *args[1:]))
        if dotted == "itertools.chain":
            return [x for a in args for x in self.iterate(a)]
        if dotted == "itertools.chain.from_iterable":
            return [x for a in self.iterate(args[0]) for x in self.iterate(a)]
        if dotted == "itertools.groupby":
            # eager: (key, list of members) per run of equal keys, as the library groups them
            kf = kwargs.get("key", args[1] if len(args) > 1 else None)
            keyf = (lambda x: x) if kf is None else (lambda x: self.apply(kf, [x], {}, e, f))
            return [(k, list(g)) for k, g in itertools.groupby(list(self.iterate(args[0])), key=keyf)]
        if dotted == "itertools.accumulate" and len(args) == 1 and not kwargs:
            items = list(self.iterate(args[0]))
            if not all(isinstance(x, int) for x in items):
                raise Unsupported("itertools.accumulate on non-integers")
            return list(itertools.accumulate(items))
        if dotted == "itertools.zip_longest":
            return list(itertools.zip_longest(*[list(self.iterate(a)) for a in args], **kwargs))
        if dotted.startswith("numpy."):
            return self.call_numpy(name, args, kwargs, e, f)
        if dotted.startswith("math.") and name in ("isqrt", "sqrt", "floor", "ceil", "comb", "factorial", "log2", "gcd", "prod"):
            import math
            if not all(isinstance(a, (int, float)) and not isinstance(a, bool) or isinstance(a, (list, tuple)) for a in args):
                raise Unsupported(f"{dotted} on non-numeric arguments")
            try:
                return getattr(math, name)(*args, **kwargs)
            except (ValueError, TypeError, OverflowError) as ex:
                raise CERaise(type(ex).__name__, str(ex))
        if dotted.startswith("os.path.") and name in ("split", "join", "basename", "dirname", "splitext", "normpath") and all(isinstance(a, str) for a in args) and not kwargs:
            import posixpath
            return getattr(posixpath, name)(*args)
        if dotted.startswith("operator.") and name in ("index", "add", "sub", "mul", "xor", "and_", "or_", "eq", "ne", "lt", "le", "gt", "ge", "not_", "neg", "getitem", "contains", "floordiv", "mod", "lshift", "rshift", "truth"):
            import operator as _op
            if all(isinstance(a, (int, bool, str, list, tuple, dict)) for a in args) and not kwargs:
                try:
                    return getattr(_op, name)(*args)
                except (TypeError, ValueError, IndexError, KeyError, ZeroDivisionError) as ex:
                    raise CERaise(type(ex).__name__, str(ex))
            raise Unsupported(f"{dotted} on modelled objects")
        if dotted == "logging.getLogger":
            return ("logger",)
        if dotted in ("re.compile", "re.match", "re.fullmatch", "re.search", "re.findall", "re.finditer", "re.split", "re.sub", "re.escape"):
            # regular expressions over constant strings: pure, evaluated exactly
            if not all(isinstance(a, (str, int, re.Pattern, re.RegexFlag)) for a in list(args) + list(kwargs.values())):
                raise Unsupported(f"{dotted} on non-string arguments at {pyfacts.where(f, e)}")
            try:
                return getattr(re, name)(*args, **kwargs)
            except re.error as ex:
                raise CERaise("error", str(ex))
        if dotted.startswith("re.") and name in ("IGNORECASE", "I", "VERBOSE", "X", "ASCII", "A", "MULTILINE", "M", "DOTALL", "S"):
            return getattr(re, name)
        if name == "get_args" and args and isinstance(args[0], tuple) and args[0] and args[0][0] == "literal":
            return args[0][1]
        if dotted.endswith("resources.files") or dotted.endswith("resources.is_resource") or dotted.endswith("resources.read_text"):
            # package-data queries are answered from the source tree (data package = src/htstabilizer/data)
            pkg = args[0]
            base = "src/htstabilizer/" + pkg.name if isinstance(pkg, pyfacts.Module) else None
            if base is None and isinstance(pkg, ExtName):
                base = "src/htstabilizer/" + pkg.dotted.split(".")[-1]
            if base is None:
                raise Unsupported(f"resource query on {pkg!r}")
            if dotted.endswith("files"):
                return ("respath", base)
            rel = base + "/" + args[1]
            if dotted.endswith("is_resource"):
                return self.prog.tree.exists(rel)
            if not self.prog.tree.exists(rel):
                raise CERaise("FileNotFoundError", rel)
            return self.prog.tree.read(rel)
        if name == "QuantumCircuit":
            return Recorder(args[0] if args else None)
        if len(dotted.split(".")) >= 2 and dotted.split(".")[-2] == "QuantumCircuit" and args and isinstance(args[0], Recorder):
            return self.apply(("recmethod", args[0], name), list(args[1:]), kwargs, e, f)
        if dotted in ("copy.deepcopy", "copy.copy"):
            o = args[0]
            return o.copy() if isinstance(o, Mat) else (Mat(list(o.row()), 1) if isinstance(o, RowView) else __import__("copy").deepcopy(o))
        raise Unsupported(f"external call {dotted} at {pyfacts.where(f, e)}")

    def call_numpy(self, name, args, kwargs, e, f):
        if name not in ("fill_diagonal", "copyto", "put"):
            # reading functions see a row view as the vector it shows
            args = [Mat(list(a.row()), 1) if isinstance(a, RowView) else a for a in args]
        if name in ("zeros",):
            shape = kwargs.get("shape", args[0] if args else None)
            return Mat.zeros(tuple(shape) if isinstance(shape, (list, tuple)) else shape)
        if name in ("array", "asarray"):
            src = args[0]
            if isinstance(src, (int, bool)):
                return int(src)        # zero-dimensional: stands for the scalar (.item() gives it back)
            if isinstance(src, Mat):
                return src.copy()
            if isinstance(src, RowView):
                return Mat(list(src.row()), 1)
            src = list(src)
            if src and isinstance(src[0], (list, tuple, Mat, RowView)):
                return Mat([list(r.d if isinstance(r, Mat) else (r.row() if isinstance(r, RowView) else r)) for r in src], 2)
            return Mat([_scalar(x) for x in src], 1)
        if name in ("zeros_like", "ones_like") and isinstance(args[0], (Mat, RowView)):
            a = args[0] if isinstance(args[0], Mat) else Mat(list(args[0].row()), 1)
            return a.map(lambda _x: 0 if name == "zeros_like" else 1)
        if name == "ones":
            shape = kwargs.get("shape", args[0] if args else None)
            return Mat.zeros(tuple(shape) if isinstance(shape, (list, tuple)) else shape).map(lambda _x: 1)
        if name in ("eye", "identity"):
            n = args[0]
            return Mat([[1 if i == j else 0 for j in range(n)] for i in range(n)], 2)
        if name == "sum":
            a = args[0]
            return sum(a.flat()) if isinstance(a, Mat) else sum(self.iterate(a))
        if name in ("any", "all"):
            a = args[0]
            fn = any if name == "any" else all
            if isinstance(a, Mat):
                ax = kwargs.get("axis", args[1] if len(args) > 1 else None)
                if ax is None:
                    return fn(a.flat())
                if a.ndim == 2 and ax in (1, -1):
                    r = Mat([int(fn(row)) for row in a.d], 1)
                elif a.ndim == 2 and ax == 0:
                    r = Mat([int(fn(col)) for col in zip(*a.d)], 1)
                else:
                    raise Unsupported(f"numpy.{name} with axis={ax}")
                r.is_bool = True
                return r
            if isinstance(a, (list, tuple)):
                return fn(self.truth(x) for x in a)
            if isinstance(a, (int, bool)):
                return bool(a)
            raise Unsupported(f"numpy.{name} of {type(a).__name__}")
        if name == "array_equal":
            a, b = args
            return isinstance(a, Mat) and isinstance(b, Mat) and a.d == b.d
        if name in ("int8", "int64", "int32", "bool_"):
            return int(args[0])
        if name in ("flatnonzero",):
            a = args[0]
            vals = a.flat() if isinstance(a, Mat) else list(self.iterate(a))
            return Mat([i for i, x in enumerate(vals) if x], 1)
        if name == "ix_":
            return ("ix", [int(x) for x in self.iterate(args[0])], [int(x) for x in self.iterate(args[1])])
        if name == "count_nonzero":
            a = args[0]
            return sum(1 for x in (a.flat() if isinstance(a, Mat) else self.iterate(a)) if x)
        if name == "fill_diagonal":
            m, v = args[0], args[1]
            for i in range(min(m.shape)):
                m.d[i][i] = _scalar(v)
            return None
        if name == "outer":
            a, b = args
            av = a.flat() if isinstance(a, Mat) else list(self.iterate(a))
            bv = b.flat() if isinstance(b, Mat) else list(self.iterate(b))
            return Mat([[x * y for y in bv] for x in av], 2)
        if name == "arange":
            return Mat(list(range(*args)), 1)
        if name in ("sqrt", "floor", "ceil") and len(args) == 1 and isinstance(args[0], (int, float)) and not isinstance(args[0], bool):
            import math
            if name == "sqrt" and args[0] < 0:
                return float("nan")
            return {"sqrt": math.sqrt, "floor": lambda x: float(math.floor(x)), "ceil": lambda x: float(math.ceil(x))}[name](args[0])
        if name == "packbits" and isinstance(args[0], Mat) and args[0].ndim == 1 and kwargs.get("axis") is None:
            bits = [1 if x else 0 for x in args[0].d]
            order = kwargs.get("bitorder", "big")
            out = []
            for i in range(0, len(bits), 8):
                chunk = bits[i:i + 8] + [0] * (8 - len(bits[i:i + 8]))
                out.append(sum(b << (k if order == "little" else 7 - k) for k, b in enumerate(chunk)))
            r = Mat(out, 1)
            r.is_u8 = True
            return r
        if name == "unpackbits" and isinstance(args[0], Mat) and args[0].ndim == 1 and kwargs.get("axis") is None:
            order = kwargs.get("bitorder", "big")
            out = []
            for x in args[0].d:
                out += [(x >> (k if order == "little" else 7 - k)) & 1 for k in range(8)]
            cnt = kwargs.get("count")
            return Mat(out[:cnt] if cnt is not None else out, 1)
        if name == "frombuffer" and isinstance(args[0], (bytes, bytearray)):
            r = Mat(list(args[0]), 1)
            r.is_u8 = True
            return r
        if name in ("triu", "tril") and isinstance(args[0], Mat) and args[0].ndim == 2:
            k = kwargs.get("k", args[1] if len(args) > 1 else 0)
            keep = (lambda i, j: j - i >= k) if name == "triu" else (lambda i, j: j - i <= k)
            r = Mat([[x if keep(i, j) else 0 for j, x in enumerate(row)] for i, row in enumerate(args[0].d)], 2)
            if getattr(args[0], "is_bool", False):
                r.is_bool = True
            return r
        if name == "argwhere" and isinstance(args[0], Mat):
            a = args[0]
            if a.ndim == 1:
                return Mat([[i] for i, x in enumerate(a.d) if x], 2)
            return Mat([[i, j] for i, row in enumerate(a.d) for j, x in enumerate(row) if x], 2)
        if name == "diag" and isinstance(args[0], Mat):
            a = args[0]
            if a.ndim == 1:
                n = len(a.d)
                return Mat([[a.d[i] if i == j else 0 for j in range(n)] for i in range(n)], 2)
            return Mat([a.d[i][i] for i in range(min(a.shape))], 1)
        if name in ("triu_indices", "tril_indices"):
            n = args[0]
            k = kwargs.get("k", args[1] if len(args) > 1 else 0)
            m_ = kwargs.get("m", args[2] if len(args) > 2 else None) or n
            keep = (lambda i, j: j - i >= k) if name == "triu_indices" else (lambda i, j: j - i <= k)
            pairs = [(i, j) for i in range(n) for j in range(m_) if keep(i, j)]
            return (Mat([i for i, _ in pairs], 1), Mat([j for _, j in pairs], 1))
        if name == "nonzero":
            return self.mat_method(args[0], "nonzero", [], {})
        if name == "where" and len(args) == 1 and isinstance(args[0], Mat):
            return self.mat_method(args[0], "nonzero", [], {})
        raise Unsupported(f"numpy.{name} at {pyfacts.where(f, e)}")

    def isinstance(self, v, tnode, f):
        names = [ast.unparse(x) for x in tnode.elts] if isinstance(tnode, ast.Tuple) else [ast.unparse(tnode)]
        for n in names:
            base = n.split(".")[-1]
            if base == "int" and isinstance(v, int) and not isinstance(v, bool):
                return True
            if base == "bool" and isinstance(v, bool):
                return True
            if base == "str" and isinstance(v, str):
                return True
            if base in ("list",) and isinstance(v, list):
                return True
            if base in ("tuple",) and isinstance(v, tuple):
                return True
            if base == "ndarray" and isinstance(v, Mat):
                return True
            if isinstance(v, Instance) and v.cls.name == base:
                return True
            if base == "QuantumCircuit" and isinstance(v, Recorder):
                return True
        return False


def _load(t):
    c = getattr(t, "_sa_load", None)
    if c is not None:
        return c
    t2 = ast.parse(ast.unparse(t), mode="eval").body
    t._sa_load = t2
    for n in ast.walk(t2):
        n.lineno = getattr(t, "lineno", 0)
        n.col_offset = 0
    return t2
