"""Driver: ./check <ID> [--tier quick|thorough] [--root DIR]"""
from __future__ import annotations
import argparse
import importlib
import os
import sys

from .report import Report, guarded, AnalysisError, TimeBudgetExceeded
from .vfs import Tree

PROPS = ["C02", "C03", "C04", "C05", "C07", "C08", "C09", "C10", "C11", "C12", "C13", "C14", "C16", "C17", "C18", "C19"]


def run_property(pid: str, tier: str, root: str, overlay=None, quiet=False, write=True):
    """Run the rules of one property on a tree; returns (exit code, Report)."""
    mod = importlib.import_module(f"sa.props.{pid.lower()}")
    tree = Tree(root, overlay)
    rep = Report(pid, tier, root, quiet=quiet)
    try:
        mod.run(tree, rep, tier)
    except AnalysisError as e:
        # a construct already reported by one rule stands on its own: the later rule that could not be decided is
        # recorded next to it.  Without a finding the run has no verdict (exit 2).
        if not rep.new_findings():
            raise
        rep.note(f"UNDECIDED (analysis stopped after the finding(s) reported): {str(e)[:300]}")
    rep.analysed["files consulted"] = len(tree.consulted)
    rep.analysed["tree digest (consulted files)"] = tree.digest()
    return rep, tree


def main(argv=None):
    ap = argparse.ArgumentParser()
    ap.add_argument("prop")
    ap.add_argument("path", nargs="?")
    ap.add_argument("--tier", default=os.environ.get("VERIF_TIER", "quick"), choices=["quick", "thorough"])
    ap.add_argument("--root", default="/repo")
    a = ap.parse_args(argv)

    # wall-clock guard: a construct that sends an engine into a very long computation ends the run without a verdict
    import signal
    limit = int(os.environ.get("SA_TIME_LIMIT", "900" if a.tier == "quick" else "5400"))

    def _alarm(signum, frame):
        raise TimeBudgetExceeded(f"time budget of {limit} s exceeded: no verdict")
    if hasattr(signal, "SIGALRM") and a.prop not in ("selftest",):
        signal.signal(signal.SIGALRM, _alarm)
        signal.alarm(limit)

    def go():
        if a.prop == "selftest":
            from . import selftest
            return selftest.main(a.root)
        if a.prop == "replay":
            import json
            d = json.load(open(a.path))
            print(json.dumps(d, indent=1)[:3000])
            rep, _ = run_property(d["property"], "quick", a.root, quiet=True)
            hit = [f for f in rep.findings if f.rule == d["rule"] and f.key == d["key"]]
            if hit:
                print(f"REPRODUCED on {a.root}: rule {d['rule']} still reports {d['key']}: {hit[0].what}")
                print(f"VIOLATION property={d['property']} replay={a.path}")
                return 1
            print(f"not reproduced on {a.root}: rule {d['rule']} no longer reports {d['key']}")
            return 0
        if a.prop not in PROPS:
            raise AnalysisError(f"unknown property {a.prop}")
        rep, tree = run_property(a.prop, a.tier, a.root)
        if a.tier == "thorough" and not rep.new_findings():
            from . import selftest
            rep.selftest = selftest.run_for_property(a.prop, a.root)
        code = rep.finish()
        if rep.selftest and rep.selftest.get("missed"):
            for m in rep.selftest["missed"]:
                print(f"SELFTEST-MISS {m}")
            raise AnalysisError("the seeded-edit self-test of this property did not behave as recorded; the checker cannot vouch for itself on this tree")
        return code

    sys.exit(guarded(go))


if __name__ == "__main__":
    main()
