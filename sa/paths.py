"""Structured enumeration of the acyclic paths of a statement block (if/elif/else, try/except,
loops as zero-or-one iteration, return/raise/continue/break end a path)."""
from __future__ import annotations
import ast


class Path:
    def __init__(self, stmts=None, conds=None, end="fallthrough"):
        self.stmts = list(stmts or [])
        self.conds = list(conds or [])
        self.end = end

    def describe(self):
        c = "; ".join(("" if t else "not ") + ast.unparse(e)[:50] for e, t in self.conds) or "unconditional"
        return f"{c} -> {self.end}"


def enumerate_paths(stmts, limit=512):
    paths = [Path()]
    for st in stmts:
        new = []
        for p in paths:
            if p.end != "fallthrough":
                new.append(p)
                continue
            if isinstance(st, ast.If):
                for branch, truth in ((st.body, True), (st.orelse, False)):
                    for sub in enumerate_paths(branch, limit):
                        new.append(Path(p.stmts + [ast.Expr(value=st.test)] + sub.stmts, p.conds + [(st.test, truth)] + sub.conds, sub.end))
            elif isinstance(st, (ast.For, ast.While)):
                new.append(Path(p.stmts + [st], p.conds, "fallthrough"))
            elif isinstance(st, ast.Try):
                for sub in enumerate_paths(st.body + st.orelse, limit):
                    new.append(Path(p.stmts + sub.stmts, p.conds + sub.conds, sub.end))
                for h in st.handlers:
                    for sub in enumerate_paths(h.body, limit):
                        new.append(Path(p.stmts + sub.stmts, p.conds + sub.conds, sub.end))
            elif isinstance(st, ast.Return):
                new.append(Path(p.stmts + [st], p.conds, "return"))
            elif isinstance(st, ast.Raise):
                new.append(Path(p.stmts + [st], p.conds, "raise"))
            elif isinstance(st, ast.Continue):
                new.append(Path(p.stmts, p.conds, "continue"))
            elif isinstance(st, ast.Break):
                new.append(Path(p.stmts, p.conds, "break"))
            else:
                new.append(Path(p.stmts + [st], p.conds, "fallthrough"))
        paths = new
        if len(paths) > limit:
            from .report import AnalysisError
            raise AnalysisError("path explosion in structured enumeration")
    return paths
