"""C02 - two-qubit gates only on coupled pairs."""
from ..rules_tables import Tables, grammar, T4_edges
from ..rules_flow import Flow, P_rules
from ..rules_gate import G3_graphs, K1_loader
from ..rules_conv import W16_positional_connectivity


def run(tree, rep, tier):
    T = Tables(tree)
    T.inventory(rep)
    files = T.adv_stab + T.adv_mub
    grammar(rep, T, files, rules=("T2",))
    T4_edges(rep, T, files)
    flow = Flow(tree)
    flow.describe(rep)
    K1_loader(rep, flow, T, tier, mode="pairs")
    G3_graphs(rep, flow)
    P_rules(rep, flow, which=("P1", "P2", "P3"))
    W16_positional_connectivity(rep, flow, tree)
    rep.trusted += ["Q1", "Q2", "Q3", "Q4"]
    rep.decided += ["every two-qubit token of every advertised table lies on a documented edge (T4) and every multi-qubit token is a two-qubit token (T2)",
                    "the loader appends two-qubit gates only on the pairs written in the two-qubit tokens (K1, pairs mode)",
                    "API results take two-qubit gates only from the table of the requested (n, connectivity) (P1), glue layers are single-qubit (P2), qubit lists are honoured (P3)",
                    "the coupling graphs built by the code equal the documented edge sets (G3)"]
    rep.not_decided += ["semantics of Qiskit's compose/inverse/InverseCancellation (trusted, Q1-Q4)"]
