"""C03 - readout diagonalises the whole group (inverse / sign-independence / cancellation clauses)."""
from ..rules_flow import Flow, P4_inverse, P5_cancel_list
from ..rules_ni import NI1_sign_independence
from ..rules_gate import K1_loader
from ..rules_tables import Tables
from ..rules_conv import B5_label_order


def run(tree, rep, tier):
    flow = Flow(tree)
    flow.describe(rep)
    P4_inverse(rep, flow)
    # the circuits the API inverts are the tables' circuits only if the loader reads every token as the gate it names
    K1_loader(rep, flow, Tables(tree), tier, mode="subset", api=("stabilizer_circuits.get_readout_circuit",))
    NI1_sign_independence(rep, flow)
    P5_cancel_list(rep, flow, ["stabilizer_circuits.get_readout_circuit", "stabilizer_circuits.get_preparation_circuit"])
    B5_label_order(rep, flow, ["stabilizer_circuits.get_readout_circuit"])
    rep.rules["B5"]["floor"] = 0      # today's readout path exports no string list at all; the rule watches for one
    rep.trusted += ["Q1", "Q2", "Q3"]
    rep.decided += ["readout = inverse, exactly once, of the sign-free preparation term (P4)",
                    "every gate the table loader appends on the stabilizer path is the gate a token names, on the written qubits, in token order (K1, subset mode: a loader that alters, invents or moves a gate does not deliver the table's circuit; leaving out gates that act trivially on |0..0> is tolerated)",
                    "the readout circuit cannot depend on the generators' signs (NI1, non-interference over an over-approximated closure)",
                    "the cancellation pass lists only self-inverse gates, a necessary condition of 'the pass preserves the unitary' (P5)",
                    "no Pauli-string export on the readout path reaches a consumer of the other label order (B5)"]
    rep.not_decided += ["that the sign-free preparation term prepares the state up to signs, i.e. that the readout really diagonalises the group (value-level)"]
