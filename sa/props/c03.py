"""C03 - readout diagonalises the whole group (inverse / sign-independence / cancellation clauses)."""
from ..rules_flow import Flow, P4_inverse, P5_cancel_list
from ..rules_ni import NI1_sign_independence


def run(tree, rep, tier):
    flow = Flow(tree)
    flow.describe(rep)
    P4_inverse(rep, flow)
    NI1_sign_independence(rep, flow)
    P5_cancel_list(rep, flow, ["stabilizer_circuits.get_readout_circuit", "stabilizer_circuits.get_preparation_circuit"])
    rep.trusted += ["Q1", "Q2", "Q3"]
    rep.decided += ["readout = inverse, exactly once, of the sign-free preparation term (P4)",
                    "the readout circuit cannot depend on the generators' signs (NI1, non-interference over an over-approximated closure)",
                    "the cancellation pass lists only self-inverse gates, a necessary condition of 'the pass preserves the unitary' (P5)"]
    rep.not_decided += ["that the sign-free preparation term prepares the state up to signs, i.e. that the readout really diagonalises the group (value-level)"]
