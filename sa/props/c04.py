"""C04 - cost and depth match metadata and depend only on the class."""
from ..rules_tables import Tables, grammar, T5_T6_cost_depth
from ..rules_flow import Flow, P6_conservation
from ..rules_gate import K1_loader, K2_reader
from ..rules_ni import NI1_sign_independence, class_id_roots

APIS = ["stabilizer_circuits.get_preparation_circuit", "stabilizer_circuits.get_readout_circuit", "stabilizer_circuits.compress_preparation_circuit"]


def run(tree, rep, tier):
    T = Tables(tree)
    T.inventory(rep)
    grammar(rep, T, T.stab, rules=("T2", "T3"))
    T5_T6_cost_depth(rep, T, T.stab)
    flow = Flow(tree)
    flow.describe(rep)
    K1_loader(rep, flow, T, tier, mode="cost")
    K2_reader(rep, flow, tables=T)
    P6_conservation(rep, flow, APIS, tables=T)
    NI1_sign_independence(rep, flow, roots=class_id_roots(flow), what="the class-id computation (classifier)")
    rep.trusted += ["Q1", "Q2", "Q3", "Q4"]
    rep.decided += ["cost/depth columns of every stabilizer line equal the counted/scheduled values (T5, T6)",
                    "metadata fields are read from the documented columns of the same line the circuit is parsed from (K2); the loader turns each two-qubit token into one two-qubit gate of the same native cost on the same pair (K1, cost mode)",
                    "composition, inversion, sign layer and H-cancellation add or remove no two-qubit gate (P6, T10)",
                    "the class id cannot depend on the generators' signs (NI1)"]
    rep.not_decided += ["'states differing by local Cliffords or generator choice get the same id' is C06 (value-level, not decided)"]
