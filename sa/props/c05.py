"""C05 - minimum number of two-qubit gates: three SOUND non-optimality detectors (necessary
conditions only).  Optimality itself needs shortest-path search in the LC quotient (another
technique family) and is not certified."""
from ..rules_tables import Tables, L_rules


def run(tree, rep, tier):
    T = Tables(tree)
    T.inventory(rep)
    L_rules(rep, T, T.adv_stab)
    if len(T.adv_stab) != 20:
        rep.note(f"{len(T.adv_stab)} advertised stabilizer tables present (20 expected; C08/G1 reports missing files)")
    rep.decided += ["no delivered table circuit contains a two-qubit gate on a provably product operand (L1)",
                    "table cost is monotone under coupling-graph inclusion (L2)",
                    "the product-state class is served without a two-qubit gate (L3)"]
    rep.not_decided += ["optimality proper: no competitor circuit with fewer two-qubit gates exists (needs breadth-first distances in the LC-class transition graph - explicit-state search, not static analysis)",
                        "that glue code adds no two-qubit gate is decided under C04 (P6), not repeated here"]
    rep.assumptions += ["abstract domain per qubit {Z,X,Y eigenstate of an unentangled qubit, TOP}; flagged gates are provably removable, unflagged gates may still be redundant"]
