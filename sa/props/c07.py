"""C07 - compression: input untouched, connectivity, class cost (structural clauses)."""
from ..rules_tables import Tables, T4_edges, T5_T6_cost_depth
from ..rules_flow import Flow, P_rules, P6_conservation
from ..rules_alias import A4_params
from ..rules_conv import W16_positional_connectivity, B5_label_order, A9_circuit_truthiness

FQ = "stabilizer_circuits.compress_preparation_circuit"


def run(tree, rep, tier):
    T = Tables(tree)
    T.inventory(rep)
    flow = Flow(tree)
    flow.describe(rep)
    A4_params(rep, flow, only=[FQ])
    P_rules(rep, flow, which=("P1", "P2"))
    T4_edges(rep, T, T.adv_stab)
    P6_conservation(rep, flow, [FQ], tables=T)
    T5_T6_cost_depth(rep, T, T.adv_stab)
    B5_label_order(rep, flow, [FQ])
    rep.rules["B5"]["floor"] = 0      # a sign repair that exports no string list has nothing to get wrong here (self-test m122 keeps the rule alive)
    A9_circuit_truthiness(rep, flow, [FQ])
    rep.rules["P1"]["floor"] = 3
    W16_positional_connectivity(rep, flow, tree)
    rep.trusted += ["Q1", "Q2", "Q3", "Q4"]
    rep.decided += ["the input circuit object is never mutated (A4)", "the output obeys the connectivity (P1, P2, T4)",
                    "the output's two-qubit cost is the class cost whatever the input's length: the caller's circuit is not a leaf of the result (P6) and the cost column is true (T5)",
                    "within the call closure, Pauli-string exports reach Qiskit-order consumers in Qiskit order and library-order consumers in library order (B5), and no truth-value test of the circuit parameter rejects the zero-gate circuit (A9)"]
    rep.not_decided += ["the compressed circuit prepares the same state up to global phase (value-level)"]
