"""C08 - invalid or unsupported requests are rejected (configuration clause + strictness flag)."""
from ..rules_tables import Tables
from ..rules_flow import Flow
from ..rules_gate import G1_siblings, G2_served, G4_strict, G6_no_extra_rejection
from ..rules_ni import NI2_validity_sign_free
from ..rules_k import K15_junk_characters


def run(tree, rep, tier):
    T = Tables(tree)
    T.inventory(rep)
    flow = Flow(tree)
    flow.describe(rep)
    G1_siblings(rep, flow, T, tier)
    G2_served(rep, flow, T)
    G4_strict(rep, flow, ["stabilizer_circuits.get_preparation_circuit", "stabilizer_circuits.compress_preparation_circuit"])
    G6_no_extra_rejection(rep, flow)
    NI2_validity_sign_free(rep, flow)
    K15_junk_characters(rep, flow)
    rep.decided += ["the sibling definitions of 'supported configuration' agree with the 20 advertised pairs (G1)",
                    "every public entry point serves at most the advertised pairs (G2) and rejects no valid request for an advertised pair by a condition of its own (G6)",
                    "the underconstrained-input check of the sign-reference synthesis is never relaxed on the API path (G4)",
                    "the verdict of the validity check does not depend on the signs (NI2; necessary for 'accepts exactly the sets of n commuting independent Paulis')",
                    "strings containing a character that is no Pauli (lower case, digits, blanks, a sign inside the string) are refused by the parser (K15, probed alphabet)"]
    rep.not_decided += ["'raise or be correct' for arbitrary dependent / anticommuting Pauli sets (value-level)",
                        "the validity check accepts exactly the sets of n commuting independent Paulis (GF(2) arithmetic on runtime matrices)"]
