"""C09 - MUB families complete, index-aligned, cost-truthful (structural clauses)."""
from ..rules_tables import Tables, grammar, T4_edges, T8_header, T9_group_facts
from ..rules_flow import Flow
from ..rules_gate import W8_info, K1_loader, W10_requested_file, K20_mub_record
from ..rules_tomo import W9_pairing
from ..rules_conv import U1_defined_attributes


def run(tree, rep, tier):
    T = Tables(tree)
    T.inventory(rep)
    files = T.mub
    grammar(rep, T, files, rules=("T2", "T7"))
    T8_header(rep, T, files)
    T9_group_facts(rep, T, files)
    T4_edges(rep, T, T.adv_mub)
    rep.rules["T2"]["floor"] = 500
    rep.rules["T4"]["floor"] = 2000
    flow = Flow(tree)
    flow.describe(rep)
    W8_info(rep, flow, tables=T)
    W10_requested_file(rep, flow)
    K1_loader(rep, flow, T, tier, mode="exact", api=("mub_circuits.get_mub_circuits",))
    W9_pairing(rep, flow)
    K20_mub_record(rep, flow, T)
    U1_defined_attributes(rep, flow, ['circuit_lookup'])
    rep.decided += ["2^n+1 basis lines of n Pauli strings each (T7)", "every basis commuting and independent; the bases partition the 4^n-1 non-identity Paulis (T9, exhaustive arithmetic on the literals)",
                    "header = (sum, max, max depth) of the file's circuits (T8)", "each MUB accessor reads the file named by its own (num_qubits, connectivity), in this order (W10)", "info API wired to the right header fields and 2^n+1 (W8)",
                    "the two returned lists are built pairwise from the same lines and returned unpermuted (W9)",
                    "the loader turns every documented token of the MUB files into exactly the gate it names (K1, exact mode): the delivered circuits are the files' circuits",
                    "for each of the 20 advertised configurations get_mubs / get_mub_circuits return, entry by entry and in file order, the bases / circuits of ALL lines of that configuration's file (K20: the accessors evaluated on the shipped files - the clause's whole domain - against an independent parse)"]
    rep.not_decided += ["the i-th circuit maps the i-th basis to +/-Z-type operators (Clifford conjugation; pinned for the shipped files by the passing TestAllMubs tests)",
                        "no MUB circuit costs more than the library's readout circuit for the same basis (needs the classifier's value)"]
