"""C10 - full-state tomography reconstructs exactly (necessary structural conditions)."""
from ..rules_flow import Flow
from ..rules_tomo import B3_reembed, W14_returns, B1_B2_counts, W_fitter, W3_indexing, S2_estimator, S3_normalisation, W1_W2_builders
from ..rules_conv import U1_defined_attributes, W15_flag_forwarding


def run(tree, rep, tier):
    flow = Flow(tree)
    flow.describe(rep)
    B1_B2_counts(rep, flow, want=("B1",))
    W1_W2_builders(rep, flow, want=("W2",), builders=["tomography.full_state_tomography_circuits"])
    W3_indexing(rep, flow)
    W14_returns(rep, flow)
    W_fitter(rep, flow, want=("W4", "W5", "S1"))
    S2_estimator(rep, flow)
    S3_normalisation(rep, flow)
    B3_reembed(rep, flow)      # a state on a subset of the register is reported on the full register: the same re-embedding as C11
    U1_defined_attributes(rep, flow, ['tomography'])
    W15_flag_forwarding(rep, flow)
    rep.trusted += ["Q1", "Q2", "Q5"]
    rep.assumptions += ["Pauli.evolve(C, frame='s') = C P C^dagger and frame='h' (default) = C^dagger P C with Qiskit's sign convention (trusted)"]
    rep.decided += ["bit-order consistency count key -> outcome integer -> Z mask -> Pauli (B1)", "k-th circuit fitted with k-th counts (W3) and with the readout it was composed with (W2)",
                    "pull-back / push-forward conjugation directions (W4)", "one mask for Pauli and estimator (W5)",
                    "sign table (S1), parity / accumulation / quotient of the estimator (S2), accumulation and 2^-n scale of the linear inversion (S3)"]
    rep.not_decided += ["that Pauli.evolve realises those conjugations with the sign convention assumed, hence exactness for every rho (Qiskit semantics, trusted)",
                        "that the i-th MUB circuit diagonalises the i-th basis (C09, value-level)"]
