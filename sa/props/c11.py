"""C11 - tomography of a qubit subset (core clause: selection, order, significance, re-embedding)."""
from ..rules_flow import Flow, P_rules
from ..rules_tomo import H1_histogram_accumulates, B1_B2_counts, B3_reembed, W1_W2_builders, W11_fitter_uses_list
from ..rules_conv import U1_defined_attributes, W15_flag_forwarding


def run(tree, rep, tier):
    flow = Flow(tree)
    flow.describe(rep)
    H1_histogram_accumulates(rep, flow)
    if rep.findings:
        rep.note("H1 fired: the estimator no longer has the loop shape the remaining rules are written for; they are skipped in this run")
        return
    B1_B2_counts(rep, flow, want=("B2",))
    B3_reembed(rep, flow)
    P_rules(rep, flow, which=("P3",))
    W1_W2_builders(rep, flow, want=("W1",))
    W11_fitter_uses_list(rep, flow)
    U1_defined_attributes(rep, flow, ['tomography'])
    W15_flag_forwarding(rep, flow)
    rep.trusted += ["Q1", "Q5"]
    rep.decided += ["marginalisation selects exactly the listed qubits in the listed order and bit significance (B2)", "readout composed onto the listed qubits in order (P3); the fitter receives the same list and the register width (W1) and marginalises onto exactly that list (W11)",
                    "re-embedding writes factor j at register position q_j (B3)",
                    "outcome histograms add up the counts of marginalised outcomes that coincide (H1)"]
    rep.not_decided += ["values of the expectations (as C10)"]
