"""C12 - stabilizer measurement reports signed expectation values (structural clauses)."""
from ..rules_flow import Flow, P4_inverse
from ..rules_tomo import W14_returns, B1_B2_counts, W_fitter, S2_estimator, W1_W2_builders
from ..rules_conv import U1_defined_attributes, W15_flag_forwarding


def run(tree, rep, tier):
    flow = Flow(tree)
    flow.describe(rep)
    W_fitter(rep, flow, want=("W4", "W5", "W6", "W7", "S1"))
    W14_returns(rep, flow)
    B1_B2_counts(rep, flow, want=("B1",))
    S2_estimator(rep, flow)
    W1_W2_builders(rep, flow, want=("W2",), builders=["tomography.stabilizer_measurement_circuit"])
    P4_inverse(rep, flow, modulo_paulis=True)
    U1_defined_attributes(rep, flow, ['tomography'])
    W15_flag_forwarding(rep, flow)
    rep.trusted += ["Q1", "Q2", "Q5"]
    rep.assumptions += ["Pauli.evolve(C, frame='s') = C P C^dagger and frame='h' (default) = C^dagger P C with Qiskit's sign convention (trusted)"]
    rep.decided += ["2^n entries: mask loop domain 1..2^n-1 plus identity entry (W6)", "keys are unsigned Paulis (W7)",
                    "conjugation directions, mask identity, sign table, parity estimator, bit order as in C10 (W4, W5, S1, S2, B1)",
                    "the stored readout is the composed one (W2) and is the inverted preparation circuit up to Pauli layers (P4, weak form: sign-dependence of the readout does not break C12, it breaks C03)"]
    rep.not_decided += ["sign correctness inside Pauli.evolve (trusted)", "that the readout diagonalises the group (C03, value-level)"]
