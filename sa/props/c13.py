"""C13 - results are a function of the arguments only (aliasing / history clauses)."""
import ast
from ..rules_flow import Flow, API_MODULES
from ..rules_alias import A4_params, A3_A5_shared, A7_determinism, nondet_sites
from ..rules_state import A1_inventory
from ..rules_tomo import A8_snapshot
from ..rules_conv import A10_instance_memos
from ..report import AnalysisError
from .. import pyfacts


def run(tree, rep, tier):
    flow = Flow(tree)
    flow.describe(rep)
    prog = flow.prog
    A1_inventory(rep, flow)
    entries = []
    for mn in ["circuit_lookup", "connectivity_support"] + API_MODULES:
        m = prog.modules.get(mn)
        if m is None:
            raise AnalysisError(f"anchor module {mn} vanished")
        entries += [f.fq for f in m.funcs.values() if not f.name.startswith("_")]
        if mn == "circuit_lookup":
            # the accessors' record classes are handed to callers: their public methods are boundary too
            for c in prog._all_classes(m):
                entries += [f.fq for f in c.methods.values() if not f.name.startswith("_")]
    A3_A5_shared(rep, flow, entries)
    # linear_index / graph_draw take index lists and drawing options, not the objects the property names; effects
    # that reach a protected parameter THROUGH them are still propagated by the summaries
    A4_params(rep, flow, modules=[m for m in sorted(prog.modules) if m not in ('linear_index', 'graph_draw')])
    A8_snapshot(rep, flow)
    A10_instance_memos(rep, flow)
    roots = prog.public_api(["stabilizer_circuits", "mub_circuits", "tomography", "connectivity_support", "stabilizer", "graph", "circuit_lookup"])
    A7_determinism(rep, flow, roots)
    # positive control for the zero-expected rule A7: the test helper must trigger it
    ctl_rel = "tests/random_stabilizer.py"
    if tree.exists(ctl_rel):
        mod = pyfacts.Module("random_stabilizer", ctl_rel, tree.read(ctl_rel))
        prog._index(mod)
        hits = sum(len(list(nondet_sites(prog, f))) for f in mod.all_funcs)
        if hits == 0:
            raise AnalysisError("A7 positive control failed: tests/random_stabilizer.py no longer triggers the nondeterminism rule")
        rep.analysed["A7 positive control (tests/random_stabilizer.py)"] = f"{hits} site(s) flagged as expected"
    rep.trusted += ["Q1", "Q2", "Q3"]
    rep.decided += ["no shared mutable container or circuit escapes uncopied (A3) or is mutated in place (A5)", "cache keys complete and caches written only by their loader (A2, A1)",
                    "protected parameters are never mutated (A4)", "returned measurement circuits hold a snapshot, not the caller's own qubit list (A8)", "no nondeterminism source reachable from the public API (A7)"]
    rep.not_decided += ["behaviour of Qiskit objects themselves (e.g. that QuantumCircuit.copy is deep enough) - trusted"]
