"""C14 - all input formats describe the same signed group (thin structural clauses)."""
from ..rules_flow import Flow
from ..rules_k import K4_codec, K5_graph_form, K13_matrix_form, K15_junk_characters, E2_graph_circuit
from ..rules_conv import U1_defined_attributes


def run(tree, rep, tier):
    flow = Flow(tree)
    flow.describe(rep)
    K4_codec(rep, flow, tier)
    K5_graph_form(rep, flow)
    K13_matrix_form(rep, flow)
    K15_junk_characters(rep, flow)
    E2_graph_circuit(rep, flow)
    U1_defined_attributes(rep, flow, ['stabilizer', 'graph'])
    rep.trusted += ["Q4"]
    rep.decided += ["Pauli-character and sign tables of parser and printer are mutually inverse; string -> object -> string round-trips (K4, exhaustive over one generator of a 3-qubit list)",
                    "the reversed export is the exact mirror image after the sign (B4)", "the graph form is (I, adjacency, 0), i.e. generators X_v Z_N(v) (K5, all graphs on 2..4 vertices)",
                    "the graph-state circuit is total: defined for every graph including the edgeless one (E2)",
                    "characters that are no Pauli are refused, not read as some Pauli (K15, probed alphabet)", "the matrix form stores the given X part, Z part and signs as they are, signs defaulting to 0 (K13: a pass-through, decided on asymmetric samples)"]
    rep.not_decided += ["circuit input format: tableau slicing vs Qiskit's layout and sign conventions (value-level / Qiskit semantics)",
                        "that the object built from a circuit generates the stabilizer group of circuit|0..0> including signs"]
