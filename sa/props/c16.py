"""C16 - local-Clifford layer search sound and complete (literal-table clauses)."""
from ..rules_flow import Flow
from ..rules_k import K16_system_rows, K6_filter, K7_branches, K7_two_qubits, K9_enumeration, E1_typed_empties, E1_kernel_shape, FLC


def run(tree, rep, tier):
    flow = Flow(tree)
    flow.describe(rep)
    K6_filter(rep, flow)
    K7_branches(rep, flow)
    K7_two_qubits(rep, flow)
    K9_enumeration(rep, flow)
    K16_system_rows(rep, flow)
    E1_typed_empties(rep, flow, [FLC, "f2_algebra.null_space"])
    E1_kernel_shape(rep, flow)
    rep.trusted += ["N1"]
    rep.decided += ["a returned layer consists of genuine single-qubit Cliffords (K6: filter == invertibility on all 16 patterns)",
                    "the gate sequence generated from a layer implements exactly that layer modulo Pauli signs (K7: six branches == their symplectic matrices, ten patterns rejected)",
                    "the whole kernel span is enumerated (K9)", "absence of a layer is reported as such, not as a TypeError, when the kernel is trivial (E1)"]
    rep.not_decided += ["that the linearised system encodes 'maps all operators into the graph state's stabilizer group' (algebra)"]
