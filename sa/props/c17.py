"""C17 - every lookup-table entry is internally consistent (structural clauses)."""
from ..rules_tables import Tables, grammar, T1_line_count, T5_T6_cost_depth
from ..rules_flow import Flow
from ..rules_k import K3_class_tables


def run(tree, rep, tier):
    T = Tables(tree)
    T.inventory(rep)
    files = T.stab  # all stabilizer files incl. stray ones
    flow = Flow(tree)
    flow.describe(rep)
    K = K3_class_tables(rep, flow)   # K(n) as the classifier's tables define it (must equal 2/5/18/93/760)
    T1_line_count(rep, T, files, K)
    grammar(rep, T, files, rules=("T2", "T3"))
    T5_T6_cost_depth(rep, T, files)
    rep.rules["T1"]["floor"] = 20
    for f in T.stray:
        rep.note(f"stray table file {f.name} (not advertised): linted like the others, not a violation by existing")
    rep.decided += ["one line per class id (T1)", "four fields / integer columns / indices < n (T3)",
                    "documented gate vocabulary, arity, distinct operands (T2)",
                    "cost column = counted two-qubit cost, SWAP = 3 (T5)", "depth column = scheduled two-qubit depth (T6)"]
    rep.not_decided += ["the entry's circuit prepares the graph state of the entry's graph (value-level; pinned for the shipped files by the passing test_verify_state/_stabilizer tests)",
                        "the graph belongs to the class the entry is filed under (value-level; test_verify_lc_class tests)"]
