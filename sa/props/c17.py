"""C17 - every lookup-table entry is internally consistent (structural clauses)."""
from ..rules_tables import Tables, grammar, T1_line_count, T5_T6_cost_depth
from ..rules_flow import Flow
from ..rules_k import K3_class_tables
from ..rules_gate import K1_loader, K2_reader, K21_stabilizer_accessor
from ..rules_conv import U1_defined_attributes


def run(tree, rep, tier):
    T = Tables(tree)
    T.inventory(rep)
    files = T.stab  # all stabilizer files incl. stray ones
    flow = Flow(tree)
    flow.describe(rep)
    K = K3_class_tables(rep, flow)   # K(n) as the classifier's tables define it (must equal 2/5/18/93/760)
    T1_line_count(rep, T, files, K)
    grammar(rep, T, files, rules=("T2", "T3"))
    T5_T6_cost_depth(rep, T, files)
    # the PARSED entry (what a lookup hands out) records what the line says: fields from their columns, gates from their tokens
    K2_reader(rep, flow, tables=T)
    K1_loader(rep, flow, T, tier, mode="cost")
    if tier == "thorough":
        K21_stabilizer_accessor(rep, flow, T)
        rep.decided += ["thorough tier: the accessor evaluated for every advertised configuration and every class id returns line `id`'s graph id / cost / depth and a circuit with exactly the gates the line's tokens name (K21, every entry of every advertised table)"]
    rep.rules["T1"]["floor"] = 20
    for f in T.stray:
        rep.note(f"stray table file {f.name} (not advertised): linted like the others, not a violation by existing")
    U1_defined_attributes(rep, flow, ['circuit_lookup'])
    rep.decided += ["one line per class id (T1)", "four fields / integer columns / indices < n (T3)",
                    "documented gate vocabulary, arity, distinct operands (T2)",
                    "cost column = counted two-qubit cost, SWAP = 3 (T5)", "depth column = scheduled two-qubit depth (T6)",
                    "the parsed entry takes cost / depth / circuit from columns 1 / 2 / 3 of its own line (K2) and its loader turns each two-qubit token into one two-qubit gate of the same native cost on the same pair (K1, cost mode): the recorded numbers stay true of the delivered circuit object"]
    rep.not_decided += ["the entry's circuit prepares the graph state of the entry's graph (value-level; pinned for the shipped files by the passing test_verify_state/_stabilizer tests)",
                        "the graph belongs to the class the entry is filed under (value-level; test_verify_lc_class tests)"]
