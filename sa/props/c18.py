"""C18 - GF(2) routines (one clause: well-typed empty kernel; inputs not mutated)."""
from ..rules_flow import Flow
from ..rules_k import E1_typed_empties, E1_kernel_shape, K17_elimination_bounds, K17_column_sweep, K18_dimension_formula, K19_mod2_updates, K19b_no_reinterpretation
from ..rules_alias import A4_params

FQS = ["f2_algebra.rref", "f2_algebra.rref_and_basis_change", "f2_algebra.rank", "f2_algebra.null_space"]


def run(tree, rep, tier):
    flow = Flow(tree)
    flow.describe(rep)
    E1_typed_empties(rep, flow, ["f2_algebra.null_space"], rule_floor=1)
    E1_kernel_shape(rep, flow)
    A4_params(rep, flow, only=FQS)
    K17_elimination_bounds(rep, flow)
    K17_column_sweep(rep, flow)
    K18_dimension_formula(rep, flow)
    K19_mod2_updates(rep, flow)
    K19b_no_reinterpretation(rep, flow)
    rep.rules["A4"]["floor"] = 4
    rep.trusted += ["N1"]
    rep.decided += ["the null-space routine returns an integer-typed two-dimensional (k, cols) array also for k = 0 (E1)", "rref, rref_and_basis_change, rank, null_space never mutate their argument (A4)",
                    "where the eliminations are while-loops over (row cursor, column cursor), the cursors are bounded by the dimensions of A themselves (K17; a necessary condition of 'every row can be a pivot row')",
                    "no elimination sweeps its column index only up to min(rows, cols), and the rank is not read off the diagonal of the reduced matrix (K17b; both necessary for wide matrices)",
                    "rank and kernel share the pivot list: the rank is its length, and the kernel routine returns an empty basis early only when every column is a pivot column (K18: the structural half of rank + nullity = columns)",
                    "every arithmetic row update of the eliminations is stored reduced into {0, 1} (`% 2`, `& 1`, exclusive-or) (K19)"]
    rep.not_decided += ["uniqueness of the RREF, rank, M*A = RREF, M*M_inv = I, exactness of the kernel (value-level arithmetic on runtime matrices)"]
