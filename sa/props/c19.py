"""C19 - graph codec bijective (codec clause)."""
from ..rules_flow import Flow
from ..rules_k import K10_K11_codec, K12_local_complementation, K14_grouping_codecs
from ..rules_conv import U1_defined_attributes


def run(tree, rep, tier):
    flow = Flow(tree)
    flow.describe(rep)
    K10_K11_codec(rep, flow, tier)
    K12_local_complementation(rep, flow, tier)
    K14_grouping_codecs(rep, flow)
    U1_defined_attributes(rep, flow, ['graph', 'linear_index'])
    rep.decided += ["compress / decompress enumerate the same affine (i,j) -> bit bijection, equal to the documented layout; hence mutually inverse on 0..2^(n(n-1)/2)-1 (K10, K11)"]
    rep.decided += ["local complementation complements exactly the edges among the neighbours, is an involution and keeps the graph simple - for every graph on 2..5 vertices (quick tier) and 2..6 vertices, i.e. the whole domain of the property (thorough tier), both forms (K12)"]
    rep.not_decided += ["that the stabilizer state stays in the same class under local complementation (value-level)", "class id <-> grouping arithmetic inside lc_classes (start offsets of the entanglement structures)"]
    rep.decided += ["every to_<shape>/from_<shape> pair of linear_index is a bijection between its index range and the groupings of that shape, with from_ its inverse - over the whole index domain of every shape (K14)"]
