"""C19 - graph codec bijective (codec clause)."""
from ..rules_flow import Flow
from ..rules_k import K10_K11_codec


def run(tree, rep, tier):
    flow = Flow(tree)
    K10_K11_codec(rep, flow, tier)
    rep.decided += ["compress / decompress enumerate the same affine (i,j) -> bit bijection, equal to the documented layout; hence mutually inverse on 0..2^(n(n-1)/2)-1 (K10, K11)"]
    rep.not_decided += ["local complementation semantics (matrix arithmetic)", "class id <-> qubit grouping index arithmetic"]
