"""Parsed view of the package: modules, symbols, import resolution, functions, classes,
light type inference and two call graphs (RESOLVED for presence rules, MAY for absence rules)."""
from __future__ import annotations
import ast
import builtins
from .report import AnalysisError
from .vfs import PKG

BUILTINS = set(dir(builtins))


class Func:
    def __init__(self, module, qualname, node, cls=None):
        self.module, self.qualname, self.node, self.cls = module, qualname, node, cls
        self.name = node.name
        self.is_static = any(isinstance(d, ast.Name) and d.id == "staticmethod" for d in node.decorator_list)
        self.is_classmethod = any(isinstance(d, ast.Name) and d.id == "classmethod" for d in node.decorator_list)
        self.decorators = [ast.unparse(d) for d in node.decorator_list]

    @property
    def fq(self):
        return f"{self.module.name}.{self.qualname}"

    @property
    def params(self):
        a = self.node.args
        return [x.arg for x in a.posonlyargs + a.args] + ([a.vararg.arg] if a.vararg else []) + \
               [x.arg for x in a.kwonlyargs] + ([a.kwarg.arg] if a.kwarg else [])

    def public(self):
        return not self.name.startswith("_") or (self.name.startswith("__") and self.name.endswith("__"))

    def __repr__(self):
        return f"<Func {self.fq}>"


class Class:
    def __init__(self, module, node, outer=None):
        self.module, self.node, self.name = module, node, node.name
        self.qualname = (outer.qualname + "." if outer else "") + node.name
        self.methods: dict[str, Func] = {}
        self.bases = [ast.unparse(b) for b in node.bases]
        self.class_assigns: dict[str, ast.AST] = {}
        self.inner: dict[str, Class] = {}
        self.prop_get: dict[str, Func] = {}      # @property / @cached_property getters
        self.prop_set: dict[str, Func] = {}      # @<name>.setter

    @property
    def fq(self):
        return f"{self.module.name}.{self.qualname}"

    def __repr__(self):
        return f"<Class {self.fq}>"


class Module:
    def __init__(self, name, rel, text):
        self.name, self.rel, self.text = name, rel, text
        try:
            self.tree = ast.parse(text, filename=rel)
        except SyntaxError as e:
            raise AnalysisError(f"{rel} does not parse: {e}")
        self.funcs: dict[str, Func] = {}       # module-level functions
        self.classes: dict[str, Class] = {}
        self.all_funcs: list[Func] = []        # incl. methods and nested
        self.imports: dict[str, tuple] = {}    # local name -> ('module', modname) | ('symbol', modname, name) | ('external', dotted)
        self.star_imports: list[str] = []
        self.assigns: dict[str, list[ast.AST]] = {}   # module-level name -> value nodes
        self.lines = text.split("\n")

    def __repr__(self):
        return f"<Module {self.name}>"


class Program:
    def __init__(self, tree, extra_dirs=()):
        self.tree = tree
        self.modules: dict[str, Module] = {}
        rels = [r for r in tree.glob(PKG, "*.py")]
        if len(rels) < 5:
            raise AnalysisError(f"only {len(rels)} modules under {PKG}: package anchor vanished")
        for rel in rels:
            name = rel.rsplit("/", 1)[-1][:-3]
            self.modules[name] = Module(name, rel, tree.read(rel))
        for m in self.modules.values():
            self._index(m)
        for m in self.modules.values():
            self._resolve_star(m)
        self.funcs_by_name: dict[str, list[Func]] = {}
        for m in self.modules.values():
            for f in m.all_funcs:
                self.funcs_by_name.setdefault(f.name, []).append(f)
        self.classes_by_name: dict[str, list[Class]] = {}
        for m in self.modules.values():
            for c in self._all_classes(m):
                self.classes_by_name.setdefault(c.name, []).append(c)

    # -----------------------------------------------------------------------------------
    def _all_classes(self, m):
        out = []

        def rec(c):
            out.append(c)
            for i in c.inner.values():
                rec(i)
        for c in m.classes.values():
            rec(c)
        return out

    def _index(self, m: Module):
        def index_class(node, outer=None):
            c = Class(m, node, outer)
            for st in node.body:
                if isinstance(st, (ast.FunctionDef, ast.AsyncFunctionDef)):
                    f = Func(m, f"{c.qualname}.{st.name}", st, cls=c)
                    decs = [ast.unparse(d) for d in st.decorator_list]
                    if any(d.split(".")[-1] in ("property", "cached_property") for d in decs):
                        c.prop_get[st.name] = f
                    if any(d == st.name + ".setter" for d in decs):
                        c.prop_set[st.name] = f
                        f.qualname = f"{c.qualname}.{st.name}.setter"
                    elif any(d in (st.name + ".getter", st.name + ".deleter") for d in decs):
                        pass
                    else:
                        c.methods[st.name] = f
                    m.all_funcs.append(f)
                    index_nested(st, f.qualname)
                elif isinstance(st, ast.ClassDef):
                    c.inner[st.name] = index_class(st, c)
                elif isinstance(st, ast.Assign):
                    for t in st.targets:
                        if isinstance(t, ast.Name):
                            c.class_assigns[t.id] = st.value
                elif isinstance(st, ast.AnnAssign) and isinstance(st.target, ast.Name) and st.value is not None:
                    c.class_assigns[st.target.id] = st.value
            return c

        def index_nested(fnode, prefix):
            for sub in ast.walk(fnode):
                if sub is fnode:
                    continue
                if isinstance(sub, (ast.FunctionDef, ast.AsyncFunctionDef)):
                    f = Func(m, f"{prefix}.<locals>.{sub.name}", sub)
                    f.nested = True
                    m.all_funcs.append(f)

        def index_stmts(stmts):
            for st in stmts:
                if isinstance(st, (ast.FunctionDef, ast.AsyncFunctionDef)):
                    f = Func(m, st.name, st)
                    m.funcs[st.name] = f
                    m.all_funcs.append(f)
                    index_nested(st, st.name)
                elif isinstance(st, ast.ClassDef):
                    m.classes[st.name] = index_class(st)
                elif isinstance(st, ast.Import):
                    for a in st.names:
                        m.imports[a.asname or a.name.split(".")[0]] = ("external", a.name)
                elif isinstance(st, ast.ImportFrom):
                    self._import_from(m, st)
                elif isinstance(st, ast.Assign):
                    for t in st.targets:
                        if isinstance(t, ast.Name):
                            m.assigns.setdefault(t.id, []).append(st.value)
                        elif isinstance(t, (ast.Tuple, ast.List)) and all(isinstance(x, ast.Name) for x in t.elts):
                            # a, b, c = 1, 2, 3   /   a, b = f()  (the latter as subscripts of the value)
                            for i, x in enumerate(t.elts):
                                if isinstance(st.value, (ast.Tuple, ast.List)) and len(st.value.elts) == len(t.elts):
                                    val = st.value.elts[i]
                                else:
                                    val = ast.copy_location(ast.Subscript(value=st.value, slice=ast.Constant(i), ctx=ast.Load()), st.value)
                                    ast.fix_missing_locations(val)
                                m.assigns.setdefault(x.id, []).append(val)
                elif isinstance(st, ast.AnnAssign) and isinstance(st.target, ast.Name) and st.value is not None:
                    m.assigns.setdefault(st.target.id, []).append(st.value)
                elif isinstance(st, ast.Try):
                    index_stmts(st.body)
                    for h in st.handlers:
                        index_stmts(h.body)
                elif isinstance(st, ast.If):
                    index_stmts(st.body)
                    index_stmts(st.orelse)
        index_stmts(m.tree.body)

    def _import_from(self, m, st):
        if st.level >= 1:
            base = st.module  # None for "from . import x"
            for a in st.names:
                if base is None:
                    m.imports[a.asname or a.name] = ("module", a.name)
                elif a.name == "*":
                    m.star_imports.append(base)
                else:
                    m.imports[a.asname or a.name] = ("symbol", base, a.name)
        else:
            for a in st.names:
                m.imports[a.asname or a.name] = ("external", f"{st.module}.{a.name}")

    def _resolve_star(self, m, seen=None):
        for src in m.star_imports:
            sm = self.modules.get(src)
            if sm is None:
                continue
            for name in list(sm.funcs) + list(sm.classes) + list(sm.assigns):
                if not name.startswith("_"):
                    m.imports.setdefault(name, ("symbol", src, name))
            for name, imp in sm.imports.items():
                if not name.startswith("_"):
                    m.imports.setdefault(name, imp)

    # -----------------------------------------------------------------------------------
    def lookup_global(self, m: Module, name: str, depth=0):
        """Resolve a module-level name: ('func', Func) | ('class', Class) | ('module', Module) |
        ('var', Module, name) | ('external', dotted) | ('builtin', name) | None"""
        if depth > 8:
            return None
        if name in m.funcs:
            return ("func", m.funcs[name])
        if name in m.classes:
            return ("class", m.classes[name])
        if name in m.assigns:
            return ("var", m, name)
        if name in m.imports:
            imp = m.imports[name]
            if imp[0] == "module":
                mod = self.modules.get(imp[1])
                return ("module", mod) if mod else ("external", imp[1])
            if imp[0] == "symbol":
                mod = self.modules.get(imp[1])
                if mod is None:
                    return ("external", f"{imp[1]}.{imp[2]}")
                return self.lookup_global(mod, imp[2], depth + 1)
            return ("external", imp[1])
        if name in BUILTINS:
            return ("builtin", name)
        return None

    def written_globals(self):
        """'module.name' of module-level containers that some function stores into (caches), as opposed to
        constant tables that are only read"""
        c = getattr(self, "_written_globals", None)
        if c is not None:
            return c
        c = set()
        for m in self.modules.values():
            for f in m.all_funcs:
                loc = self._locals(f)
                for n in ast.walk(f.node):
                    base = None
                    if isinstance(n, (ast.Assign, ast.AugAssign)):
                        for t in (n.targets if isinstance(n, ast.Assign) else [n.target]):
                            b = t
                            sub = False
                            while isinstance(b, ast.Subscript):
                                b, sub = b.value, True
                            if sub and isinstance(b, ast.Name):
                                base = b
                    elif isinstance(n, ast.Call) and isinstance(n.func, ast.Attribute) and n.func.attr in ("setdefault", "update", "pop", "clear", "append", "extend", "add", "popitem", "insert") and isinstance(n.func.value, ast.Name):
                        base = n.func.value
                    elif isinstance(n, ast.Global):
                        for nm in n.names:
                            c.add(f"{m.name}.{nm}")
                    if base is not None and base.id not in loc:
                        r = self.lookup_global(m, base.id)
                        if r and r[0] == "var":
                            c.add(f"{r[1].name}.{r[2]}")
        self._written_globals = c
        return c

    def func(self, fq: str) -> Func:
        """'module.qualname' -> Func; AnalysisError if the anchor vanished"""
        mod, _, qn = fq.partition(".")
        m = self.modules.get(mod)
        if m is not None:
            for f in m.all_funcs:
                if f.qualname == qn:
                    return f
        raise AnalysisError(f"anchor function {fq} not found in the tree")

    def cls(self, fq: str) -> Class:
        mod, _, qn = fq.partition(".")
        m = self.modules.get(mod)
        if m is not None:
            for c in self._all_classes(m):
                if c.qualname == qn:
                    return c
        raise AnalysisError(f"anchor class {fq} not found in the tree")

    def find_property(self, c: Class, name: str, setter=False, depth=0):
        tab = c.prop_set if setter else c.prop_get
        if name in tab:
            return tab[name]
        if depth > 5:
            return None
        for b in c.bases:
            r = self.lookup_global(c.module, b.split(".")[0])
            if r and r[0] == "class":
                f = self.find_property(r[1], name, setter, depth + 1)
                if f:
                    return f
        return None

    def find_method(self, c: Class, name: str, depth=0):
        if name in c.methods:
            return c.methods[name]
        if depth > 5:
            return None
        for b in c.bases:
            r = self.lookup_global(c.module, b.split(".")[0])
            if r and r[0] == "class":
                f = self.find_method(r[1], name, depth + 1)
                if f:
                    return f
        return None

    # -----------------------------------------------------------------------------------
    # light type inference + call graphs
    def ann_class(self, m: Module, ann):
        """class named by an annotation node (Name / 'Name' / Optional[Name] / Union[A, B] -> first repo class)"""
        if ann is None:
            return None
        if isinstance(ann, ast.Constant) and isinstance(ann.value, str):
            r = self.lookup_global(m, ann.value)
            return r[1] if r and r[0] == "class" else None
        if isinstance(ann, ast.Name):
            r = self.lookup_global(m, ann.id)
            return r[1] if r and r[0] == "class" else None
        if isinstance(ann, ast.Subscript):
            base = ast.unparse(ann.value)
            if base in ("Optional", "typing.Optional"):
                return self.ann_class(m, ann.slice)
        return None

    def local_types(self, f: Func) -> dict[str, Class]:
        env: dict[str, Class] = {}
        a = f.node.args
        for arg in a.posonlyargs + a.args + a.kwonlyargs:
            c = self.ann_class(f.module, arg.annotation)
            if c:
                env[arg.arg] = c
        if f.cls and not f.is_static and a.args:
            env.setdefault(a.args[0].arg, f.cls)
        for _ in range(2):
            for st in ast.walk(f.node):
                if isinstance(st, ast.Assign) and len(st.targets) == 1 and isinstance(st.targets[0], ast.Name):
                    c = self.expr_class(f, st.value, env)
                    if c:
                        env[st.targets[0].id] = c
                elif isinstance(st, ast.AnnAssign) and isinstance(st.target, ast.Name):
                    c = self.ann_class(f.module, st.annotation) or (self.expr_class(f, st.value, env) if st.value else None)
                    if c:
                        env[st.target.id] = c
        return env

    def expr_class(self, f: Func, e, env):
        """repo class of an expression's value, when evident"""
        if isinstance(e, ast.Name):
            return env.get(e.id)
        if isinstance(e, ast.Call):
            tgt = self.resolve_call(f, e, env)
            if tgt and tgt[0] == "class":
                return tgt[1]
            if tgt and tgt[0] == "func":
                g = tgt[1]
                c = self.ann_class(g.module, g.node.returns)
                if c:
                    return c
                if g.cls and g.is_static and g.node.returns is None:
                    # static factories of a class conventionally return that class (Graph.linear ...)
                    for n in ast.walk(g.node):
                        if isinstance(n, ast.Return) and isinstance(n.value, ast.Name):
                            pass
                    return self._factory_class(g)
        if isinstance(e, ast.Attribute) and isinstance(e.value, ast.Name) and e.value.id in env:
            # typed attributes we know about
            return None
        return None

    def _factory_class(self, g: Func):
        env = {}
        for st in ast.walk(g.node):
            if isinstance(st, ast.Assign) and len(st.targets) == 1 and isinstance(st.targets[0], ast.Name) and isinstance(st.value, ast.Call):
                fn = st.value.func
                if isinstance(fn, ast.Name):
                    r = self.lookup_global(g.module, fn.id)
                    if r and r[0] == "class":
                        env[st.targets[0].id] = r[1]
                elif isinstance(fn, ast.Attribute) and isinstance(fn.value, ast.Name):
                    r = self.lookup_global(g.module, fn.value.id)
                    if r and r[0] == "class":
                        env[st.targets[0].id] = r[1]
        for st in ast.walk(g.node):
            if isinstance(st, ast.Return) and isinstance(st.value, ast.Name) and st.value.id in env:
                return env[st.value.id]
        return None

    def resolve_call(self, f: Func, call: ast.Call, env=None):
        """('func', Func) | ('class', Class) | ('external', dotted) | ('builtin', name) | ('method?', name) | None"""
        fn = call.func
        m = f.module
        if isinstance(fn, ast.Name):
            # nested function defined in f?
            for g in m.all_funcs:
                if getattr(g, "nested", False) and g.name == fn.id and g.qualname.startswith(f.qualname.split(".<locals>")[0] + "."):
                    return ("func", g)
            if fn.id in (env or {}) and False:
                return None
            return self.lookup_global(m, fn.id)
        if isinstance(fn, ast.Attribute):
            base = fn.value
            if isinstance(base, ast.Name):
                if env and base.id in env:
                    meth = self.find_method(env[base.id], fn.attr)
                    if meth:
                        return ("func", meth)
                    return ("method?", fn.attr)
                r = self.lookup_global(m, base.id) if base.id not in self._locals(f) else None
                if r:
                    if r[0] == "module":
                        return self.lookup_global(r[1], fn.attr)
                    if r[0] == "class":
                        meth = self.find_method(r[1], fn.attr)
                        if meth:
                            return ("func", meth)
                        if fn.attr in r[1].inner:
                            return ("class", r[1].inner[fn.attr])
                        return ("method?", fn.attr)
                    if r[0] == "external":
                        return ("external", r[1] + "." + fn.attr)
                return ("method?", fn.attr)
            if isinstance(base, ast.Call) and env is not None:
                c = self.expr_class(f, base, env)
                if c:
                    meth = self.find_method(c, fn.attr)
                    if meth:
                        return ("func", meth)
            if isinstance(base, ast.Attribute):
                dotted = ast.unparse(base)
                root = dotted.split(".")[0]
                r = self.lookup_global(m, root) if root not in self._locals(f) else None
                if r and r[0] == "external":
                    return ("external", r[1] + "." + ".".join(dotted.split(".")[1:]) + "." + fn.attr)
                if r and r[0] == "class":
                    # Class.Inner.attr(...)
                    c = r[1]
                    for part in dotted.split(".")[1:]:
                        c = c.inner.get(part) if c else None
                    if c:
                        meth = self.find_method(c, fn.attr)
                        if meth:
                            return ("func", meth)
            return ("method?", fn.attr)
        return None

    def _locals(self, f: Func) -> set:
        c = getattr(f, "_locals_cache", None)
        if c is None:
            c = set(f.params)
            for n in ast.walk(f.node):
                if isinstance(n, ast.Name) and isinstance(n.ctx, (ast.Store, ast.Del)):
                    c.add(n.id)
                elif isinstance(n, (ast.FunctionDef, ast.ClassDef)) and n is not f.node:
                    c.add(n.name)
                elif isinstance(n, (ast.Import, ast.ImportFrom)):
                    for a in n.names:
                        c.add(a.asname or a.name.split(".")[0])
            f._locals_cache = c
        return c

    def call_sites(self, f: Func):
        """yield (call node, resolution) for every call in f (not descending into nested defs' own bodies twice)"""
        env = self.local_types(f)
        for n in ast.walk(f.node):
            if isinstance(n, ast.Call):
                yield n, self.resolve_call(f, n, env)

    def callees(self, f: Func, may: bool):
        """set of Func.  RESOLVED: only typed/static resolutions.  MAY: name-based fallback for
        untyped receivers (every repo method/function of that name) and nested functions."""
        out = set()
        for call, r in self.call_sites(f):
            if r is None:
                continue
            if r[0] == "func":
                out.add(r[1])
            elif r[0] == "class":
                init = self.find_method(r[1], "__init__")
                if init:
                    out.add(init)
            elif r[0] == "method?" and may:
                for g in self.funcs_by_name.get(r[1], []):
                    if g.cls is not None:
                        out.add(g)
        if may:
            # functions referenced as values (stored in tables, passed as callbacks) count as called
            for n in ast.walk(f.node):
                if isinstance(n, ast.Name) and isinstance(n.ctx, ast.Load):
                    r = self.lookup_global(f.module, n.id) if n.id not in self._locals(f) else None
                    if r and r[0] == "func":
                        out.add(r[1])
                    elif r and r[0] == "var":
                        # a module-level table read here: the functions / classes its value refers to (dispatch tables)
                        out |= self._table_targets(r[1], r[2])
                elif isinstance(n, ast.Attribute) and isinstance(n.ctx, ast.Load):
                    # dunder protocol / property-like use by name
                    pass
            # nested defs of f
            for g in f.module.all_funcs:
                if getattr(g, "nested", False) and g.qualname.startswith(f.qualname + ".<locals>."):
                    out.add(g)
        return out

    def _table_targets(self, mod, name, depth=0):
        key = (mod.name, name)
        memo = self.__dict__.setdefault("_table_targets_memo", {})
        if key in memo:
            return memo[key]
        memo[key] = set()
        out = set()
        for v in mod.assigns.get(name, []):
            for n in ast.walk(v):
                if isinstance(n, ast.Name) and isinstance(n.ctx, ast.Load):
                    r = self.lookup_global(mod, n.id)
                    if r and r[0] == "func":
                        out.add(r[1])
                    elif r and r[0] == "class":
                        for meth in r[1].methods.values():
                            out.add(meth)
                    elif r and r[0] == "var" and depth < 3 and (r[1].name, r[2]) != key:
                        out |= self._table_targets(r[1], r[2], depth + 1)
                elif isinstance(n, ast.Attribute) and isinstance(n.ctx, ast.Load) and isinstance(n.value, ast.Name):
                    # Class.method / module.function stored in a table
                    r = self.lookup_global(mod, n.value.id)
                    if r and r[0] == "class":
                        mm = self.find_method(r[1], n.attr)
                        if mm is not None:
                            out.add(mm)
                    elif r and r[0] == "module" and r[1] is not None:
                        rr = self.lookup_global(r[1], n.attr)
                        if rr and rr[0] == "func":
                            out.add(rr[1])
                elif isinstance(n, ast.Lambda):
                    pass
        memo[key] = out
        return out

    def closure(self, roots, may: bool, extra_edges=None):
        seen, todo = set(), list(roots)
        while todo:
            f = todo.pop()
            if f in seen:
                continue
            seen.add(f)
            for g in self.callees(f, may):
                if g not in seen:
                    todo.append(g)
            if extra_edges:
                for g in extra_edges(f):
                    if g not in seen:
                        todo.append(g)
        return seen

    def public_api(self, module_names):
        out = []
        for mn in module_names:
            m = self.modules.get(mn)
            if m is None:
                raise AnalysisError(f"anchor module {mn} not found")
            for f in m.funcs.values():
                if not f.name.startswith("_"):
                    out.append(f)
            for c in self._all_classes(m):
                if c.name.startswith("_"):
                    continue
                for f in c.methods.values():
                    if f.public():
                        out.append(f)
        return out


def norm_stmt(node) -> str:
    """normalised statement text used in finding keys (robust to reformatting)"""
    try:
        s = ast.unparse(node)
    except Exception:
        s = type(node).__name__
    s = s.split("\n")[0]
    return s if len(s) <= 120 else s[:117] + "..."


def where(f: Func, node) -> str:
    return f"{f.module.rel}:{getattr(node, 'lineno', '?')} in {f.qualname}"
