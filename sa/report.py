"""Exit protocol, evidence writer and known-findings matcher shared by all checks.

exit 0  every rule held (known findings printed as KNOWN-FINDING lines)
exit 1  VIOLATION property=<id> replay=<path>  for every finding not listed in known_findings.json
exit 2  ANALYSIS-ERROR: construct outside an engine's vocabulary, vanished anchor, rule
        instance count below its floor, or any internal exception.  Never a silent pass.
"""
from __future__ import annotations
import json
import os
import sys
import time
import traceback

VERIF = os.path.dirname(os.path.dirname(os.path.abspath(__file__)))

TRUSTED_BASE = {
    "Q1": "QuantumCircuit.compose(b, qubits=L, front=f, inplace=i): a followed (front false) or preceded (front true) by b with b's qubit j on a's qubit L[j]; new object unless inplace; b never mutated; metadata copied",
    "Q2": "QuantumCircuit.inverse()/copy() return new objects; inverse reverses gate order, keeps qubits",
    "Q3": "PassManager([InverseCancellation(G)]).run(c) returns a new circuit differing from c only by removal of adjacent pairs of gates listed in G",
    "Q4": "qc.h/s/sdg/x/y/z(q), qc.cx/cz/swap(a,b) append exactly that gate on those qubits",
    "Q5": "measure_all() maps qubit k to clbit k; count keys have clbit 0 rightmost; Pauli[i] indexes qubit i",
    "N1": "np.array(x) without dtype is float64 when x is empty; bitwise operators reject float64",
}


class AnalysisError(Exception):
    """The analysis cannot give a verdict (unknown construct, vanished anchor, floor)."""


class Finding:
    def __init__(self, prop, rule, key, what, detail=None):
        self.prop, self.rule, self.key, self.what, self.detail = prop, rule, key, what, detail or {}

    def ident(self):
        return (self.prop, self.rule, self.key)


class Report:
    def __init__(self, prop: str, tier: str = "quick", root: str = "/repo", quiet: bool = False):
        self.prop = prop
        self.tier = tier
        self.root = root
        self.quiet = quiet
        self.t0 = time.time()
        self.rules: dict[str, dict] = {}
        self.findings: list[Finding] = []
        self.notes: list[str] = []
        self.analysed: dict[str, object] = {}
        self.decided: list[str] = []
        self.not_decided: list[str] = []
        self.trusted: list[str] = []
        self.assumptions: list[str] = []
        self.selftest: dict | None = None

    # -- rule bookkeeping --------------------------------------------------------------
    def rule(self, rid: str, text: str, floor: int = 1, exhaustive: bool = False):
        self.rules[rid] = {"text": text, "floor": floor, "instances": 0, "nontrivial": set(), "nontrivial_extra": 0,
                           "samples": [], "exhaustive": exhaustive}
        return rid

    def ok(self, rid: str, n: int = 1, nontrivial=None, sample=None, distinct: int = 0):
        """Record n discharged instances of rule rid. `nontrivial` is a hashable identifying a
        distinct construct that could have failed (counted once)."""
        r = self.rules[rid]
        r["instances"] += n
        if nontrivial is not None:
            r["nontrivial"].add(nontrivial)
        r["nontrivial_extra"] += distinct      # bulk-counted distinct instances (each counted once by the caller)
        if sample is not None and len(r["samples"]) < 3:
            r["samples"].append(sample)

    def finding(self, rid: str, key: str, what: str, detail=None):
        r = self.rules[rid]
        if any(f.rule == rid and f.key == key for f in self.findings):
            return
        r["instances"] += 1
        r["nontrivial"].add(("finding", key))
        self.findings.append(Finding(self.prop, rid, key, what, detail))

    def note(self, text: str):
        self.notes.append(text)

    def say(self, text: str):
        if not self.quiet:
            print(text)

    # -- finishing ---------------------------------------------------------------------
    def new_findings(self):
        known = {(k["property"], k["rule"], k["key"]) for k in self.load_known()}
        return [f for f in self.findings if f.ident() not in known]

    def below_floor(self):
        return [rid for rid, r in self.rules.items() if r["instances"] < r["floor"]]

    def outcome(self):
        """'violation' (a rule reported a construct) | 'refused' (an anchor vanished, nothing reported) | 'pass'"""
        if self.new_findings():
            return "violation"
        return "refused" if self.below_floor() else "pass"

    def load_known(self):
        p = os.path.join(VERIF, "known_findings.json")
        if not os.path.exists(p):
            return []
        with open(p) as f:
            return json.load(f).get("known", [])

    def finish(self, write: bool = True) -> int:
        known = {(k["property"], k["rule"], k["key"]): k for k in self.load_known()}
        new, listed = [], []
        for f in self.findings:
            (listed if f.ident() in known else new).append(f)
        for rid, r in self.rules.items():
            if r["instances"] < r["floor"]:
                msg = (f"rule {rid} matched {r['instances']} instance(s), floor is {r['floor']}: "
                       f"the anchor it is meant to inspect has vanished ({r['text']})")
                if not new:
                    raise AnalysisError(msg)
                # a violation decided by a rule that did find its construct stands on its own; the
                # vanished anchor of another rule is reported next to it
                self.note("UNDECIDED " + msg)
        code = 1 if new else 0
        wall = time.time() - self.t0
        replay_paths = []
        if write:
            os.makedirs(os.path.join(VERIF, "evidence", "replay"), exist_ok=True)
        for i, f in enumerate(new):
            rp = os.path.join(VERIF, "evidence", "replay", f"{self.prop}-{i}.json")
            if write:
                with open(rp, "w") as fh:
                    json.dump({"property": f.prop, "rule": f.rule, "rule_text": self.rules[f.rule]["text"],
                               "key": f.key, "what": f.what, "detail": f.detail, "root": self.root}, fh, indent=1)
            replay_paths.append(rp)
        if not self.quiet:
            for k, v in self.analysed.items():
                print(f"analysed {k}: {v}")
            for rid, r in self.rules.items():
                print(f"rule {rid}: {r['instances']} instance(s), {len(r['nontrivial']) + r['nontrivial_extra']} distinct non-trivial  -- {r['text']}")
            for n in self.notes:
                print(f"note: {n}")
            for f in listed:
                print(f"KNOWN-FINDING: property={f.prop} rule={f.rule} {f.key}: {f.what}")
            for f, rp in zip(new, replay_paths):
                print(f"finding rule={f.rule} {f.key}: {f.what}")
                print(f"VIOLATION property={f.prop} replay={rp}")
        if write:
            self.write_evidence(wall, len(new), len(listed))
        return code

    def write_evidence(self, wall, n_new, n_listed):
        obligations = sum(r["instances"] for r in self.rules.values())
        nontrivial = sum(len(r["nontrivial"]) + r["nontrivial_extra"] for r in self.rules.values())
        samples = []
        for rid, r in self.rules.items():
            for s in r["samples"][:2]:
                samples.append({"rule": rid, "instance": s})
        if not samples:
            samples.append({"rule": "-", "instance": "no sample recorded"})
        ev = {
            "property_id": self.prop,
            "tier": self.tier,
            "seed": int(os.environ.get("VERIF_SEED", "0") or 0),
            "level": "other",
            "coverage": {
                "explanation": ("static analysis of the source tree at %s (no repository code imported or executed). "
                                "Clauses decided: %s. Clauses NOT decided: %s." % (
                                    self.root, "; ".join(self.decided) or "-", "; ".join(self.not_decided) or "-")),
                "evaluations": obligations,
                "distinct_nontrivial": nontrivial,
                "rule": "one evaluation = one rule instance (table token / line / file, call site, path, term, grid point) "
                        "discharged on the current tree; distinct_nontrivial = distinct constructs among them that carry "
                        "the inspected feature and could therefore have failed (e.g. table lines containing a two-qubit "
                        "gate, call paths reaching an accessor)",
                "obligations": obligations,
                "discharged": obligations - len(self.findings),
                "samples": samples,
                "exhaustive": all(r["exhaustive"] for r in self.rules.values()) if self.rules else False,
                "trusted_base": [f"{k}: {TRUSTED_BASE[k]}" for k in self.trusted],
                "rules": {rid: {"text": r["text"], "instances": r["instances"],
                                "distinct_nontrivial": len(r["nontrivial"]) + r["nontrivial_extra"], "floor": r["floor"],
                                "exhaustive_over_finite_domain": r["exhaustive"]} for rid, r in self.rules.items()},
                "analysed": self.analysed,
                "notes": self.notes,
                "known_findings_reported": n_listed,
                "checker_cmd": f"./check {self.prop} --tier {self.tier}",
            },
            "assumptions": self.assumptions + [f"{k}: {TRUSTED_BASE[k]}" for k in self.trusted],
            "wall_s": round(wall, 3),
            "violations": n_new,
        }
        if self.selftest is not None:
            ev["coverage"]["selftest"] = self.selftest
        os.makedirs(os.path.join(VERIF, "evidence"), exist_ok=True)
        with open(os.path.join(VERIF, "evidence", f"{self.prop}.json"), "w") as fh:
            json.dump(ev, fh, indent=1, default=str)


class TimeBudgetExceeded(BaseException):
    """raised by the wall-clock guard; not an Exception, so that no engine swallows it"""


def guarded(fn):
    """Run a check entry point under the exit protocol."""
    try:
        return fn()
    except TimeBudgetExceeded as e:
        print(f"ANALYSIS-ERROR {e}")
        return 2
    except AnalysisError as e:
        print(f"ANALYSIS-ERROR {e}")
        return 2
    except SystemExit:
        raise
    except BaseException:
        print("ANALYSIS-ERROR internal exception:\n" + traceback.format_exc())
        return 2
