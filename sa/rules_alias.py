"""Alias / shared-object rules A1-A5, A7 (C13, C07, C18).

A4 uses flow-sensitive parameter-mutation summaries over the syntax tree (typed callee
resolution: a presence rule needs the RESOLVED graph); A1/A3/A5/A2 use the abstract interpreter's
heap origins; A7 is a reachability scan over the MAY graph."""
from __future__ import annotations
import ast
from . import pyfacts
from .absval import *
from .report import AnalysisError
from .rules_flow import Flow, circuits_of, API_MODULES

INT_ATTRS = {"num_qubits", "shape", "dtype", "num_vertices", "size", "ndim", "num_clbits", "name", "phase"}
VIEW_ATTRS = {"T", "real", "imag", "flat"}
VIEW_METHODS = {"reshape", "transpose", "view", "ravel", "squeeze", "swapaxes"}
VIEW_FUNCS = {"asarray", "asanyarray", "ascontiguousarray", "atleast_1d", "atleast_2d", "squeeze", "ravel", "reshape", "transpose"}
MUTATORS = {"append", "extend", "insert", "pop", "remove", "sort", "reverse", "clear", "update", "setdefault", "popitem",
            "fill", "put", "resize", "itemset", "partition", "setflags", "add", "discard",
            "measure_all", "measure", "barrier", "reset", "add_register", "remove_final_measurements", "add_bits", "h", "s", "sdg", "x", "y", "z", "cx", "cz", "swap", "cy"}
LIST_ONLY_AMBIGUOUS = {"add", "x", "y", "z", "h", "s"}   # names too short to trust on untyped receivers
PROTECTED_ANN = ("Stabilizer", "Graph", "QuantumCircuit", "ndarray", "Sequence", "List", "Dict", "Result", "Collection", "Tuple[np", "Union")


class Mut:
    """a (possibly conditional) mutation of parameter `param` at `node`; cond = name of the boolean
    parameter that must be truthy, or None"""

    def __init__(self, param, node, func, what, cond=None, via=None, guard=None):
        self.param, self.node, self.func, self.what, self.cond, self.via = param, node, func, what, cond, via
        self.guard = guard      # {param: set of type names} - the mutation happens only when isinstance(param, one of them)


class ParamMutation:
    def __init__(self, prog):
        self.prog = prog
        self.summaries: dict = {}
        self.in_progress = set()

    def summary(self, f):
        if f in self.summaries:
            return self.summaries[f]
        if f in self.in_progress:
            return []
        self.in_progress.add(f)
        saved_f = getattr(self, "f", None)
        try:
            s = self._analyse(f)
        finally:
            self.in_progress.discard(f)
            self.f = saved_f
        self.summaries[f] = s
        return s

    def _analyse(self, f):
        self.f = f
        muts: list[Mut] = []
        types = self.prog.local_types(f)
        env = {p: frozenset([p]) for p in f.params}

        def alias(e, env):
            if isinstance(e, ast.Name):
                return env.get(e.id, frozenset())
            if isinstance(e, ast.Attribute):
                key = _path(e)
                if key is not None and key in env:
                    return env[key]
                if e.attr in INT_ATTRS:
                    return frozenset()
                return alias(e.value, env)
            if isinstance(e, ast.Subscript):
                return alias(e.value, env)
            if isinstance(e, ast.Starred):
                return alias(e.value, env)
            if isinstance(e, ast.IfExp):
                return alias(e.body, env) | alias(e.orelse, env)
            if isinstance(e, ast.BoolOp):
                out = frozenset()
                for v in e.values:
                    out |= alias(v, env)
                return out
            if isinstance(e, (ast.Tuple, ast.List)):
                out = frozenset()
                for v in e.elts:
                    out |= alias(v, env)
                return out
            if isinstance(e, ast.NamedExpr):
                return alias(e.value, env)
            if isinstance(e, ast.Call):
                fn = e.func
                if isinstance(fn, ast.Attribute):
                    if fn.attr in VIEW_METHODS:
                        return alias(fn.value, env)
                    r = self.prog.resolve_call(f, e, types)
                    if r and r[0] == "func":
                        return self._ret_alias(r[1], e, env, alias, self_expr=fn.value if not r[1].is_static and r[1].cls is not None and not _is_class_ref(self.prog, f, fn.value) else None)
                    if r and r[0] == "external" and r[1].split(".")[-1] in VIEW_FUNCS and r[1].startswith("numpy"):
                        return alias(e.args[0], env) if e.args else frozenset()
                    return frozenset()
                r = self.prog.resolve_call(f, e, types)
                if r and r[0] == "func":
                    return self._ret_alias(r[1], e, env, alias)
                return frozenset()
            return frozenset()

        guard_stack = []

        def record(p_set, node, what, cond=None, via=None):
            g = {}
            for (gp, names) in guard_stack:
                g[gp] = set(names) if gp not in g else (g[gp] & set(names))
            if via is not None and via.guard:
                pass
            for p in p_set:
                muts.append(Mut(p, node, f, what, cond, via, guard=dict(g) if g else None))

        def isinstance_guard(test):
            """(param, [type names]) if the test requires isinstance(param, T) (possibly and-ed with more)"""
            tests = test.values if isinstance(test, ast.BoolOp) and isinstance(test.op, ast.And) else [test]
            for t in tests:
                if isinstance(t, ast.Call) and isinstance(t.func, ast.Name) and t.func.id == "isinstance" and len(t.args) == 2 and \
                        isinstance(t.args[0], ast.Name) and t.args[0].id in f.params:
                    tn = t.args[1]
                    names = [ast.unparse(x).split(".")[-1] for x in (tn.elts if isinstance(tn, ast.Tuple) else [tn])]
                    return (t.args[0].id, names)
            return None

        def cond_of(expr):
            """None = unconditional; False = never; str = parameter name"""
            if expr is None:
                return False
            if isinstance(expr, ast.Constant):
                return None if expr.value else False
            if isinstance(expr, ast.Name) and expr.id in f.params:
                return expr.id
            return None

        def visit_calls(node, env):
            for c in ast.walk(node):
                if not isinstance(c, ast.Call):
                    continue
                fn = c.func
                r = self.prog.resolve_call(f, c, types)
                if isinstance(fn, ast.Attribute):
                    recv = alias(fn.value, env)
                    if r and r[0] == "func":
                        g = r[1]
                        self._apply_summary(g, c, env, alias, record, cond_of,
                                            self_expr=None if (g.is_static or _is_class_ref(self.prog, f, fn.value)) else fn.value)
                        continue
                    if fn.attr == "compose":
                        ip = next((k.value for k in c.keywords if k.arg == "inplace"), None)
                        cd = cond_of(ip)
                        if cd is None:
                            # compose(..., inplace=True) in the positive branch of `if <flag parameter>:` is as conditional as
                            # compose(..., inplace=<flag parameter>)
                            cd = _flag_guard(f, c)
                        if cd is not False and recv:
                            record(recv, c, "compose(inplace=...)", cond=cd)
                        continue
                    if fn.attr in MUTATORS and recv:
                        if fn.attr in LIST_ONLY_AMBIGUOUS and not _typed_mutable(types, fn.value):
                            # short gate names / set.add on untyped receivers: only circuits and sets have them
                            record(recv, c, f".{fn.attr}(...)")
                        else:
                            record(recv, c, f".{fn.attr}(...)")
                elif r and r[0] == "func":
                    self._apply_summary(r[1], c, env, alias, record, cond_of)
                elif r and r[0] == "class":
                    init = self.prog.find_method(r[1], "__init__")
                    if init is not None:
                        self._apply_summary(init, c, env, alias, record, cond_of, ctor=True)

        def assign_target(t, val_alias, env, st):
            if isinstance(t, ast.Name):
                env[t.id] = val_alias
            elif isinstance(t, (ast.Tuple, ast.List)):
                for x in t.elts:
                    assign_target(x, val_alias, env, st)
            elif isinstance(t, ast.Starred):
                assign_target(t.value, val_alias, env, st)
            elif isinstance(t, ast.Attribute):
                key = _path(t)
                base = alias(t.value, env)
                is_self_init = f.cls is not None and f.params and isinstance(t.value, ast.Name) and t.value.id == f.params[0]
                if base and not is_self_init:
                    record(base, st, f"attribute store .{t.attr}")
                if key is not None:
                    env[key] = val_alias
            elif isinstance(t, ast.Subscript):
                base = alias(t.value, env)
                if base:
                    record(base, st, "subscript store")

        def run(stmts, env):
            for st in stmts:
                if isinstance(st, (ast.FunctionDef, ast.AsyncFunctionDef, ast.ClassDef)):
                    continue
                if isinstance(st, ast.Assign):
                    visit_calls(st.value, env)
                    va = alias(st.value, env)
                    for t in st.targets:
                        for sub in ast.walk(t):
                            if sub is not t and isinstance(sub, ast.Call):
                                visit_calls(sub, env)
                        assign_target(t, va, env, st)
                elif isinstance(st, ast.AnnAssign):
                    if st.value is not None:
                        visit_calls(st.value, env)
                        assign_target(st.target, alias(st.value, env), env, st)
                elif isinstance(st, ast.AugAssign):
                    visit_calls(st.value, env)
                    t = st.target
                    if isinstance(t, ast.Name):
                        a = env.get(t.id, frozenset())
                        if a and not _int_like(self.prog, f, t.id, types):
                            record(a, st, f"in-place operator {type(st.op).__name__} on an alias of the parameter")
                    elif isinstance(t, ast.Attribute):
                        key = _path(t)
                        a = env.get(key, frozenset()) if key else frozenset()
                        a = a | alias(t.value, env) if not (f.cls is not None and isinstance(t.value, ast.Name) and f.params and t.value.id == f.params[0]) else a
                        if a:
                            record(a, st, f"in-place operator {type(st.op).__name__} on attribute .{t.attr}")
                    elif isinstance(t, ast.Subscript):
                        a = alias(t.value, env)
                        if a:
                            record(a, st, "in-place operator on a subscript")
                elif isinstance(st, (ast.Expr, ast.Return, ast.Raise, ast.Assert, ast.Delete)):
                    visit_calls(st, env)
                    if isinstance(st, ast.Delete):
                        for t in st.targets:
                            if isinstance(t, ast.Subscript):
                                a = alias(t.value, env)
                                if a:
                                    record(a, st, "del subscript")
                elif isinstance(st, ast.If):
                    visit_calls(st.test, env)
                    e1, e2 = dict(env), dict(env)
                    g = isinstance_guard(st.test)
                    if g:
                        guard_stack.append(g)
                    run(st.body, e1)
                    if g:
                        guard_stack.pop()
                    run(st.orelse, e2)
                    _merge(env, e1, e2)
                elif isinstance(st, (ast.For, ast.While)):
                    if isinstance(st, ast.For):
                        visit_calls(st.iter, env)
                        assign_target(st.target, alias(st.iter, env), env, st)
                    else:
                        visit_calls(st.test, env)
                    for _ in range(2):
                        e1 = dict(env)
                        run(st.body, e1)
                        _merge(env, env, e1)
                    run(st.orelse, env)
                elif isinstance(st, ast.Try):
                    e1 = dict(env)
                    run(st.body, e1)
                    outs = [e1]
                    for h in st.handlers:
                        eh = dict(env)
                        run(h.body, eh)
                        outs.append(eh)
                    for o in outs:
                        _merge(env, env, o)
                    run(st.orelse, env)
                    run(st.finalbody, env)
                elif isinstance(st, ast.With):
                    for it in st.items:
                        visit_calls(it.context_expr, env)
                    run(st.body, env)
                else:
                    visit_calls(st, env)

        run(f.node.body, env)
        self._env_after = env
        return muts

    def _static_type(self, expr):
        """annotation base name of a bare parameter of the function under analysis, else None"""
        if isinstance(expr, ast.Name):
            a = self.f.node.args
            for arg in a.posonlyargs + a.args + a.kwonlyargs:
                if arg.arg == expr.id and arg.annotation is not None:
                    t = ast.unparse(arg.annotation)
                    if t.startswith(("Union", "Optional", "typing.Union")):
                        return None
                    return t.split("[")[0].split(".")[-1]
        return None

    def _ret_alias(self, g, call, env, alias, self_expr=None):
        """aliases the value returned by g(call args) may carry: params of g that g returns (syntactic summary)"""
        rp = self._returned_params(g)
        out = frozenset()
        actual = self._bind(g, call, self_expr)
        for p in rp:
            if p in actual:
                out |= alias(actual[p], env)
        return out

    def _returned_params(self, g):
        c = getattr(g, "_ret_params", None)
        if c is not None:
            return c
        g._ret_params = set()
        out = set()
        names = {p: {p} for p in g.params}
        # flow-insensitive: a returned bare name that is a parameter or was assigned from one directly
        direct = {}
        for n in ast.walk(g.node):
            if isinstance(n, ast.Assign) and len(n.targets) == 1 and isinstance(n.targets[0], ast.Name):
                direct.setdefault(n.targets[0].id, []).append(n.value)
        def src(e, depth=0):
            if depth > 4:
                return set()
            if isinstance(e, ast.Name):
                s = set()
                if e.id in g.params:
                    s.add(e.id)
                for v in direct.get(e.id, []):
                    s |= src(v, depth + 1)
                return s
            if isinstance(e, ast.IfExp):
                return src(e.body, depth + 1) | src(e.orelse, depth + 1)
            if isinstance(e, ast.Call) and isinstance(e.func, ast.Name):
                r = self.prog.lookup_global(g.module, e.func.id)
                if r and r[0] == "func" and r[1] is not g:
                    inner = self._returned_params(r[1])
                    b = self._bind(r[1], e, None)
                    s = set()
                    for p in inner:
                        if p in b:
                            s |= src(b[p], depth + 1)
                    return s
            return set()
        for n in ast.walk(g.node):
            if isinstance(n, ast.Return) and n.value is not None:
                out |= src(n.value)
        g._ret_params = out
        return out

    def _bind(self, g, call, self_expr=None, ctor=False):
        params = list(g.params)
        actual = {}
        if (self_expr is not None or ctor) and params:
            if self_expr is not None:
                actual[params[0]] = self_expr
            params = params[1:]
        for i, a in enumerate(call.args):
            if isinstance(a, ast.Starred):
                break
            if i < len(params):
                actual[params[i]] = a
        for k in call.keywords:
            if k.arg in g.params:
                actual[k.arg] = k.value
        return actual

    def _apply_summary(self, g, call, env, alias, record, cond_of, self_expr=None, ctor=False):
        actual = self._bind(g, call, self_expr, ctor)
        for m in self.summary(g):
            if m.param not in actual:
                continue
            a = alias(actual[m.param], env)
            if not a:
                continue
            if m.guard and m.param in m.guard:
                st_type = self._static_type(actual[m.param])
                if st_type is not None and st_type not in m.guard[m.param] and not (st_type in ("Tuple", "tuple") and {"tuple", "Tuple"} & m.guard[m.param]) \
                        and not (st_type in ("List", "list") and {"list", "List"} & m.guard[m.param]):
                    continue    # e.g. the callee mutates only in its `isinstance(data, tuple)` branch and a QuantumCircuit is passed
            cd = None
            if m.cond is not None:
                ce = actual.get(m.cond)
                if ce is None:
                    d = _default_of(g, m.cond)
                    cd = cond_of(d)
                else:
                    cd = cond_of(ce)
                if cd is False:
                    continue
            record(a, call, f"call to {g.qualname} which mutates its parameter `{m.param}` ({m.what})", cond=cd, via=m)


def _default_of(g, pname):
    a = g.node.args
    params = a.posonlyargs + a.args
    defaults = [None] * (len(params) - len(a.defaults)) + list(a.defaults)
    for p, d in zip(params, defaults):
        if p.arg == pname:
            return d
    for p, d in zip(a.kwonlyargs, a.kw_defaults):
        if p.arg == pname:
            return d
    return None


def _is_class_ref(prog, f, expr):
    if isinstance(expr, ast.Name) and expr.id not in prog._locals(f):
        r = prog.lookup_global(f.module, expr.id)
        return bool(r and r[0] in ("class", "module"))
    return False


def _typed_mutable(types, expr):
    return isinstance(expr, ast.Name) and expr.id in types


def _int_like(prog, f, name, types):
    """is local `name` evidently an int/float/str/bool (immutable), judged from its assignments"""
    for n in ast.walk(f.node):
        if isinstance(n, ast.arg) and n.arg == name and n.annotation is not None:
            if ast.unparse(n.annotation) in ("int", "float", "str", "bool"):
                return True
    return False


def _path(e):
    parts = []
    while isinstance(e, ast.Attribute):
        parts.append(e.attr)
        e = e.value
    if isinstance(e, ast.Name):
        parts.append(e.id)
        return ".".join(reversed(parts))
    return None


def _merge(dst, e1, e2):
    keys = set(e1) | set(e2)
    for k in keys:
        dst[k] = e1.get(k, frozenset()) | e2.get(k, frozenset())


def _out_parameters(f):
    """parameters that are accumulators by construction: default None, replaced by a fresh container when None
    (`x = {} if x is None else x` / `if x is None: x = {}`), and RETURNED - writing into a container the caller passed for
    that purpose is the parameter's contract, not a mutation of an input"""
    a = f.node.args
    params = a.posonlyargs + a.args
    defaults = [None] * (len(params) - len(a.defaults)) + list(a.defaults)
    pairs = list(zip(params, defaults)) + list(zip(a.kwonlyargs, a.kw_defaults))
    out = set()
    for p_, d in pairs:
        if not (isinstance(d, ast.Constant) and d.value is None):
            continue
        nm = p_.arg
        fresh = any(isinstance(n, ast.Assign) and any(isinstance(t, ast.Name) and t.id == nm for t in n.targets) and
                    any(isinstance(x, (ast.Dict, ast.List)) or (isinstance(x, ast.Call) and isinstance(x.func, ast.Name) and x.func.id in ("dict", "list")) for x in ast.walk(n.value))
                    for n in ast.walk(f.node))
        returned = any(isinstance(n, ast.Return) and n.value is not None and any(isinstance(x, ast.Name) and x.id == nm for x in ast.walk(n.value)) for n in ast.walk(f.node))
        if fresh and returned:
            out.add(nm)
    return out


def protected_params(f):
    out = []
    a = f.node.args
    allp = a.posonlyargs + a.args + a.kwonlyargs
    outp = _out_parameters(f)
    for i, arg in enumerate(allp):
        if f.cls is not None and not f.is_static and i == 0:
            continue
        if arg.arg in outp:
            continue
        ann = ast.unparse(arg.annotation) if arg.annotation is not None else ""
        if any(k in ann for k in PROTECTED_ANN) or ann == "" and arg.arg in ("other", "value", "data", "circuit", "target", "graph", "stabilizer", "A", "R", "S", "m1", "m2", "c", "counts", "qubits", "measured_qubits", "result", "circuits"):
            out.append(arg.arg)
    return out


def _flag_guard(f, call):
    """name of a boolean parameter whose truth guards `call` (the call sits in the body of `if <param>:`), else None"""
    memo = getattr(f, "_sa_flag_guards", None)
    if memo is None:
        memo = {}

        def rec(stmts, guard):
            for st in stmts:
                for c in ast.walk(st) if not isinstance(st, (ast.If, ast.For, ast.While, ast.With, ast.Try)) else []:
                    if isinstance(c, ast.Call):
                        memo[id(c)] = guard
                if isinstance(st, ast.If):
                    for c in ast.walk(st.test):
                        if isinstance(c, ast.Call):
                            memo[id(c)] = guard
                    g2 = st.test.id if isinstance(st.test, ast.Name) and st.test.id in f.params else guard
                    rec(st.body, g2)
                    rec(st.orelse, guard)
                elif isinstance(st, (ast.For, ast.While)):
                    rec(st.body, guard)
                    rec(st.orelse, guard)
                elif isinstance(st, ast.With):
                    rec(st.body, guard)
                elif isinstance(st, ast.Try):
                    rec(st.body, guard)
                    for h in st.handlers:
                        rec(h.body, guard)
                    rec(st.orelse, guard)
                    rec(st.finalbody, guard)
        rec(f.node.body, None)
        f._sa_flag_guards = memo
    return memo.get(id(call))


EXEMPT = {
    ("graph.Graph.__init__", "data"): "`&= 1` on the caller's int8 matrix is the identity on the documented {0,1} entries (named exemption, DESIGN 4/C13)",
}
OPT_IN = {"inplace"}   # a mutation conditional on a documented opt-in flag of the same public function is the caller's choice


def A4_params(rep, flow: Flow, only=None, modules=None):
    rep.rule("A4", "no public function mutates (subscript/attribute store, in-place operator, mutator call, compose(inplace), transitively through callees) an alias of a protected parameter: stabilizer, matrices, graph, circuit, qubit lists, count dictionaries", floor=1)
    prog = flow.prog
    pm = ParamMutation(prog)
    funcs = []
    if only:
        funcs = [prog.func(fq) for fq in only]
    else:
        for mn in (modules or sorted(prog.modules)):
            m = prog.modules.get(mn)
            if m is None:
                raise AnalysisError(f"module {mn} vanished")
            for f in m.all_funcs:
                if getattr(f, "nested", False):
                    continue
                if f.name.startswith("_") and not (f.name.startswith("__") and f.name.endswith("__")):
                    continue
                if f.cls is not None and f.cls.name.startswith("_"):
                    continue
                funcs.append(f)
    nprot = 0
    for f in funcs:
        prot = protected_params(f)
        if not prot:
            continue
        muts = pm.summary(f)
        for p in prot:
            nprot += 1
            hits = [m for m in muts if m.param == p]
            real = []
            for m in hits:
                if (f.fq, p) in EXEMPT:
                    rep.note(f"A4 exemption {f.fq}({p}): {EXEMPT[(f.fq, p)]}")
                    continue
                if m.cond in OPT_IN:
                    # an opt-in is the caller's choice only if the caller has to ask for it: the flag defaults to False
                    a = f.node.args
                    allp = a.posonlyargs + a.args
                    dflt = None
                    for arg, d in zip(allp[len(allp) - len(a.defaults):], a.defaults):
                        if arg.arg == m.cond:
                            dflt = d
                    for arg, d in zip(a.kwonlyargs, a.kw_defaults):
                        if arg.arg == m.cond:
                            dflt = d
                    if isinstance(dflt, ast.Constant) and dflt.value is False:
                        rep.note(f"A4: {f.fq} mutates `{p}` only when the caller passes {m.cond}=True (documented opt-in, default False)")
                        continue
                    if m.cond in [x.arg for x in allp + a.kwonlyargs]:
                        rep.finding("A4", f"{f.fq}:{p}:opt-out", f"{pyfacts.where(f, m.node)}: parameter `{p}` of {f.qualname} is mutated unless the caller passes {m.cond}=False: the flag defaults to `{ast.unparse(dflt) if dflt is not None else 'no default'}`, a call with default arguments modifies the caller's object [{pyfacts.norm_stmt(m.node)}]")
                        continue
                    rep.note(f"A4: {f.fq} mutates `{p}` only under the flag {m.cond} of a callee (documented opt-in)")
                    continue
                real.append(m)
            if real:
                for m in real:
                    rep.finding("A4", f"{f.fq}:{p}:{pyfacts.norm_stmt(m.node)}",
                                f"{pyfacts.where(f, m.node)}: parameter `{p}` of {f.qualname} is mutated: {m.what} [{pyfacts.norm_stmt(m.node)}]")
            else:
                rep.ok("A4", 1, nontrivial=(f.fq, p), sample=f"{f.fq}({p}): no mutation reaches the parameter")
    rep.analysed["A4 protected parameters examined"] = nprot
    return pm


# ---------------------------------------------------------------------------------------------
MUTABLE_KINDS = {"list", "dict", "circuit"}


def shared_mutables(r, v, depth=0, path="result", seen=None):
    """yield (path, HObj) for every shared mutable object reachable from a returned value"""
    seen = seen if seen is not None else set()
    if isinstance(v, Alt):
        for x in v.vals:
            yield from shared_mutables(r, x, depth, path, seen)
        return
    if not isinstance(v, Ref) or v.oid in seen or depth > 6:
        return
    seen.add(v.oid)
    o = r.heap[v.oid]
    if o.kind in MUTABLE_KINDS:
        if o.shared():
            yield (path, o)
            return
    if o.kind == "record":
        for k, x in o.fields.items():
            yield from shared_mutables(r, x, depth + 1, f"{path}.{k}", seen)
        return
    if o.kind == "tuple" or o.kind in MUTABLE_KINDS:
        if o.items is not None:
            for i, x in enumerate(o.items):
                yield from shared_mutables(r, x, depth + 1, f"{path}[{i}]", seen)
        elif o.elem is not None:
            yield from shared_mutables(r, o.elem, depth + 1, f"{path}[*]", seen)


def A3_A5_shared(rep, flow: Flow, entry_fqs):
    rep.rule("A3", "no value returned by a public function contains a mutable object (list, dict, circuit) that is shared with a cache, a module/class-level binding or a default argument: returned structures are immutable scalars or fresh copies to the depth of their mutable structure", floor=5)
    rep.rule("A5", "the library applies its own mutating operations (gate appends, compose(inplace), container mutators, in-place operators) only to objects allocated in the current call; caches are written only by their loader idiom", floor=2)
    rep.rule("A4i", "along every interpreted path of a public entry point no mutating operation (gate append, compose in place, measure_all, remove_final_measurements, metadata / attribute / item store) reaches a heap object that was passed in by the caller", floor=0)
    rep.rule("A2", "cache keys are complete: every parameter the cached value depends on occurs in the key, whose variable parts are separated by literals", floor=2)
    for fq in entry_fqs:
        f = flow.prog.func(fq)
        rets = [r for r in flow.paths(fq) if r.kind == "return"]
        if not rets:
            continue
        bad = False
        for pi, r in enumerate(rets):
            if isinstance(r.value, Sym) and r.value.tag in ("call", "mcall", "classattr") and not _evidently_immutable(f) \
                    and not _fresh_callee(flow, r.value, set()):
                raise AnalysisError(f"{f.module.rel} {f.qualname} return path #{pi}: the returned value {fmt(vkey(r.value))[:120]} comes out of a callee the interpreter does not model: whether it shares mutable state with a cache cannot be decided")
            for (path, o) in shared_mutables(r, r.value):
                bad = True
                rep.finding("A3", f"{fq}:{path}:{o.origin[1]}", f"{f.module.rel} {f.qualname} return path #{pi}: `{path}` is a {o.kind} shared with {o.origin[1]} (allocated at {o.site}); a caller mutating it changes what later calls return")
            for ef in r.effects:
                _, oid, origin, kind, op, where, stmt, ffq = ef
                if origin[0] == "param" and "A4i" in rep.rules and not (f.cls is not None and f.params and origin[1] == f.params[0]):
                    if origin[1] == "circuit" and f.name.startswith("rotate_stabilizer_into_state"):
                        continue      # documented inplace opt-in of the sign repair itself
                    rep.finding("A4i", f"{fq}:{origin[1]}:{stmt}", f"{where}: `{op}` is applied to an object passed in by the caller (parameter `{origin[1]}` of {f.qualname}) [{stmt}]")
                    bad = True
                if origin[0] != "shared":
                    continue
                if kind == "dict" and op in ("setitem", "setdefault", "pop", "popitem", "clear", "move_to_end", "del[]"):
                    continue   # cache store (checked by A2) or eviction (changes no result)
                rep.finding("A5", f"{ffq}:{stmt}", f"{where}: in-place operation `{op}` on a {kind} shared with {origin[1]} [{stmt}]")
                bad = True
            for ev in r.events:
                if ev[0] == "store-shared":
                    _, what, key, val, where, ffq = ev
                    kk = vkey(key)
                    comps = key_components(kk)
                    cores = {_strip_faithful(c) for c in comps} | set(comps)
                    # a component joined from several branches (one variable, assigned on alternative paths) stands for
                    # whichever alternative was taken: the alternatives themselves are covered by it
                    for c in list(cores):
                        if isinstance(c, tuple) and c and c[0] == "alt":
                            cores |= {x for x in c[1:] if isinstance(x, tuple)}
                    unc = set()
                    allp = set()
                    for vk in _value_keys(r, val):
                        uncovered_params(vk, cores, unc, allp, (r, flow.prog, f))
                    unfaithful = [c for c in comps if _unfaithful(c)]
                    missing = sorted(unc)
                    vparams = allp
                    seps_ok = _separated(kk)
                    prov = _value_prov(r, val)
                    loader_ok = True
                    if unfaithful and not missing:
                        rep.finding("A2", f"{ffq}:{what}:unfaithful", f"{where}: cache key component {fmt(unfaithful[0])} does not determine the object it stands for (e.g. tobytes(order='A') serialises C- and Fortran-ordered arrays differently, so two different matrices can share one key)")
                        bad = True
                        continue
                    if missing:
                        rep.finding("A2", f"{ffq}:{what}:key", f"{where}: the value cached in {what} depends on {missing}, which the key {fmt(kk)[:160]} does not contain as a component of its own (a number READ FROM a table does not identify the table): a later call with other arguments gets this value")
                        bad = True
                    elif not seps_ok:
                        rep.finding("A2", f"{ffq}:{what}:sep", f"{where}: cache key {fmt(kk)} has adjacent variable parts without a literal separator (not injective)")
                        bad = True
                    elif not loader_ok and False:
                        pass   # (a cache key need not be the file name: completeness of the key, A2, is what matters)
                    else:
                        rep.ok("A2", 1, nontrivial=(what, where), sample=f"{what}[{fmt(kk)}] <- value depending on {sorted(vparams)}")
        if not bad:
            rep.ok("A3", len(rets), nontrivial=fq, sample=f"{fq}: {len(rets)} return path(s), no shared mutable reachable from the result")
            rep.ok("A5", 1, nontrivial=fq)
            rep.ok("A4i", 1, nontrivial=fq)


PATH_HEADS = ("param", "attr")


def _is_path(k):
    """a parameter or an attribute chain rooted at a parameter"""
    while isinstance(k, tuple) and k and k[0] == "attr":
        k = k[1]
    return isinstance(k, tuple) and len(k) == 2 and k[0] == "param"


def dep_terms(k, out=None):
    """maximal parameter-rooted access paths a symbolic value depends on.  A value derived from the TEXT of a file
    depends on the parts of the file's NAME (what the text says is determined by which file it is)"""
    out = out if out is not None else set()
    if isinstance(k, tuple) and k:
        if _is_path(k):
            out.add(k)
        elif k[0] == "filetext":
            dep_terms(k[1], out)
        else:
            for x in k[1:]:
                dep_terms(x, out)
    return out


FAITHFUL_WRAPPERS = ("str", "int", "fmt", "m:tobytes", "m:tostring", "m:copy", "m:astype", "builtin:tuple", "builtin:bytes", "call", "mcall")


def key_components(kk):
    if isinstance(kk, tuple) and kk and kk[0] in ("tuple", "fstr"):
        out = []
        for x in kk[1:]:
            out += key_components(x)
        return out
    return [kk]


def _method_shape(c):
    """(receiver, method name, argument keys) of a method-call key in any of its spellings, else None"""
    if isinstance(c, tuple) and c and isinstance(c[0], str):
        if c[0].startswith("m:") and len(c) >= 2:
            return c[1], c[0][2:], c[2:]
        if c[0] == "call" and len(c) >= 2 and isinstance(c[1], tuple) and c[1] and c[1][0] in ("attr", "bound") and len(c[1]) == 3:
            return c[1][1], c[1][2], c[2:]
    return None


def _strip_faithful(c):
    ms = _method_shape(c)
    if ms is not None and ms[1] in ("tobytes", "tostring", "copy", "tolist") and not _unfaithful(c):
        return _strip_faithful(ms[0])
    return _strip_faithful_old(c)


def _strip_faithful_old(c):
    """remove encodings that keep the identity of the encoded object"""
    while isinstance(c, tuple) and c and isinstance(c[0], str):
        if c[0] in ("str", "int", "fmt") and len(c) == 2:
            c = c[1]
        elif c[0] in ("m:tobytes", "m:tostring", "m:copy") and len(c) == 2:
            c = c[1]
        elif c[0] == "call" and len(c) >= 3 and isinstance(c[1], tuple) and c[1] and c[1][0] == "bound" and c[1][2] in ("tobytes", "tostring", "copy") and len(c) == 2:
            c = c[1][1]
        elif c[0] == "call" and len(c) == 2 and isinstance(c[1], tuple) and c[1] and c[1][0] == "bound" and c[1][2] in ("tobytes", "tostring", "copy"):
            c = c[1][1]
        else:
            break
    return c


def _unfaithful(c):
    """encodings known to lose the identity of the encoded object"""
    ms = _method_shape(c)
    if ms is not None and ms[1] == "tobytes" and ms[2]:
        return not all(x == ("const", "str", "C") for x in ms[2])
    if isinstance(c, tuple) and c:
        if c[0] in ("m:tobytes",) and len(c) > 2:
            return not all(x == ("const", "str", "C") for x in c[2:])
        if c[0] == "call" and isinstance(c[1], tuple) and c[1] and c[1][0] == "bound" and c[1][2] == "tobytes" and len(c) > 2:
            return not all(x == ("const", "str", "C") for x in c[2:])
    return False


def covers(c, t):
    """does key component c carry the dependency term t itself (possibly in a faithful encoding)?"""
    core = _strip_faithful(c)
    if core == t:
        return True
    # a whole-parameter dependency is taken as covered by any component rooted at that parameter (finer: undecidable)
    if isinstance(t, tuple) and t[0] == "param" and _is_path(core):
        root = core
        while root[0] == "attr":
            root = root[1]
        return root == t
    # an attribute path is covered by the whole parameter
    if _is_path(t) and isinstance(core, tuple) and core[0] == "param":
        root = t
        while root[0] == "attr":
            root = root[1]
        return root == core
    return False


def _fields_read(prog, fq, cls):
    """names of the instance fields of cls that the closure of the opaque callee fq may read"""
    import ast as _ast
    try:
        f = prog.func(fq)
    except AnalysisError:
        return None
    fields = set()
    for m in cls.methods.values():
        for n in _ast.walk(m.node):
            if isinstance(n, _ast.Attribute) and isinstance(n.ctx, _ast.Store) and isinstance(n.value, _ast.Name) and m.params and n.value.id == m.params[0]:
                fields.add(n.attr)
    attrs = set()
    for g in prog.closure([f], may=True):
        for n in _ast.walk(g.node):
            if isinstance(n, _ast.Attribute) and isinstance(n.ctx, _ast.Load):
                attrs.add(n.attr)
            if isinstance(n, _ast.Call) and _ast.unparse(n.func) in ("getattr", "vars", "copy.copy", "copy.deepcopy", "deepcopy"):
                return None          # reflective access: the read-set is not the set of attribute names
    return attrs & fields


def uncovered_params(k, cores, unc, allp, ctx=None):
    """every occurrence of a parameter in a cached value must lie inside an occurrence of one of the key's
    components (a component stands for itself); what a file's text says is determined by the file's name.
    An object handed WHOLE to a callee the interpreter does not follow is covered when every field of it that the
    callee's closure may read is (faithfully) a component of the key; ctx = (path result, program, entry function)"""
    if not isinstance(k, tuple) or not k:
        return
    if k in cores:
        for p in _leaves(k, "param"):
            allp.add(p[1])
        return
    if k[0] == "call" and len(k) >= 3 and isinstance(k[1], str) and ctx is not None:
        r, prog, entry = ctx
        for x in k[2:]:
            cls, fieldkey = None, None
            if isinstance(x, tuple) and len(x) == 2 and x[0] == "param" and entry is not None:
                a = next((p for p in entry.node.args.posonlyargs + entry.node.args.args + entry.node.args.kwonlyargs if p.arg == x[1]), None)
                cls = prog.ann_class(entry.module, a.annotation) if a is not None and a.annotation is not None else None
                fieldkey = (lambda f, x=x: [("attr", x, f)])
            elif isinstance(x, tuple) and len(x) >= 2 and x[0] == "new" and isinstance(x[1], str):
                objs = [o for o in r.heap.values() if o.kind == "record" and o.cls is not None and o.cls.name == x[1]
                        and ("new", o.cls.name) + tuple(vkey(a) for a in o.meta.get("ctor_args", ())) == x]
                if objs:
                    cls = objs[0].cls
                    fieldkey = (lambda f, o=objs[0]: list(_value_keys(r, o.fields[f])) if f in o.fields else None)
            if cls is None:
                uncovered_params(x, cores, unc, allp, ctx)
                continue
            reads = _fields_read(prog, k[1], cls)
            if reads is None:
                raise AnalysisError(f"cache value passes a {cls.name} object whole to {k[1]}, whose closure accesses objects reflectively: which fields the cached value depends on cannot be decided")
            for f in sorted(reads):
                fks = fieldkey(f)
                if fks is None:
                    raise AnalysisError(f"cache value passes a {cls.name} object whole to {k[1]}, which may read its field .{f}; the field's value is not modelled")
                for fk in fks:
                    if fk in cores:
                        for p in _leaves(fk, "param"):
                            allp.add(p[1])
                        continue
                    if isinstance(fk, tuple) and fk and fk[0] == "attr" and isinstance(fk[1], tuple) and fk[1] and fk[1][0] == "param":
                        # a field of the caller's object that the callee may read and the key does not contain
                        raise AnalysisError(f"the cached value is computed by {k[1]} from the whole `{fk[1][1]}` object; its closure may read `.{f}`, which is not a component of the cache key: whether the value really depends on it is outside A2 (no verdict)")
                    uncovered_params(fk, cores, unc, allp, ctx)
        return
    if k[0] == "param" and len(k) == 2:
        unc.add(k[1])
        allp.add(k[1])
        return
    if k[0] == "filetext":
        uncovered_params(k[1], cores, unc, allp, ctx)
        return
    for x in k[1:]:
        uncovered_params(x, cores, unc, allp, ctx)


def _value_keys(r, v, seen=None, depth=0):
    """symbolic keys of every scalar reachable from a stored value (fields, elements, circuit terms)"""
    seen = seen if seen is not None else set()
    if isinstance(v, Alt):
        for x in v.vals:
            yield from _value_keys(r, x, seen, depth)
    elif isinstance(v, Ref):
        if v.oid in seen or depth > 6:
            return
        seen.add(v.oid)
        o = r.heap[v.oid]
        for x in list(o.fields.values()) + ([o.elem] if o.elem is not None else []) + list(o.items or []):
            yield from _value_keys(r, x, seen, depth + 1)
        if o.kind == "circuit":
            for (leaf, *_r) in t_leaves(o.term):
                if leaf[0] == "tgate":
                    for ft in leaf[3]:
                        yield ("filetext", ft[1])
                elif leaf[0] == "param":
                    yield ("param", leaf[1])
                elif leaf[0] == "mapped":
                    yield leaf[2]
    elif isinstance(v, Sym):
        yield vkey(v)


def _fresh_callee(flow, v, seen):
    """the opaque value is the result of a repository function all of whose return paths hand out objects
    allocated in that very call (nothing shared, nothing passed in)"""
    if not (isinstance(v, Sym) and v.tag == "call" and v.args and isinstance(v.args[0], str)):
        return False
    fq = v.args[0]
    if fq in seen:
        return True
    seen.add(fq)
    try:
        g = flow.prog.func(fq)
        rets = [r for r in flow.paths(fq) if r.kind == "return"]
    except (KeyError, AnalysisError):
        return False
    if g is None or not rets:
        return False
    for r in rets:
        if isinstance(r.value, Const):
            continue
        if isinstance(r.value, Sym):
            if _evidently_immutable(g) or _fresh_callee(flow, r.value, seen):
                continue
            return False
        if not isinstance(r.value, Ref):
            return False
        if r.heap[r.value.oid].origin[0] != "fresh" or any(True for _ in shared_mutables(r, r.value)):
            return False
    return True


def _evidently_immutable(f):
    if f.node.returns is None:
        return False
    a = ast.unparse(f.node.returns).strip("'\"")
    return a.split("[")[0].split(".")[-1] in ("int", "str", "bool", "float", "bytes", "None", "complex")


def _leaves(k, tag, out=None):
    out = out if out is not None else []
    if isinstance(k, tuple) and k:
        if k[0] == tag:
            out.append(k)
        else:
            for x in k[1:]:
                _leaves(x, tag, out)
    return out


def _value_params(r, v, seen=None, depth=0):
    seen = seen if seen is not None else set()
    if isinstance(v, Alt):
        for x in v.vals:
            yield from _value_params(r, x, seen, depth)
    elif isinstance(v, Ref):
        if v.oid in seen or depth > 6:
            return
        seen.add(v.oid)
        o = r.heap[v.oid]
        for x in o.fields.values():
            yield from _value_params(r, x, seen, depth + 1)
        if o.elem is not None:
            yield from _value_params(r, o.elem, seen, depth + 1)
        for x in (o.items or []):
            yield from _value_params(r, x, seen, depth + 1)
        if o.kind == "circuit":
            for (leaf, *_r) in t_leaves(o.term):
                if leaf[0] == "tgate":
                    for ft in leaf[3]:
                        for p in _leaves(ft, "param"):
                            yield p[1]
                elif leaf[0] == "param":
                    yield leaf[1]
    elif isinstance(v, Sym):
        for p in _leaves(vkey(v), "param"):
            yield p[1]


def _value_prov(r, v, seen=None, depth=0):
    seen = seen if seen is not None else set()
    out = set()
    if isinstance(v, Alt):
        for x in v.vals:
            out |= _value_prov(r, x, seen, depth)
    elif isinstance(v, Ref):
        if v.oid in seen or depth > 6:
            return out
        seen.add(v.oid)
        o = r.heap[v.oid]
        for x in list(o.fields.values()) + ([o.elem] if o.elem is not None else []) + list(o.items or []):
            out |= _value_prov(r, x, seen, depth + 1)
    elif isinstance(v, Sym):
        out |= set(v.prov)
    return out


def _separated(kk):
    if isinstance(kk, tuple) and kk and kk[0] == "tuple":
        return all(_separated(x) for x in kk[1:])      # tuples are injective in their components
    if not (isinstance(kk, tuple) and kk and kk[0] == "fstr"):
        return True      # a single value (parameter, attribute, call result) is its own key component
    prev_var = False
    for part in kk[1:]:
        is_var = not (isinstance(part, tuple) and part and part[0] == "const")
        if is_var and prev_var:
            return False
        prev_var = is_var
    return True


# ---------------------------------------------------------------------------------------------
NONDET_CALLS = ("random.", "numpy.random.", "time.", "uuid.", "secrets.", "os.urandom", "os.getpid", "datetime.")


def A7_determinism(rep, flow: Flow, roots):
    rep.rule("A7", "no call into random / numpy.random / time / uuid / secrets, no read of os.environ, no hash()/id() call and no iteration over a set in any function reachable (MAY graph) from a public entry point", floor=20)
    prog = flow.prog
    clo = prog.closure(roots, may=True)
    rep.analysed["A7 closure size"] = len(clo)
    for f in sorted(clo, key=lambda g: g.fq):
        bad = list(nondet_sites(prog, f))
        if bad:
            for (n, why) in bad:
                rep.finding("A7", f"{f.fq}:{pyfacts.norm_stmt(n)}", f"{pyfacts.where(f, n)}: {why} [{pyfacts.norm_stmt(n)}]")
        else:
            rep.ok("A7", 1, nontrivial=f.fq)


def nondet_sites(prog, f):
    loc = prog._locals(f)
    local_imports = {}
    for n in ast.walk(f.node):
        if isinstance(n, ast.Import):
            for a in n.names:
                local_imports[a.asname or a.name.split(".")[0]] = a.name if a.asname else a.name.split(".")[0]
        elif isinstance(n, ast.ImportFrom) and n.level == 0:
            for a in n.names:
                local_imports[a.asname or a.name] = f"{n.module}.{a.name}"
    for n in ast.walk(f.node):
        if isinstance(n, ast.Call):
            fn = n.func
            dotted = None
            if isinstance(fn, ast.Name) and fn.id in local_imports:
                dotted = local_imports[fn.id]
            elif isinstance(fn, ast.Attribute) and ast.unparse(fn).split(".")[0] in local_imports:
                parts = ast.unparse(fn).split(".")
                dotted = local_imports[parts[0]] + "." + ".".join(parts[1:])
            elif isinstance(fn, ast.Name) and fn.id not in loc:
                r = prog.lookup_global(f.module, fn.id)
                if r and r[0] == "external":
                    dotted = r[1]
                if r and r[0] == "builtin" and fn.id == "id":
                    yield (n, "builtin id() depends on the process (object address)")
                if r and r[0] == "builtin" and fn.id == "set" and False:
                    pass
            elif isinstance(fn, ast.Attribute):
                parts = ast.unparse(fn).split(".")
                if parts[0] not in loc:
                    r = prog.lookup_global(f.module, parts[0])
                    if r and r[0] == "external":
                        dotted = r[1] + "." + ".".join(parts[1:])
            if dotted:
                d = dotted.replace("np.random", "numpy.random")
                if any(d.startswith(p) or (".random." in d and d.startswith("numpy")) for p in NONDET_CALLS):
                    yield (n, f"call into a nondeterminism source ({d})")
        elif isinstance(n, ast.Attribute) and n.attr == "environ" and isinstance(n.value, ast.Name) and n.value.id == "os":
            yield (n, "read of os.environ")
    # iteration over set-typed values whose elements are not all integers (string hashing is salted per process)
    sets = SetTypes(prog, f)
    exempt = set()
    for n in ast.walk(f.node):
        # a generator consumed directly by an order-insensitive reducer is harmless
        if isinstance(n, ast.Call) and isinstance(n.func, ast.Name) and n.func.id in ORDER_INSENSITIVE and n.args and \
                isinstance(n.args[0], (ast.GeneratorExp, ast.ListComp, ast.SetComp)):
            for g in n.args[0].generators:
                exempt.add(id(g))
        if isinstance(n, (ast.SetComp,)):
            for g in n.generators:
                exempt.add(id(g))
    for n in ast.walk(f.node):
        if isinstance(n, (ast.For, ast.comprehension)) and id(n) not in exempt:
            if sets.is_set(n.iter):
                yield (n.iter, "iteration over a set of non-integers: the order depends on the per-process hash seed")
        elif isinstance(n, ast.Call) and isinstance(n.func, ast.Name) and n.func.id in ("list", "tuple", "next", "enumerate", "zip") and n.args:
            a0 = n.args[0]
            if isinstance(a0, ast.Call) and isinstance(a0.func, ast.Name) and a0.func.id == "iter" and a0.args:
                a0 = a0.args[0]
            if sets.is_set(a0):
                yield (n, f"{n.func.id}() of a set of non-integers: the order depends on the per-process hash seed")
        elif isinstance(n, ast.Call) and isinstance(n.func, ast.Attribute) and n.func.attr in ("pop",) and not n.args and sets.is_set(n.func.value):
            yield (n, "set.pop() returns an arbitrary element")
        elif isinstance(n, ast.Call) and isinstance(n.func, ast.Attribute) and n.func.attr == "join" and n.args and sets.is_set(n.args[0]):
            yield (n, "str.join over a set: the order depends on the per-process hash seed")


ORDER_INSENSITIVE = {"all", "any", "sum", "set", "frozenset", "sorted", "min", "max", "len"}


class SetTypes:
    """which expressions of a function evidently denote a set with non-integer elements"""

    def __init__(self, prog, f):
        self.prog, self.f = prog, f
        self.local = {}
        loc = prog._locals(f)
        self.loc = loc
        for _ in range(2):
            for n in ast.walk(f.node):
                if isinstance(n, ast.Assign) and len(n.targets) == 1 and isinstance(n.targets[0], ast.Name):
                    if self.is_set(n.value):
                        self.local[n.targets[0].id] = "set"
                    elif self.is_dict_of_sets(n.value):
                        self.local[n.targets[0].id] = "dictofsets"
                elif isinstance(n, (ast.For, ast.comprehension)):
                    it, tg = n.iter, n.target
                    if isinstance(it, ast.Call) and isinstance(it.func, ast.Attribute) and it.func.attr in ("items", "values") and self.is_dict_of_sets(it.func.value):
                        if it.func.attr == "items" and isinstance(tg, ast.Tuple) and len(tg.elts) == 2 and isinstance(tg.elts[1], ast.Name):
                            self.local[tg.elts[1].id] = "set"
                        elif it.func.attr == "values" and isinstance(tg, ast.Name):
                            self.local[tg.id] = "set"

    def _module_value(self, name):
        if name in self.loc:
            return None
        r = self.prog.lookup_global(self.f.module, name)
        if r and r[0] == "var":
            vals = r[1].assigns.get(r[2], [])
            return vals[-1] if vals else None
        return None

    def _nonint_set_literal(self, e):
        if isinstance(e, ast.Set):
            return not all(isinstance(x, ast.Constant) and isinstance(x.value, int) for x in e.elts)
        if isinstance(e, ast.SetComp):
            return True
        if isinstance(e, ast.Call) and isinstance(e.func, ast.Name) and e.func.id in ("set", "frozenset"):
            if e.args and isinstance(e.args[0], ast.Call) and isinstance(e.args[0].func, ast.Name) and e.args[0].func.id == "range":
                return False
            return True
        return False

    def is_dict_of_sets(self, e, depth=0):
        if depth > 4:
            return False
        if isinstance(e, ast.Dict):
            return bool(e.values) and all(self._nonint_set_literal(v) for v in e.values)
        if isinstance(e, ast.Name):
            if self.local.get(e.id) == "dictofsets":
                return True
            mv = self._module_value(e.id)
            return mv is not None and self.is_dict_of_sets(mv, depth + 1)
        return False

    def is_set(self, e, depth=0):
        if depth > 4:
            return False
        if self._nonint_set_literal(e):
            return True
        if isinstance(e, ast.Name):
            if self.local.get(e.id) == "set":
                return True
            mv = self._module_value(e.id)
            return mv is not None and self.is_set(mv, depth + 1)
        if isinstance(e, ast.Subscript):
            return self.is_dict_of_sets(e.value, depth + 1)
        if isinstance(e, ast.Call) and isinstance(e.func, ast.Attribute):
            if e.func.attr in ("union", "intersection", "difference", "symmetric_difference", "copy") and self.is_set(e.func.value, depth + 1):
                return True
            if e.func.attr == "get" and self.is_dict_of_sets(e.func.value, depth + 1):
                return True
            if e.func.attr == "keys":
                return False
        if isinstance(e, ast.BinOp) and isinstance(e.op, (ast.BitOr, ast.BitAnd, ast.Sub, ast.BitXor)):
            return self.is_set(e.left, depth + 1) or self.is_set(e.right, depth + 1)
        return False


def _unused():
    if False:
        yield None
