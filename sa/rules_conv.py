"""Convention rules at the border to the circuit library.

B5  label order: the library's Pauli strings put qubit 0 first, Qiskit's labels put it last; `Stabilizer.to_list` exports
    either order (qiskit_convention).  A list that flows into a Qiskit-order consumer - `Pauli(...)`, `PauliList(...)`,
    `StabilizerState.from_stabilizer_list(...)`, or a repository function that hands its parameter to one of these - must be
    exported with qiskit_convention=True; one that flows into `Stabilizer(...)` must not be.
A9  an empty QuantumCircuit is falsy (its length is 0): a truth-value test of a circuit parameter that guards a raise
    rejects the zero-gate circuit, which prepares |0...0> and is a valid request.
"""
from __future__ import annotations
import ast

from . import pyfacts
from .report import AnalysisError

QISKIT_ORDER_SINKS = {"Pauli", "PauliList", "from_stabilizer_list", "from_label"}
LIBRARY_ORDER_SINKS = {"Stabilizer"}


def _callee_name(c):
    f = c.func
    if isinstance(f, ast.Name):
        return f.id
    if isinstance(f, ast.Attribute):
        return f.attr
    return None


def _to_list_flag(e):
    """None if e is not a `<x>.to_list(...)` call; else True / False / 'unknown' for its qiskit_convention"""
    if not (isinstance(e, ast.Call) and isinstance(e.func, ast.Attribute) and e.func.attr == "to_list"):
        return None
    v = None
    for k in e.keywords:
        if k.arg == "qiskit_convention":
            v = k.value
    if v is None and e.args:
        v = e.args[0]
    if v is None:
        return False
    if isinstance(v, ast.Constant) and isinstance(v.value, bool):
        return v.value
    return "unknown"


def _consumers(prog):
    """repository functions that hand a parameter (as it is) to a Qiskit-order sink: {function: parameter index}"""
    out = {}
    for m in prog.modules.values():
        for f in m.all_funcs:
            for c in ast.walk(f.node):
                if isinstance(c, ast.Call) and _callee_name(c) in QISKIT_ORDER_SINKS and c.args and isinstance(c.args[0], ast.Name) and c.args[0].id in f.params:
                    # the parameter must not be rebound before (a rebinding would be its own flow)
                    if not any(isinstance(a, ast.Assign) and any(isinstance(t, ast.Name) and t.id == c.args[0].id for t in a.targets) for a in ast.walk(f.node)):
                        out[f.name] = (f, f.params.index(c.args[0].id))
    return out


def B5_label_order(rep, flow, roots):
    rep.rule("B5", "label order at the border: a Stabilizer.to_list(...) export that flows into a Qiskit-order consumer (Pauli / PauliList / from_stabilizer_list, or a repository function handing its parameter to one) is made with qiskit_convention=True, one that flows into Stabilizer(...) without it", floor=1)
    prog = flow.prog
    cons = _consumers(prog)
    funcs = prog.closure([prog.func(fq) for fq in roots], may=True)
    for f in sorted(funcs, key=lambda g: g.fq):
        local = {}
        for a in ast.walk(f.node):
            if isinstance(a, ast.Assign) and len(a.targets) == 1 and isinstance(a.targets[0], ast.Name):
                local.setdefault(a.targets[0].id, []).append(a.value)
        for c in [x for x in ast.walk(f.node) if isinstance(x, ast.Call)]:
            nm = _callee_name(c)
            if nm in QISKIT_ORDER_SINKS or nm in LIBRARY_ORDER_SINKS:
                idx, want = 0, (nm in QISKIT_ORDER_SINKS)
            elif nm in cons and isinstance(c.func, ast.Name):
                idx, want = cons[nm][1], True
            else:
                continue
            if len(c.args) <= idx:
                continue
            arg = c.args[idx]
            cands = [arg]
            if isinstance(arg, ast.Name) and arg.id in local and len(local[arg.id]) == 1:
                cands = [local[arg.id][0]]
            for e in cands:
                # the export itself, or a per-element rewrite of it ([p[1:] for p in x.to_list(...)])
                src = e
                if isinstance(e, (ast.ListComp, ast.GeneratorExp)) and len(e.generators) == 1:
                    src = e.generators[0].iter
                    if _to_list_flag(src) is not None and any((isinstance(x, ast.Slice) and x.step is not None) or (isinstance(x, ast.Call) and _callee_name(x) in ("reversed", "reverse")) for x in ast.walk(e.elt)):
                        raise AnalysisError(f"{pyfacts.where(f, c)}: the export feeding `{nm}` is re-ordered element by element [{pyfacts.norm_stmt(c)[:100]}]: which order arrives is not decidable here")
                flag = _to_list_flag(src)
                if flag is None:
                    continue
                if flag == "unknown":
                    raise AnalysisError(f"{pyfacts.where(f, c)}: the order flag of the export feeding `{nm}` is not a constant [{pyfacts.norm_stmt(c)[:100]}]")
                if flag == want:
                    rep.ok("B5", 1, nontrivial=(f.fq, nm, c.lineno), sample=f"{f.qualname}: {pyfacts.norm_stmt(c)[:100]}")
                else:
                    rep.finding("B5", f"{f.fq}:{nm}", f"{pyfacts.where(f, c)}: `{nm}` reads Pauli strings with qubit 0 {'LAST (Qiskit labels)' if want else 'FIRST (library order)'}, but the list it gets is exported with qiskit_convention={flag} [{pyfacts.norm_stmt(c)[:120]}]: every operator is taken for its mirror image")


def A9_circuit_truthiness(rep, flow, roots):
    rep.rule("A9", "no truth-value test of a circuit parameter guards a raise: the zero-gate circuit is falsy (len 0) and is a valid request", floor=0)
    prog = flow.prog
    funcs = prog.closure([prog.func(fq) for fq in roots], may=True)
    for f in sorted(funcs, key=lambda g: g.fq):
        cparams = set()
        a = f.node.args
        for p in a.posonlyargs + a.args + a.kwonlyargs:
            if p.annotation is not None and "QuantumCircuit" in ast.unparse(p.annotation) and "Optional" not in ast.unparse(p.annotation) and "None" not in ast.unparse(p.annotation):
                cparams.add(p.arg)
        if not cparams:
            continue

        def bare_truth(t):
            """names whose truth value (not identity, not comparison) decides t"""
            if isinstance(t, ast.Name):
                return {t.id}
            if isinstance(t, ast.UnaryOp) and isinstance(t.op, ast.Not):
                return bare_truth(t.operand)
            if isinstance(t, ast.BoolOp):
                return set().union(*[bare_truth(v) for v in t.values])
            return set()
        for n in ast.walk(f.node):
            tests = []
            if isinstance(n, (ast.If, ast.While)):
                tests.append((n.test, any(isinstance(x, ast.Raise) for b in (n.body, n.orelse) for st in b for x in ast.walk(st))))
            elif isinstance(n, ast.Assert):
                tests.append((n.test, True))
            for t, guards_raise in tests:
                hit = bare_truth(t) & cparams
                if not hit:
                    continue
                nm = sorted(hit)[0]
                if guards_raise:
                    rep.finding("A9", f"{f.fq}:{nm}", f"{pyfacts.where(f, n)}: `{ast.unparse(t)}` tests the truth value of the circuit parameter `{nm}`; a QuantumCircuit without instructions has length 0 and is falsy, so the zero-gate circuit (a valid preparation of |0...0>) is rejected [{pyfacts.norm_stmt(n)[:100]}]")
                else:
                    raise AnalysisError(f"{pyfacts.where(f, n)}: the truth value of the circuit parameter `{nm}` selects a branch [{ast.unparse(t)}]: the zero-gate circuit takes the other one; whether that branch serves it correctly is not decidable here")
        rep.ok("A9", 1, nontrivial=(f.fq,), sample=f"{f.qualname}: circuit parameter(s) {sorted(cparams)} never tested for truth")


def U1_defined_attributes(rep, flow, modules):
    """every attribute READ through `self` in a class of the given modules is defined somewhere in that class: assigned
    through `self.<name>` (any method), at class level, a method, a property, an annotated field - or the class has a base
    outside the repository / a `__getattr__` / `__slots__` (then nothing is decided for it).  A name that is read but
    never defined is an AttributeError on the first call that reaches the read."""
    rep.rule("U1", "attributes read through `self` are defined in their class (assigned, class-level, method, property or annotated field): no method dies with AttributeError on a renamed or misspelt field", floor=1)
    prog = flow.prog
    for mn in modules:
        m = prog.modules.get(mn)
        if m is None:
            raise AnalysisError(f"module {mn} vanished")
        for c in prog._all_classes(m):
            # classes whose attribute set is not closed: a base that is not a repository class, __getattr__, setattr() games
            chain, todo, open_ = [], [c], False
            while todo:
                k = todo.pop()
                chain.append(k)
                for b in k.bases:
                    bn = b.split("[")[0].split(".")[-1]
                    if bn in ("object", "NamedTuple", "Generic", "Protocol", "ABC"):
                        continue
                    bc = next((x for mm in prog.modules.values() for x in prog._all_classes(mm) if x.name == bn), None)
                    if bc is None:
                        open_ = True
                    else:
                        todo.append(bc)
            # a method of a base class runs on instances of its subclasses: what any repository subclass defines is there too
            subs, grew = [], True
            allc = [x for mm in prog.modules.values() for x in prog._all_classes(mm)]
            while grew:
                grew = False
                for x in allc:
                    if x not in chain and x not in subs and any(b.split("[")[0].split(".")[-1] in {c.name} | {y.name for y in subs} for b in x.bases):
                        subs.append(x)
                        grew = True
            defined = set()
            for k in chain + subs:
                defined |= set(k.methods) | set(k.class_assigns) | set(k.prop_get) | set(k.inner)
                for st in k.node.body:
                    if isinstance(st, ast.AnnAssign) and isinstance(st.target, ast.Name):
                        defined.add(st.target.id)
                    if isinstance(st, (ast.FunctionDef, ast.AsyncFunctionDef, ast.ClassDef)):
                        defined.add(st.name)
                        continue
                    # any other name bound in the class body (tuple targets, loops, imports, with ... as)
                    for x in ast.walk(st):
                        if isinstance(x, ast.Name) and isinstance(x.ctx, ast.Store):
                            defined.add(x.id)
                        elif isinstance(x, ast.alias):
                            defined.add((x.asname or x.name).split(".")[0])
                for n in ast.walk(k.node):
                    if isinstance(n, ast.Attribute) and isinstance(n.ctx, (ast.Store, ast.Del)) and isinstance(n.value, ast.Name) and n.value.id in ("self", "result", "new", "obj", "other", "copy_", "clone"):
                        defined.add(n.attr)
                    if isinstance(n, ast.Call) and isinstance(n.func, ast.Name) and n.func.id in ("setattr", "getattr", "vars") or (isinstance(n, ast.Attribute) and n.attr == "__dict__"):
                        open_ = True
                if "__getattr__" in k.methods or "__slots__" in k.class_assigns:
                    open_ = True
            if open_:
                continue
            for meth in c.methods.values():
                a0 = meth.node.args.posonlyargs + meth.node.args.args
                if meth.is_static or not a0 or a0[0].arg != "self":
                    continue
                for n in ast.walk(meth.node):
                    if isinstance(n, ast.Attribute) and isinstance(n.ctx, ast.Load) and isinstance(n.value, ast.Name) and n.value.id == "self":
                        if n.attr in defined or n.attr.startswith("__"):
                            rep.ok("U1", 1, nontrivial=(c.fq, n.attr))
                        else:
                            rep.finding("U1", f"{c.fq}:{n.attr}", f"{pyfacts.where(meth, n)}: `self.{n.attr}` is read but no method of {c.name} (nor the class body) ever defines `{n.attr}` (defined: {sorted(defined - set(c.methods))[:12]}): the call dies with AttributeError")


def A10_instance_memos(rep, flow, classes=("stabilizer.Stabilizer", "graph.Graph")):
    """objects of these classes are ARGUMENTS of the public API and their defining fields are public (the repository's own
    test helpers overwrite `R`, `S`, the adjacency matrix in place).  A method that stores a derived value on the instance
    and serves it again later (`if self._m is not None: return self._m ... self._m = f(self.R, ...)`) without any method
    ever resetting it makes the answer for one and the same argument state depend on what was asked before."""
    rep.rule("A10", "no method of an argument class (Stabilizer, Graph) serves a value remembered on the instance that was derived from the object's public fields and is never reset", floor=0)
    prog = flow.prog
    for cfq in classes:
        try:
            c = prog.cls(cfq)
        except AnalysisError:
            continue
        public = set()
        for meth in c.methods.values():
            for n in ast.walk(meth.node):
                if isinstance(n, ast.Attribute) and isinstance(n.ctx, ast.Store) and isinstance(n.value, ast.Name) and n.value.id == "self" and not n.attr.startswith("_"):
                    public.add(n.attr)
        for meth in c.methods.values():
            if meth.name == "__init__":
                continue
            stores = {}
            for n in ast.walk(meth.node):
                if isinstance(n, ast.Assign) and len(n.targets) == 1 and isinstance(n.targets[0], ast.Attribute) and isinstance(n.targets[0].value, ast.Name) and n.targets[0].value.id == "self":
                    stores[n.targets[0].attr] = n
            for name, st in stores.items():
                # served early: a return of self.<name> (or of a local read from it) guarded by a test on self.<name>
                served = False
                for iff in [x for x in ast.walk(meth.node) if isinstance(x, ast.If)]:
                    mentions = any((isinstance(a, ast.Attribute) and a.attr == name) or (isinstance(a, ast.Constant) and a.value == name) for a in ast.walk(iff.test))
                    returns = any(isinstance(r, ast.Return) and r.value is not None and any(isinstance(a, ast.Attribute) and a.attr == name for a in ast.walk(r.value)) for r in ast.walk(iff))
                    if mentions and returns and iff.lineno < st.lineno:
                        served = True
                if not served:
                    continue
                # derived from public fields: the stored value, or the locals it is made of, read a public attribute somewhere in the method
                # (the method itself and the methods of the class it calls through self, transitively)
                clo, todo = [], [meth]
                while todo:
                    m0 = todo.pop()
                    if m0 in clo:
                        continue
                    clo.append(m0)
                    for a in ast.walk(m0.node):
                        if isinstance(a, ast.Call) and isinstance(a.func, ast.Attribute) and isinstance(a.func.value, ast.Name) and a.func.value.id == "self" and a.func.attr in c.methods:
                            todo.append(c.methods[a.func.attr])
                reads_public = sorted({a.attr for m0 in clo for a in ast.walk(m0.node) if isinstance(a, ast.Attribute) and isinstance(a.ctx, ast.Load) and isinstance(a.value, ast.Name) and a.value.id == "self" and a.attr in public})
                resets = [m2.name for m2 in c.methods.values() if m2 is not meth and any(
                    (isinstance(x, ast.Assign) and any(isinstance(t, ast.Attribute) and t.attr == name for t in x.targets)) or
                    (isinstance(x, ast.Delete) and any(isinstance(t, ast.Attribute) and t.attr == name for t in x.targets)) for x in ast.walk(m2.node)) and m2.name != "__init__"]
                if not reads_public:
                    continue
                if resets:
                    raise AnalysisError(f"{pyfacts.where(meth, st)}: `self.{name}` is a remembered value derived from {reads_public} and reset in {resets}: whether every change of those fields resets it is not decidable here")
                rep.finding("A10", f"{cfq}.{meth.name}:{name}", f"{pyfacts.where(meth, st)}: {c.name}.{meth.name} remembers its result in `self.{name}` and serves it on every later call; the value is derived from the public field(s) {reads_public}, which callers (and the repository's own helpers) overwrite, and nothing ever resets it: the same object state gives different answers depending on what was asked before")
            rep.ok("A10", 1, nontrivial=(cfq, meth.name))


def W15_flag_forwarding(rep, flow, module="tomography", flag="full_hilbert_space"):
    """a mode flag that a method takes and that the methods it calls take under the same name is handed on: a call that
    leaves it out runs the callee in its default mode whatever the caller asked for"""
    rep.rule("W15", f"every method of the tomography module that takes `{flag}` hands it on to each callee that takes `{flag}` too", floor=2)
    prog = flow.prog
    m = prog.modules.get(module)
    if m is None:
        raise AnalysisError(f"module {module} vanished")
    takers = {}
    for f in m.all_funcs:
        if flag in f.params:
            takers.setdefault(f.name, []).append(f)
    for f in m.all_funcs:
        if flag not in f.params:
            continue
        for c in [x for x in ast.walk(f.node) if isinstance(x, ast.Call)]:
            nm = c.func.attr if isinstance(c.func, ast.Attribute) else (c.func.id if isinstance(c.func, ast.Name) else None)
            if nm not in takers:
                continue
            cal = takers[nm][0]
            pos = [p for p in cal.params if p != "self"].index(flag)
            given = next((k.value for k in c.keywords if k.arg == flag), None)
            if given is None and len(c.args) > pos and not any(isinstance(a, ast.Starred) for a in c.args):
                given = c.args[pos]
            if given is None and (any(k.arg is None for k in c.keywords) or any(isinstance(a, ast.Starred) for a in c.args)):
                raise AnalysisError(f"{pyfacts.where(f, c)}: `{flag}` may travel in a star-argument [{pyfacts.norm_stmt(c)[:80]}]")
            if given is None:
                rep.finding("W15", f"{f.fq}:{nm}", f"{pyfacts.where(f, c)}: {f.qualname} takes `{flag}` but calls `{nm}` without it [{pyfacts.norm_stmt(c)[:100]}]: the callee runs with its default whatever the caller asked for")
            elif isinstance(given, ast.Name) and given.id == flag:
                rep.ok("W15", 1, nontrivial=(f.fq, nm, c.lineno), sample=f"{f.qualname} -> {nm}({flag}={flag})")
            elif isinstance(given, ast.Constant):
                rep.finding("W15", f"{f.fq}:{nm}", f"{pyfacts.where(f, c)}: {f.qualname} takes `{flag}` but calls `{nm}` with the constant {given.value!r} [{pyfacts.norm_stmt(c)[:100]}]")
            else:
                raise AnalysisError(f"{pyfacts.where(f, c)}: `{flag}` is handed on as `{ast.unparse(given)[:60]}`: not decidable here")


CONNECTIVITY_NAMES = ("all", "linear", "star", "cycle", "T", "Q", "E", "H", "ladder")


def W16_positional_connectivity(rep, flow, tree, api_modules=("stabilizer_circuits", "mub_circuits", "tomography", "connectivity_support")):
    """the project's own usage (README code blocks, examples/, tests/) passes connectivity names POSITIONALLY; each such
    argument must land on the parameter called `connectivity` of the function it is passed to - a parameter inserted in
    front of it silently turns `f(x, "T")` into a request for the default connectivity"""
    rep.rule("W16", "a connectivity name passed positionally in the README, the examples or the tests binds to the callee's `connectivity` parameter", floor=5)
    prog = flow.prog
    api = {}
    for mn in api_modules:
        m = prog.modules.get(mn)
        if m is None:
            continue
        for f in m.funcs.values():
            if not f.name.startswith("_") and "connectivity" in f.params:
                api[f.name] = f
    sources = []
    if tree.exists("README.md"):
        text = tree.read("README.md")
        import re as _re
        for i, blk in enumerate(_re.findall(r"```(?:py|python)\n(.*?)```", text, flags=_re.S)):
            sources.append((f"README.md code block {i + 1}", blk))
    for d in ("examples", "tests"):
        for rel in tree.glob(d, "*.py"):
            sources.append((rel, tree.read(rel)))
    for (where_, text) in sources:
        try:
            mod = ast.parse(text)
        except SyntaxError:
            continue
        for c in [x for x in ast.walk(mod) if isinstance(x, ast.Call)]:
            nm = c.func.attr if isinstance(c.func, ast.Attribute) else (c.func.id if isinstance(c.func, ast.Name) else None)
            if nm not in api or any(isinstance(a, ast.Starred) for a in c.args):
                continue
            f = api[nm]
            for idx, a in enumerate(c.args):
                if isinstance(a, ast.Constant) and isinstance(a.value, str) and a.value in CONNECTIVITY_NAMES:
                    bound = f.params[idx] if idx < len(f.params) else None
                    if bound == "connectivity":
                        rep.ok("W16", 1, nontrivial=(where_, nm, getattr(c, "lineno", 0)))
                    else:
                        rep.finding("W16", f"{f.fq}:{idx}", f"{f.module.rel} {f.qualname}: the documented call `{ast.unparse(c)[:90]}` ({where_}, line {getattr(c, 'lineno', '?')}) passes the connectivity {a.value!r} as positional argument {idx + 1}, which the signature binds to `{bound}`; `connectivity` keeps its default and the request is served for another coupling map")
