"""Rules over the abstract interpreter's results: P1-P6 (circuit terms), G2 (served set),
K2/W8 (reader wiring), W1-W3/W9 (tomography wiring), A1/A3/A5 (shared objects)."""
from __future__ import annotations
import ast
from . import absint, pyfacts, spec
from .absval import *
from .report import AnalysisError

GATE_FQ = "connectivity_support.assert_connectivity_is_supported"
API_MODULES = ["stabilizer_circuits", "mub_circuits", "tomography"]
ACCESSOR_MODULE = "circuit_lookup"

SELF_INVERSE = {"HGate", "XGate", "YGate", "ZGate", "CXGate", "CZGate", "CYGate", "SwapGate", "IGate", "CCXGate", "CSwapGate"}
INVERSE_PAIRS = {frozenset(p) for p in (("SGate", "SdgGate"), ("TGate", "TdgGate"), ("SXGate", "SXdgGate"))}
ONE_QUBIT_CLASSES = {"HGate", "XGate", "YGate", "ZGate", "IGate", "SGate", "SdgGate", "TGate", "TdgGate", "SXGate", "SXdgGate"}
TWO_QUBIT_CLASS_TO_MNEMONIC = {"CXGate": "cx", "CZGate": "cz", "SwapGate": "swap"}
GATE1_INV = {"h": "h", "x": "x", "y": "y", "z": "z", "s": "sdg", "sdg": "s", "id": "id", "i": "i", "t": "tdg", "tdg": "t", "sx": "sxdg", "sxdg": "sx"}


class Flow:
    def __init__(self, tree, prog=None):
        self.tree = tree
        self.prog = prog or pyfacts.Program(tree)
        self._paths = {}

    def describe(self, rep):
        """what was parsed: modules, functions, call sites and how many of them resolve"""
        prog = self.prog
        nf = sum(len(m.all_funcs) for m in prog.modules.values())
        tot = res = 0
        for m in prog.modules.values():
            for f in m.all_funcs:
                for call, r in prog.call_sites(f):
                    tot += 1
                    if r is not None and r[0] != "method?":
                        res += 1
        rep.analysed["python source"] = {"modules": len(prog.modules), "functions (incl. methods, nested)": nf,
                                         "classes": sum(len(prog._all_classes(m)) for m in prog.modules.values()),
                                         "call sites": tot, "call sites resolved statically (rest: methods of untyped receivers = str/list/numpy/Qiskit objects)": res}
        if len(prog.modules) < 12 or nf < 150:
            raise AnalysisError(f"only {len(prog.modules)} modules / {nf} functions parsed: the package has shrunk below what was confirmed by hand (13 modules, 189 functions)")

    def paths(self, fq):
        if fq not in self._paths:
            f = self.prog.func(fq)
            self._paths[fq] = absint.run_entry(self.prog, f, absint.default_args)
        return self._paths[fq]

    def public_functions(self, modules):
        out = []
        for mn in modules:
            m = self.prog.modules.get(mn)
            if m is None:
                raise AnalysisError(f"anchor module {mn} vanished")
            out += [f for f in m.funcs.values() if not f.name.startswith("_")]
        return out

    def circuit_entries(self):
        """public module-level functions of the API modules that return a circuit or a list of circuits"""
        out = []
        for f in self.public_functions(API_MODULES):
            rs = [r for r in self.paths(f.fq) if r.kind == "return"]
            if any(list(circuits_of(r.describe())) for r in rs):
                out.append(f)
        return out


def circuits_of(d, depth=0):
    """yield ('circuit', origin, term) descriptions reachable from a returned value description"""
    if not isinstance(d, tuple) or not d or depth > 6:
        return
    if d[0] == "circuit":
        yield d
    elif d[0] in ("list", "tuple", "dict"):
        x = d[2]
        if isinstance(x, tuple) and x and isinstance(x[0], tuple):
            for y in x:
                yield from circuits_of(y, depth + 1)
        else:
            yield from circuits_of(x, depth + 1)
    elif d[0] == "alt":
        for y in d[1:]:
            yield from circuits_of(y, depth + 1)


def file_pattern(tag):
    """('file', key-of-filename) -> (kind, Nkey, Ckey) or None if the name is not kind{N}-{C}.txt"""
    k = tag[1]
    if isinstance(k, tuple) and k and k[0] == "fstr" and len(k) == 6:
        a, n, b, c, d = k[1:]
        if a[0] == "const" and b == ("const", "str", "-") and d == ("const", "str", ".txt") and a[2] in ("stabilizer", "mub"):
            return (a[2], n, c)
    return None


def key_leaves(k, out=None):
    """leaves of a value key: ('param', name) and ('const', type, v) nodes"""
    out = out if out is not None else []
    if isinstance(k, tuple) and k:
        if k[0] in ("param", "const"):
            out.append(k)
        else:
            for x in k[1:]:
                key_leaves(x, out)
    return out


def conn_param(f):
    for p in f.params:
        if p == "connectivity":
            return p
    return None


def own_N(nkey):
    """N is the caller's own qubit count: derived from parameters only - no arithmetic on it and no
    free-standing integer constant (constant subscripts such as .shape[0] are fine)"""
    def has_arith(k):
        if isinstance(k, tuple) and k:
            if isinstance(k[0], str) and k[0].startswith(("bin", "un")):
                return True
            return any(has_arith(x) for x in k[1:])
        return False
    lv = key_leaves(nkey)
    if isinstance(nkey, tuple) and nkey and nkey[0] == "const":
        return False
    return bool(lv) and any(x[0] == "param" for x in lv) and not has_arith(nkey)


def norm_term(t, inv=0, ids=None):
    """push inversion to the leaves, drop instance numbering differences (by order of appearance)"""
    ids = ids if ids is not None else {}
    h = t[0]
    if h == "seq":
        parts = [norm_term(x, inv, ids) for x in (reversed(t[1]) if inv else t[1])]
        return t_seq(*parts) if parts else t_empty()
    if h == "star":
        return ("star", frozenset(norm_term(x, inv, ids) for x in t[1]))
    if h == "inv":
        return norm_term(t[1], inv ^ 1, ids)
    if h == "cancel":
        return ("cancel", norm_term(t[1], inv, ids), t[2])
    if h == "mapped":
        return ("mapped", norm_term(t[1], inv, ids), t[2])
    if h == "emit":
        g = t[1]
        if inv and t[2] == 1:
            g = GATE1_INV.get(g, g + "^-1")
        return ("emit", g, t[2])
    if h == "tgate":
        inst = ids.setdefault(t[4], len(ids))
        return ("tgate", t[1], t[2], t[3], inst, inv)
    if inv:
        return ("inv", t)
    return t


# ---------------------------------------------------------------------------------------------
def P_rules(rep, flow: Flow, which=("P1", "P2", "P3")):
    """two-qubit gate origin / single-qubit side layers / qubit-list mapping"""
    entries = flow.circuit_entries()
    if "P1" in which:
        rep.rule("P1", "every leaf of an API result term able to carry a multi-qubit gate is a table gate of the file {kind}{N}-{C}.txt with N the caller's own qubit count and C the caller's connectivity argument, or (tomography) the caller's own preparation circuit", floor=6)
    if "P2" in which:
        rep.rule("P2", "every gate emitted by glue code (layer->gates, sign layer, anything not read from a table) has arity 1", floor=2)
    if "P3" in which:
        rep.rule("P3", "when a qubit list is given, the table part of the result is composed with qubits= bound to that list through order-preserving identity conversions only", floor=2)
    rep.analysed["circuit-returning API entry points"] = [f.fq for f in entries]
    for f in entries:
        cp = conn_param(f)
        rets = [r for r in flow.paths(f.fq) if r.kind == "return"]
        for pi, r in enumerate(rets):
            cs = list(circuits_of(r.describe()))
            if not cs:
                raise AnalysisError(f"{f.module.rel} {f.qualname} return path #{pi}: the returned value ({fmt(r.describe())[:100]}) is not a circuit the interpreter can model: its gates are unknown")
            for (_, origin, term) in cs:
                check_term(rep, flow, f, cp, pi, r, term, which)


def _evidently_foreign_file(tag):
    """the file name is a constant, or mentions neither a qubit count nor the connectivity parameter: evidently not the
    requested table"""
    k = tag[1]
    leaves = key_leaves(k)
    params = [x for x in leaves if x[0] == "param"]
    return not params or not any(x[1] == "connectivity" for x in params)


def check_term(rep, flow, f, cp, pi, r, term, which):
    where = f"{f.module.rel} {f.qualname} return path #{pi}"
    list_params = [p for p in f.params if p in ("measured_qubits", "qubits")]
    for (leaf, inv, mapped, star, cancel) in t_leaves(term):
        h = leaf[0]
        if h == "unknown":
            raise AnalysisError(f"{where}: result term contains an unmodelled part: {leaf[1]}")
        if h == "tgate":
            gate, arity, files = leaf[1], leaf[2], leaf[3]
            pats = [file_pattern(t) for t in files]
            if arity >= 2 and "P1" in which:
                if len(pats) == 1 and pats[0] is None and not _evidently_foreign_file(files[0]):
                    # a file name built in a way the pattern matcher does not know (a helper, another formatting idiom):
                    # which table it names cannot be decided
                    raise AnalysisError(f"{where}: two-qubit gate {gate} is read from a file whose name {fmt(files[0][1])[:160]} is outside the recognised patterns: whether it is the requested table cannot be decided")
                if len(pats) != 1 or pats[0] is None:
                    rep.finding("P1", f"{f.fq}:{gate}:file-pattern", f"{where}: two-qubit gate {gate} read from {files!r}, not from a single table file named kind{{N}}-{{C}}.txt", {"term": t_fmt(term)})
                    continue
                kind, nk, ck = pats[0]
                if cp is None or ck != ("param", cp):
                    verdict, why = foreign_table_verdict(flow, f, cp, r, kind, nk, ck)
                    if verdict == "undecidable":
                        raise AnalysisError(f"{where}: {why}")
                    if verdict == "contained":
                        rep.ok("P1", 1, nontrivial=(f.fq, pi, gate, "contained"), sample=f"{f.qualname} path #{pi}: {why}")
                        continue
                    rep.finding("P1", f"{f.fq}:{gate}:connectivity", f"{where}: two-qubit gate {gate} is taken from table connectivity {fmt(ck)} instead of the caller's `connectivity` argument: {why}", {"term": t_fmt(term)})
                elif not own_N(nk):
                    rep.finding("P1", f"{f.fq}:{gate}:qubits", f"{where}: two-qubit gate {gate} is taken from the table for N = {fmt(nk)}, which is not the caller's own qubit count", {"term": t_fmt(term)})
                else:
                    rep.ok("P1", 1, nontrivial=(f.fq, pi, gate), sample=f"{f.qualname} path #{pi}: {gate}/2 from {kind}{{{fmt(nk)}}}-{{{fmt(ck)}}}.txt")
            if "P3" in which and list_params and arity >= 2:
                lp = list_params[0]
                given = r.decisions.get(("isnone", ("param", lp)))
                if given is False or given is None:
                    # the list is given (or may be): the leaf must be mapped exactly once through it
                    if len(mapped) == 1 and mapped[0] == ("param", lp):
                        rep.ok("P3", 1, nontrivial=(f.fq, pi, gate), sample=f"{f.qualname} path #{pi}: {gate} mapped through {lp}")
                    else:
                        rep.finding("P3", f"{f.fq}:{gate}:mapping", f"{where}: with `{lp}` given, table gate {gate} is composed with qubits={[fmt(m) for m in mapped] or None} instead of exactly the caller's list", {"term": t_fmt(term)})
                elif mapped:
                    rep.finding("P3", f"{f.fq}:{gate}:mapping", f"{where}: `{lp}` is None but table gate {gate} is mapped through {[fmt(m) for m in mapped]}", {"term": t_fmt(term)})
                else:
                    rep.ok("P3", 1, nontrivial=(f.fq, pi, gate, "none"))
        elif h == "emit":
            if leaf[2] >= 2 and ("P1" in which or "P2" in which):
                verdict, why = glue_two_qubit_verdict(f, cp, r, leaf)
                if verdict == "undecidable":
                    raise AnalysisError(f"{where}: {why}")
                if verdict == "always-coupled":
                    rep.note(f"{where}: {why}")
                    continue
                for rid in ("P2", "P1"):
                    if rid in which:
                        rep.finding(rid, f"{f.fq}:emit:{leaf[1]}", f"{where}: glue code emits the {leaf[2]}-qubit gate {leaf[1]} (not read from a table): {why}", {"term": t_fmt(term)})
            elif "P2" in which:
                rep.ok("P2", 1, nontrivial=(f.fq, leaf[1]), sample=f"{f.qualname}: emits {leaf[1]}/1")
        elif h == "param":
            if "P1" in which:
                if f.module.name == "tomography" and leaf[1] == "preparation_circuit" and not mapped and not inv:
                    rep.ok("P1", 1, nontrivial=(f.fq, pi, "param"))
                else:
                    rep.finding("P1", f"{f.fq}:param:{leaf[1]}", f"{where}: the caller's circuit `{leaf[1]}` is part of the returned circuit (its gates obey no connectivity and no cost bound)", {"term": t_fmt(term)})
        elif h in ("measure",):
            pass
        elif h == "opaque":
            raise AnalysisError(f"{where}: opaque circuit in result: {leaf[1]}")
        else:
            raise AnalysisError(f"{where}: unknown term leaf {leaf!r}")


def _pure_table_field(k):
    """is the string handed to the loader exactly a field of a table line (not a transformed copy of it)"""
    return isinstance(k, tuple) and len(k) >= 4 and k[0] == "field" and isinstance(k[1], tuple) and k[1] and k[1][0] in ("part", "field") and \
        isinstance(k[1][1], tuple) and k[1][1] and k[1][1][0] == "filetext"


def foreign_table_verdict(flow, f, cp, r, kind, nk, ck):
    """the table read on this path is not the one named by the caller's connectivity argument.
    'violation'   - every request is served from a fixed other table (no condition on the connectivity), or the
                    request is pinned to connectivity X and the other table has a two-qubit token outside E(n, X)
    'contained'   - request pinned to X, tokens reach the gates untransformed, and every two-qubit token of the
                    other table lies on an edge of (n, X) (serving a sparser table is connectivity-safe)
    'undecidable' - the circuit text is transformed before it is parsed (e.g. qubits relabelled), or the
                    relation between request and table is not a pinned constant"""
    from . import tables as tb
    from .rules_gate import find_loader
    loaders = find_loader(flow)
    for ev in r.events:
        if ev[0] == "call" and ev[1] in loaders:
            sk = [vkey(a) for a in ev[2][1:2]]
            if sk and not _pure_table_field(sk[0]):
                return "undecidable", (f"the circuit text of table connectivity {fmt(ck)} is transformed ({fmt(sk[0])[:80]}...) before it is parsed at {ev[4]}: "
                                       "whether the transformed operands are coupled in the requested connectivity is not visible in the shape of the code")
    if not (isinstance(ck, tuple) and ck and ck[0] == "const"):
        return "undecidable", f"the table connectivity {fmt(ck)} is neither the caller's argument nor a constant"
    cprime = ck[2]
    pinned = [k[1][2][2] if k[1][1] == ("param", cp) else k[1][1][2] for k, v in r.decisions.items()
              if isinstance(k, tuple) and k[0] == "truth" and isinstance(k[1], tuple) and k[1] and k[1][0] == "cmpEq" and v is True and
              ((k[1][1] == ("param", cp) and isinstance(k[1][2], tuple) and k[1][2][:1] == ("const",)) or (k[1][2] == ("param", cp) and isinstance(k[1][1], tuple) and k[1][1][:1] == ("const",)))]
    if not pinned:
        if cp is not None and any(_mentions(k, ("param", cp)) for k in r.decisions):
            return "undecidable", f"the path depends on `{cp}` in a way that does not pin it to a constant"
        return "violation", f"every request on this path is served from the {cprime!r} table, whatever connectivity was asked for"
    X = pinned[0]
    T = flow.__dict__.get("_tables")
    if T is None:
        from .rules_tables import Tables
        T = flow.__dict__["_tables"] = Tables(flow.tree)
    for tf in T.files:
        if tf.kind != kind or tf.conn != cprime:
            continue
        try:
            E = spec.edges(tf.n, X)
        except KeyError:
            continue
        if (tf.n, X) not in spec.ADVERTISED:
            continue
        for L in tf.lines:
            for o in L.ops:
                if o.two and frozenset(o.qubits) not in E:
                    return "violation", f"requests for ({tf.n}, {X!r}) are served from {tf.name}, whose line {L.index} uses ({o.qubits[0]},{o.qubits[1]}) - not an edge of ({tf.n}, {X!r})"
    return "contained", f"requests for {X!r} are served from the {cprime!r} table, all of whose two-qubit tokens lie on edges of the requested connectivity"


def _mentions(k, target):
    """does key k mention `target` - other than as part of a table file's NAME (a value read from the table of the
    requested connectivity depends on the connectivity, but is no check against the coupling graph)"""
    if k == target:
        return True
    if isinstance(k, tuple):
        if k and k[0] in ("filetext",):
            return False
        return any(_mentions(x, target) for x in k)
    return False


def glue_two_qubit_verdict(f, cp, r, leaf):
    """a multi-qubit gate appended by glue code (not read from a table):
    'always-coupled'  constant operands that are an edge of every advertised configuration large enough
    'violation'       the emission does not depend on the connectivity at all -> some configuration lacks the pair
    'undecidable'     the path to the emission is conditioned on the connectivity (a run-time check decides)"""
    gate = leaf[1]
    ops = [ev for ev in r.events if ev[0] == "glue-2q" and ev[1] == gate]
    if leaf[2] > 2:
        return "violation", "a gate on more than two qubits"
    const_pairs = []
    all_const = bool(ops)
    for ev in ops:
        ks = ev[2]
        if len(ks) == 2 and all(isinstance(k, tuple) and k and k[0] == "const" and isinstance(k[2], int) for k in ks):
            const_pairs.append((ks[0][2], ks[1][2], ev[3]))
        else:
            all_const = False
    if all_const:
        for (a, b, w) in const_pairs:
            for (n, c) in spec.ADVERTISED:
                if n > max(a, b) and frozenset((a, b)) not in spec.edges(n, c):
                    return "violation", f"({a},{b}) emitted at {w} is not an edge of ({n}, {c!r})"
        return "always-coupled", f"{gate} on the constant pair(s) {[(a, b) for a, b, _ in const_pairs]} is an edge of every advertised configuration"
    if cp is not None and any(_mentions(k, ("param", cp)) for k in r.decisions):
        return "undecidable", (f"a {gate} gate is appended outside the tables on a path whose conditions depend on `{cp}` "
                               f"({'; '.join(ev[3] for ev in ops[:2])}): whether its operands are coupled is decided by a run-time check, not by the shape of the code")
    return "violation", f"its operands ({'; '.join(fmt(k) for ev in ops[:1] for k in ev[2])}) do not depend on the requested connectivity"


def core_without_sign_layer(t, both_ends=False):
    """strip the leading (and, on request, trailing) blocks of Pauli gates that are not inside Cancel: the sign layer"""
    if t[0] == "seq":
        parts = list(t[1])
        while parts and _only_1q_emits(parts[0]):
            parts.pop(0)
        while both_ends and parts and _only_1q_emits(parts[-1]):
            parts.pop()
        return t_seq(*parts) if parts else t_empty()
    return t


PAULI_GATES = {"x", "y", "z", "id", "i"}


def _only_1q_emits(t):
    """a block of Pauli gates only: the sign layer (Paulis change signs, never the group)"""
    if t[0] == "emit":
        return t[2] == 1 and t[1] in PAULI_GATES
    if t[0] == "star":
        return all(x[0] == "emit" and x[2] == 1 and x[1] in PAULI_GATES for x in t[1])
    return False


def P4_inverse(rep, flow: Flow, prep_fq="stabilizer_circuits.get_preparation_circuit", ro_fq="stabilizer_circuits.get_readout_circuit", modulo_paulis=False):
    rep.rule("P4", "the readout term is exactly the inverse (once) of the sign-free core of the preparation term" +
             (" - up to layers of Pauli gates at either end (they flip signs, which the fitter recomputes from the stored circuit)" if modulo_paulis else ""), floor=1)
    preps = [r for r in flow.paths(prep_fq) if r.kind == "return"]
    ros = [r for r in flow.paths(ro_fq) if r.kind == "return"]
    if not preps or not ros:
        raise AnalysisError("no return path for preparation or readout API")
    cores = set()
    for r in preps + ros:
        if not list(circuits_of(r.describe())):
            raise AnalysisError(f"a return path of the preparation / readout API returns a value the interpreter cannot model ({fmt(r.describe())[:100]})")
    for r in preps:
        for (_, _, term) in circuits_of(r.describe()):
            cores.add(norm_term(core_without_sign_layer(term, both_ends=modulo_paulis)))
    ro_f = flow.prog.func(ro_fq)
    for pi, r in enumerate(ros):
        for (_, _, term) in circuits_of(r.describe()):
            unk = [leaf for (leaf, *_x) in t_leaves(term) if leaf[0] == "unknown"]
            if unk:
                raise AnalysisError(f"{ro_f.module.rel} {ro_f.qualname} return path #{pi}: the readout term contains an unmodelled part ({unk[0][1][:140]}): whether it still is the inverse of the preparation cannot be decided")
            got = norm_term(t_inv(term))
            if modulo_paulis:
                got = norm_term(core_without_sign_layer(got, both_ends=True))
            if got in cores:
                rep.ok("P4", 1, nontrivial=(ro_fq, pi), sample=f"readout = Inv({t_fmt(core_without_sign_layer(term) if False else t_inv(term))[:160]})")
            else:
                par = {inv for (leaf, inv, *_rest) in t_leaves(term) if leaf[0] == "tgate"}
                rep.finding("P4", f"{ro_fq}:inverse", f"{ro_f.module.rel} {ro_f.qualname} return path #{pi}: the readout term is not the inverse of the sign-free preparation term (table part has inversion parity {sorted(par)}, must be [1])",
                            {"readout": t_fmt(term), "preparation cores": [t_fmt(c) for c in cores]})


def P5_cancel_list(rep, flow: Flow, fqs):
    rep.rule("P5", "every element of a gate list given to InverseCancellation is a self-inverse gate class or a pair of mutually inverse classes", floor=1)
    seen = set()
    for fq in fqs:
        for r in flow.paths(fq):
            if r.kind != "return":
                continue
            for (_, _, term) in circuits_of(r.describe()):
                for (leaf, inv, mapped, star, cancel) in t_leaves(term):
                    for cl in cancel:
                        if cl in seen:
                            continue
                        seen.add(cl)
                        for g in cl:
                            if isinstance(g, tuple):
                                okp = len(g) == 2 and (frozenset(g) in INVERSE_PAIRS or (g[0] == g[1] and g[0] in SELF_INVERSE))
                                if not okp:
                                    rep.finding("P5", f"cancel:{g}", f"cancellation list {cl}: {g} is not a pair of mutually inverse gates")
                                else:
                                    rep.ok("P5", 1, nontrivial=g)
                            elif g in SELF_INVERSE:
                                rep.ok("P5", 1, nontrivial=g, sample=f"InverseCancellation list {list(cl)}")
                            elif isinstance(g, str) and g.startswith("?"):
                                raise AnalysisError(f"cancellation pass list not resolvable: {g}")
                            else:
                                rep.finding("P5", f"cancel:{g}", f"cancellation list {list(cl)} names {g}, which is not self-inverse: removing adjacent pairs of it changes the unitary")
    return seen


def P6_conservation(rep, flow: Flow, fqs, tables=None):
    rep.rule("P6", "per return path the result contains the two-qubit gates of exactly one table-line parse and no other leaf able to carry a two-qubit gate; Inv/Seq/Cancel with single-qubit classes conserve them", floor=len(fqs))
    from . import tables as tb
    for fq in fqs:
        f = flow.prog.func(fq)
        for pi, r in enumerate([r for r in flow.paths(fq) if r.kind == "return"]):
            if not list(circuits_of(r.describe())):
                raise AnalysisError(f"{f.module.rel} {f.qualname} return path #{pi}: the returned value ({fmt(r.describe())[:100]}) is not a circuit the interpreter can model: its two-qubit content is unknown")
            for (_, _, term) in circuits_of(r.describe()):
                where = f"{f.module.rel} {f.qualname} return path #{pi}"
                insts = set()
                bad = False
                for (leaf, inv, mapped, star, cancel) in t_leaves(term):
                    if leaf[0] == "tgate":
                        insts.add((leaf[3], leaf[4]))
                        for cl in cancel:
                            for g in cl:
                                names = g if isinstance(g, tuple) else (g,)
                                for nm in names:
                                    if nm not in ONE_QUBIT_CLASSES and leaf[2] >= 2:
                                        mn = TWO_QUBIT_CLASS_TO_MNEMONIC.get(nm)
                                        hits = []
                                        if tables is not None and mn:
                                            for tf in tables.adv_stab:
                                                for L in tf.lines:
                                                    if tb.adjacent_cancellable(L.ops, {mn}):
                                                        hits.append(L.where())
                                        if mn is None or hits or tables is None:
                                            rep.finding("P6", f"{fq}:cancel:{nm}", f"{where}: the cancellation pass may remove counted two-qubit gates ({nm}); T10 witnesses: {hits[:3]}")
                                            bad = True
                    elif leaf[0] == "emit" and leaf[2] >= 2:
                        rep.finding("P6", f"{fq}:emit:{leaf[1]}", f"{where}: a {leaf[2]}-qubit gate {leaf[1]} is added outside the table circuit: delivered cost exceeds the class cost")
                        bad = True
                    elif leaf[0] == "param":
                        rep.finding("P6", f"{fq}:param:{leaf[1]}", f"{where}: the caller's circuit `{leaf[1]}` is part of the result: its two-qubit gates add to the class cost")
                        bad = True
                    elif leaf[0] == "unknown":
                        raise AnalysisError(f"{where}: unmodelled term part {leaf[1]}")
                if len(insts) == 0 and not bad and _guarded_by_class_zero(flow, fq, r):
                    # a path without any table circuit delivers cost 0: right exactly when the class is the
                    # product class, whose table cost is 0 in every advertised file (checked here on the data)
                    nonzero = [tf.name for tf in (tables.adv_stab if tables is not None else []) if tf.lines and tf.lines[0].cost not in (0, None)]
                    if tables is None or nonzero:
                        rep.finding("P6", f"{fq}:no-table:class0-cost", f"{where}: the class-0 fast path delivers no two-qubit gate but the tables list cost > 0 for class 0 in {nonzero}")
                        bad = True
                    else:
                        rep.ok("P6", 1, nontrivial=(fq, pi, "class0"), sample=f"{f.qualname} path #{pi}: guarded by class id == 0, no two-qubit gate, table cost of class 0 is 0 everywhere")
                        continue
                if len(insts) != 1:
                    rep.finding("P6", f"{fq}:tables:{len(insts)}", f"{where}: the result combines {len(insts)} table-line parses, exactly 1 required (the delivered cost is then not the cost column of the class's line)", {"term": t_fmt(term)})
                    bad = True
                if not bad:
                    rep.ok("P6", 1, nontrivial=(fq, pi), sample=f"{f.qualname} path #{pi}: one table parse, side layers single-qubit: {t_fmt(term)[:200]}")


def class_id_symbols(flow, fq):
    """symbols used as class id (third argument of a stabilizer-table accessor call) on any path of fq"""
    out = set()
    for r in flow.paths(fq):
        if not any(ev[0] == "read-file" for ev in r.events):
            continue
        for ev in r.events:
            if ev[0] != "call" or not ev[1].startswith(ACCESSOR_MODULE + ".") or ev[1].split(".")[-1].startswith("_"):
                continue
            if "lc_class_id" in ev[3]:
                out.add(vkey(ev[3]["lc_class_id"]))
            elif len(ev[2]) >= 3:
                out.add(vkey(ev[2][2]))
    return out


def _guarded_by_class_zero(flow, fq, r):
    ids = class_id_symbols(flow, fq)
    for k, val in r.decisions.items():
        if isinstance(k, tuple) and len(k) == 2 and k[0] == "truth" and isinstance(k[1], tuple) and k[1] and k[1][0] == "cmpEq" and val is True:
            a, b = k[1][1], k[1][2]
            if (a in ids and b == ("const", "int", 0)) or (b in ids and a == ("const", "int", 0)):
                return True
    return False


# ---------------------------------------------------------------------------------------------
def gate_accepts_events(r, upto_index):
    """gate calls seen before event #upto_index on this path: list of (Nkey, Ckey)"""
    out = []
    for ev in r.events[:upto_index]:
        if ev[0] == "call" and ev[1] == GATE_FQ:
            sw = [x for lvl in (ev[7] if len(ev) > 7 else ()) for x in lvl]
            if any(x.split(".")[-1] in ("AssertionError", "Exception", "BaseException") for x in sw):
                continue   # the gate's exception is caught and dropped by an enclosing try: it protects nothing
            args = ev[2]
            kw = ev[3]
            n = args[0] if len(args) > 0 else kw.get("num_qubits")
            c = args[1] if len(args) > 1 else kw.get("connectivity")
            if n is not None and c is not None:
                out.append((vkey(n), vkey(c)))
    return out


def served_analysis(flow: Flow, f):
    """for every path of f that reads a table file: (kind, gated?) ; gated = a gate call with the
    same (N, C) symbols as the file pattern precedes the read"""
    out = []
    for pi, r in enumerate(flow.paths(f.fq)):
        for i, ev in enumerate(r.events):
            if ev[0] == "read-file":
                pat = file_pattern(("file", vkey(ev[1])))
                if pat is None:
                    out.append((pi, None, False, ev))
                    continue
                kind, nk, ck = pat
                cp = conn_param(f)
                # the REQUEST is gated: a gate call on the entry's own (qubit count, connectivity argument) precedes the
                # read (that the file read is the one of the request is P1's question, not G2's)
                gates = gate_accepts_events(r, i)
                gated = any(c == ("param", cp) and own_N(n) for (n, c) in gates) or (nk, ck) in gates
                out.append((pi, kind, gated, ev))
    return out
