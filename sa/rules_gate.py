"""Configuration-gate rules G1-G4, coupling graphs G3, loader agreement K1, reader wiring K2/W8."""
from __future__ import annotations
import ast
from . import spec, consteval, pyfacts
from .absval import *
from .report import AnalysisError
from .rules_flow import Flow, GATE_FQ, file_pattern, served_analysis, API_MODULES, circuits_of

AVAILABLE_FQ = "connectivity_support.get_available_connectivities"
IS_SUPPORTED_FQ = "connectivity_support.is_connectivity_supported"
GRAPH_FQ = "connectivity_support.get_connectivity_graph"


def grid(flow, T, tier):
    names = list(spec.CONNECTIVITY_NAMES) + ["allx", "?", "", "ALL", "Linear", "t", "h"]
    m = flow.prog.modules.get("connectivity_support")
    if m is None:
        raise AnalysisError("module connectivity_support vanished")
    for n in ast.walk(m.tree):
        if isinstance(n, ast.Constant) and isinstance(n.value, str) and len(n.value) <= 12 and " " not in n.value and n.value:
            names.append(n.value)
    for f in T.files:
        names.append(f.conn)
    names = sorted(set(names))
    ns = list(range(-1, 10)) if tier == "quick" else list(range(-6, 41))
    return ns, names


def G1_siblings(rep, flow: Flow, T, tier):
    rep.rule("G1", "the sibling definitions of the supported set agree with the 20 advertised pairs: gate predicate (whole grid), advertised list, stabilizer files, MUB files, coupling-graph builder, boolean wrapper", floor=6, exhaustive=True)
    ce = consteval.CE(flow.prog)
    ns, names = grid(flow, T, tier)
    adv = set(spec.ADVERTISED)
    rep.analysed["G1 grid"] = f"{len(ns)} qubit counts x {len(names)} names = {len(ns) * len(names)} points"
    accepted, graph_ok, wrapper = set(), set(), set()
    for n in ns:
        for c in names:
            o = ce.outcome(GATE_FQ, n, c)
            if o[0] == "return":
                accepted.add((n, c))
            elif o[1] != "AssertionError":
                rep.finding("G1", f"gate:exc:{o[1]}", f"gate predicate raises {o[1]} for ({n}, {c!r}); the boolean wrapper converts AssertionError only")
            g = ce.outcome(GRAPH_FQ, n, c)
            if g[0] == "return":
                graph_ok.add((n, c))
            w = ce.outcome(IS_SUPPORTED_FQ, n, c)
            if w[0] == "return" and w[1] is True:
                wrapper.add((n, c))
            elif w[0] == "raise":
                rep.finding("G1", f"wrapper:raise:{n}:{c}", f"is_connectivity_supported({n}, {c!r}) raises {w[1]} instead of returning a boolean")
    listed = ce.call(AVAILABLE_FQ)
    try:
        listed_set = set((a, b) for (a, b) in listed)
    except Exception:
        raise AnalysisError("get_available_connectivities does not evaluate to a list of pairs")
    sib = {
        "a: gate predicate accepted set": accepted,
        "b: get_available_connectivities()": listed_set,
        "e: get_connectivity_graph returns": graph_ok,
        "f: is_connectivity_supported is True": wrapper,
    }
    for name, s in sib.items():
        if s != adv:
            extra, missing = sorted(s - adv), sorted(adv - s)
            rep.finding("G1", f"sibling:{name[0]}", f"{name}: differs from the 20 advertised pairs; extra {extra}, missing {missing}")
        else:
            rep.ok("G1", 1, nontrivial=name, sample=f"{name} = the 20 advertised pairs")
    if len(listed) != len(listed_set):
        rep.finding("G1", "sibling:b:dup", "get_available_connectivities() lists a pair twice")
    for kind, files in (("stabilizer", T.stab), ("mub", T.mub)):
        present = {(f.n, f.conn) for f in files}
        missing = sorted(adv - present)
        if missing:
            rep.finding("G1", f"files:{kind}", f"no {kind} table file for advertised pair(s) {missing}: every request for them dies in the loader")
        else:
            rep.ok("G1", 1, nontrivial=f"files:{kind}", sample=f"{kind} files present for all 20 pairs")
        for s in sorted(present - adv):
            rep.note(f"stray {kind} table {s} present (not advertised); G2 decides whether an entry point can serve it")
    return accepted


def G2_served(rep, flow: Flow, T):
    rep.rule("G2", "every public entry point taking a connectivity serves exactly the advertised pairs: a gate call with the entry's own (qubit count, connectivity) precedes every table read, or no unadvertised table file exists for that kind", floor=9)
    adv = set(spec.ADVERTISED)
    mods = API_MODULES + ["connectivity_support"]
    n_entries = 0
    for f in flow.public_functions(mods):
        if "connectivity" not in f.params:
            continue
        n_entries += 1
        if f.fq in (GATE_FQ, IS_SUPPORTED_FQ):
            rep.ok("G2", 1, nontrivial=f.fq, sample=f"{f.fq}: is the gate / its boolean wrapper (G1)")
            continue
        sa = served_analysis(flow, f)
        if not sa:
            if f.fq == GRAPH_FQ:
                rep.ok("G2", 1, nontrivial=f.fq, sample=f"{f.fq}: reads no table; served set decided by G1(e)")
            else:
                rep.ok("G2", 1, nontrivial=f.fq, sample=f"{f.fq}: reads no table file")
            continue
        for (pi, kind, gated, ev) in sa:
            if kind is None:
                raise AnalysisError(f"{f.fq}: table read with unrecognised file-name pattern {fmt(vkey(ev[1]))} at {ev[2]}")
            if gated:
                rep.ok("G2", 1, nontrivial=(f.fq, kind), sample=f"{f.qualname} path #{pi}: gate({kind} pattern's N, C) precedes the read at {ev[2]}")
            else:
                files = T.stab if kind == "stabilizer" else T.mub
                extra = sorted({(x.n, x.conn) for x in files} - adv)
                if extra:
                    rep.finding("G2", f"{f.fq}:{kind}:ungated", f"{f.module.rel} {f.qualname}: the {kind} table is read at {ev[2]} without a preceding gate call on the same (qubit count, connectivity); the unadvertised pair {extra[0]} is therefore served (file {kind}{extra[0][0]}-{extra[0][1]}.txt exists)",
                                {"witness": extra})
                else:
                    rep.ok("G2", 1, nontrivial=(f.fq, kind, "ungated"))
                    rep.note(f"{f.qualname}: {kind} table read at {ev[2]} is not gated, but no unadvertised {kind} file exists, so nothing outside the 20 pairs is served (loader rejects)")
    rep.analysed["G2 entry points with a connectivity parameter"] = n_entries


def G4_strict(rep, flow: Flow, fqs):
    rep.rule("G4", "on every path of the preparation APIs the sign-reference synthesis is called with allow_underconstrained absent or false, and inside the synthesis each permission flag (allow_underconstrained, allow_redundant) guards a raise that fires exactly when the flag is false", floor=1)
    for fq in fqs:
        f = flow.prog.func(fq)
        n = 0
        for pi, r in enumerate(flow.paths(fq)):
            for ev in r.events:
                if ev[0] != "call":
                    continue
                try:
                    callee = flow.prog.func(ev[1])
                except AnalysisError:
                    continue
                if "allow_underconstrained" not in callee.params:
                    continue
                idx = callee.params.index("allow_underconstrained")
                v = ev[3].get("allow_underconstrained", ev[2][idx] if idx < len(ev[2]) else None)
                n += 1
                if v is None:
                    # not passed: the callee's own default decides
                    a = callee.node.args
                    allp = a.posonlyargs + a.args
                    dflt = None
                    for arg, d in list(zip(allp[len(allp) - len(a.defaults):], a.defaults)) + list(zip(a.kwonlyargs, a.kw_defaults)):
                        if arg.arg == "allow_underconstrained":
                            dflt = d
                    if not (isinstance(dflt, ast.Constant) and dflt.value is False):
                        rep.finding("G4", f"{fq}:allow_underconstrained:default", f"{ev[4]}: {callee.qualname} is called without allow_underconstrained on the path of {f.qualname}, and its default is `{ast.unparse(dflt) if dflt is not None else 'none'}`, not False: an underconstrained (non-stabilizer) request no longer raises")
                        continue
                if v is None or (isinstance(v, Const) and not v.v):
                    rep.ok("G4", 1, nontrivial=(fq, ev[4]), sample=f"{f.qualname}: {callee.qualname}(...) at {ev[4]} with allow_underconstrained={'absent' if v is None else v.v}")
                else:
                    rep.finding("G4", f"{fq}:allow_underconstrained", f"{ev[4]}: {callee.qualname} is called with allow_underconstrained={v!r} on the path of {f.qualname}: an underconstrained (non-stabilizer) request no longer raises")
        total = locals().get("total", 0) + n
    if total == 0:
        raise AnalysisError("no call to a synthesis routine with an allow_underconstrained parameter found on any preparation path (anchor vanished)")
    # inside the synthesis routine: each permission flag guards a raise that fires exactly when the flag is false
    ce = consteval.CE(flow.prog)
    for g in [x for m in flow.prog.modules.values() for x in m.all_funcs]:
        for flag in ("allow_underconstrained", "allow_redundant"):
            if flag not in g.params:
                continue
            guards = [n for n in ast.walk(g.node) if isinstance(n, ast.If) and any(isinstance(x, ast.Name) and x.id == flag for x in ast.walk(n.test))
                      and any(isinstance(b, ast.Raise) for b in n.body)]
            # early-exit form: `if <allowed>: return / continue` with the raise following in the same block
            for blk in [x for x in ast.walk(g.node) if hasattr(x, "body") and isinstance(getattr(x, "body"), list)]:
                for fld in ("body", "orelse"):
                    sts = getattr(blk, fld, None)
                    if not isinstance(sts, list):
                        continue
                    for i, st in enumerate(sts):
                        if isinstance(st, ast.If) and any(isinstance(x, ast.Name) and x.id == flag for x in ast.walk(st.test)) and st.body and not st.orelse \
                                and isinstance(st.body[-1], (ast.Return, ast.Continue)) and any(isinstance(y, ast.Raise) for y in sts[i + 1:]):
                            neg = ast.If(test=ast.UnaryOp(op=ast.Not(), operand=st.test), body=[y for y in sts[i + 1:] if isinstance(y, ast.Raise)][:1], orelse=[])
                            ast.copy_location(neg, st)
                            ast.fix_missing_locations(neg)
                            guards.append(neg)
            uses_flag_in_condition = any(isinstance(n, (ast.If, ast.IfExp, ast.While, ast.Assert)) and any(isinstance(x, ast.Name) and x.id == flag for x in ast.walk(n.test)) for n in ast.walk(g.node))
            passes_on = any(isinstance(c, ast.Call) and any(isinstance(a, ast.Name) and a.id == flag for a in list(c.args) + [k.value for k in c.keywords]) for c in ast.walk(g.node))
            if not guards and passes_on:
                continue          # handed to a helper, which is judged where it has the flag as a parameter of its own
            if not guards and uses_flag_in_condition:
                raise AnalysisError(f"{g.module.rel} {g.qualname}: the permission flag `{flag}` is tested in a form outside the vocabulary (neither `if ...: raise` nor an early exit before the raise)")
            if not guards:
                rep.finding("G4", f"{g.fq}:{flag}:no-guard", f"{g.module.rel} {g.qualname}: no `raise` is guarded by the permission flag `{flag}` any more: the corresponding invalid input is accepted silently")
                continue
            for n in guards:
                # atoms = maximal sub-expressions that do not mention the flag (the input conditions); the guard must
                #  (a) never fire when the flag is true, whatever the conditions, and (b) fire for some condition when it is false
                atoms = []

                class _Sub(ast.NodeTransformer):
                    def visit(self, node):
                        if isinstance(node, ast.Constant):
                            return node
                        if isinstance(node, ast.expr) and not any(isinstance(x, ast.Name) and x.id == flag for x in ast.walk(node)):
                            key = ast.unparse(node)
                            if key not in atoms:
                                atoms.append(key)
                            return ast.copy_location(ast.Name(id=f"__atom{atoms.index(key)}", ctx=ast.Load()), node)
                        return self.generic_visit(node)
                import copy as _copy
                import itertools as _it
                t = _Sub().visit(_copy.deepcopy(n.test))
                ast.fix_missing_locations(t)
                if len(atoms) > 6:
                    raise AnalysisError(f"{pyfacts.where(g, n)}: guard over `{flag}` has too many independent conditions [{ast.unparse(n.test)}]")
                try:
                    fires_true, fires_false = [], []
                    for vals in _it.product((False, True), repeat=len(atoms)):
                        env = {f"__atom{i}": v for i, v in enumerate(vals)}
                        fires_true.append(bool(ce.truth(ce.ev(t, dict(env, **{flag: True}), g))))
                        fires_false.append(bool(ce.truth(ce.ev(t, dict(env, **{flag: False}), g))))
                except (consteval.CERaise, AnalysisError):
                    raise AnalysisError(f"{pyfacts.where(g, n)}: guard over `{flag}` outside the vocabulary [{ast.unparse(n.test)}]")
                if not any(fires_true) and any(fires_false):
                    rep.ok("G4", 1, nontrivial=(g.fq, flag), sample=f"{g.qualname}: `if {ast.unparse(n.test)}: raise` can fire only while {flag} is false")
                else:
                    why = f"it can fire although {flag}=True" if any(fires_true) else f"it never fires, not even with {flag}=False"
                    rep.finding("G4", f"{g.fq}:{flag}:guard", f"{pyfacts.where(g, n)}: `if {ast.unparse(n.test)}: raise` does not implement the permission flag: {why}; it must be able to raise exactly when the caller did not allow it")

def G3_graphs(rep, flow: Flow):
    rep.rule("G3", "the coupling graph built for each advertised (n, connectivity) - adjacency relation and reported edge list - equals the documented edge set", floor=40, exhaustive=True)
    ce = consteval.CE(flow.prog)
    for (n, c) in spec.ADVERTISED:
        want = spec.edges(n, c)
        o = ce.outcome(GRAPH_FQ, n, c)
        if o[0] != "return" or not isinstance(o[1], consteval.Instance):
            rep.finding("G3", f"graph:{n}-{c}:raise", f"get_connectivity_graph({n}, {c!r}) does not return a graph ({o[1]})")
            continue
        g = o[1]
        A = g.attrs.get("adjacency_matrix")
        if not isinstance(A, consteval.Mat) or A.shape != (n, n):
            rep.finding("G3", f"graph:{n}-{c}:shape", f"get_connectivity_graph({n}, {c!r}): adjacency is not an {n}x{n} matrix")
            continue
        es = frozenset(frozenset((i, j)) for i in range(n) for j in range(n) if i != j and A.d[i][j] == 1)
        sym = all(A.d[i][j] == A.d[j][i] for i in range(n) for j in range(n)) and all(A.d[i][i] == 0 for i in range(n)) \
            and all(x in (0, 1) for r in A.d for x in r)
        if es != want or not sym:
            rep.finding("G3", f"graph:{n}-{c}:adjacency", f"get_connectivity_graph({n}, {c!r}) builds edges [{spec.fmt_edges(es)}]{'' if sym else ' (not a simple symmetric 0/1 matrix)'}; documented: [{spec.fmt_edges(want)}]")
        else:
            rep.ok("G3", 1, nontrivial=(n, c, "adj"), sample=f"({n},{c}): [{spec.fmt_edges(es)}]")
        ge = ce.apply(ce.getattr(g, "get_edges", None, None), [], {}, None, None)
        if not (isinstance(ge, (list, tuple)) and all(isinstance(e, (list, tuple)) and len(e) == 2 for e in ge)):
            rep.finding("G3", f"graph:{n}-{c}:get_edges", f"get_connectivity_graph({n}, {c!r}).get_edges() returns {ge!r}, not a list of vertex pairs")
            continue
        ges = frozenset(frozenset(e) for e in ge)
        if ges != want or len(ge) != len(want):
            rep.finding("G3", f"graph:{n}-{c}:get_edges", f"get_connectivity_graph({n}, {c!r}).get_edges() reports {sorted(tuple(e) for e in ge)}; documented: [{spec.fmt_edges(want)}]")
        else:
            rep.ok("G3", 1, nontrivial=(n, c, "edges"))
    rep.analysed["G3 evaluation steps"] = ce.steps


# ---------------------------------------------------------------------------------------------
def find_loader(flow: Flow):
    """the function through which table text enters the gate-appending code: the callee of the call that receives a
    field of a table line as an argument, in whose dynamic extent all table-derived gates are appended"""
    from .rules_flow import _pure_table_field
    entry, emitters, stacks = set(), set(), []
    for fq in ("stabilizer_circuits.get_readout_circuit", "mub_circuits.get_mub_circuits"):
        for r in flow.paths(fq):
            for ev in r.events:
                if ev[0] == "tgate-emit":
                    emitters.add(ev[1])
                    stacks.append(set(ev[4]))
                elif ev[0] == "call" and any(_pure_table_field(vkey(a)) for a in ev[2]):
                    try:
                        g = flow.prog.func(ev[1])
                    except AnalysisError:
                        continue
                    if (g.cls is None or g.is_static) and not any(x[0] == "call" and x[1] in entry and x is not ev for x in r.events[:r.events.index(ev)] if False):
                        entry.add(ev[1])
    if not emitters:
        return set()
    if len(entry) > 1:
        # several functions receive the table text (a tokenizer next to the builder): the loader is the one in whose
        # extent the gates are appended
        dyn = {fq for fq in entry if stacks and all(fq in st for st in stacks)}      # on the call stack of every emission
        reach = dyn or {fq for fq in entry if fq in emitters or ({g.fq for g in flow.prog.closure([flow.prog.func(fq)], may=True)} & emitters)}
        entry = reach or entry
    return entry or emitters


def _k1_view(mode, gates):
    """what a property needs of a gate list.  exact: the gates themselves (operand order of the symmetric cz / swap is
    immaterial); cost (C04): the sequence of two-qubit gates as (native cost, unordered pair); pairs (C02): the unordered
    pairs of the two-qubit gates"""
    if not isinstance(gates, list):
        return gates
    out = []
    for g in gates:
        nm, qs = g[0], tuple(g[1:])
        if mode in ("exact", "subset"):
            out.append((nm,) + (tuple(sorted(qs)) if nm in ("cz", "swap") else qs))
        elif len(qs) >= 2:
            out.append(((3 if nm == "swap" else 1), tuple(sorted(qs))) if mode == "cost" else tuple(sorted(qs)))
    return out


def _k1_agree(mode, got, want):
    g, w = _k1_view(mode, got), _k1_view(mode, want)
    if not isinstance(g, list):
        return False
    if mode in ("pairs", "subset"):
        it = iter(w)
        return all(any(x == y for y in it) for x in g)      # nothing invented, altered or moved; a token may be dropped
    return g == w


K1_TEXT = {
    "exact": "the loader turns each documented token into exactly one gate of that name on exactly the written qubits (operand order of the symmetric cz / swap aside)",
    "cost": "the loader turns each two-qubit token into exactly one two-qubit gate of the same native cost (swap = 3, cx / cz = 1) on the written pair, in token order, and a one-qubit token into no two-qubit gate",
    "pairs": "every two-qubit gate the loader appends acts on the pair written in a two-qubit token of the line, in token order (it may drop a token, it must not invent or move a two-qubit gate)",
    "subset": "every gate the loader appends is the gate a token of the line names, on the written qubits, in token order (it may leave a token out - e.g. one that acts trivially on |0..0> - but never alters, invents or moves a gate)",
}


def K1_loader(rep, flow: Flow, T, tier, exact=True, mode=None, api=("stabilizer_circuits.get_readout_circuit", "mub_circuits.get_mub_circuits")):
    mode = mode or ("exact" if exact else "pairs")
    rep.rule("K1", K1_TEXT[mode] +
             " (all distinct tokens of the shipped tables + whole sample lines, evaluated on the loader's syntax tree with a gate recorder, under every calling convention the API uses)", floor=50, exhaustive=True)
    loaders = find_loader(flow)
    if len(loaders) != 1:
        raise AnalysisError(f"expected exactly one table-token loader, found {sorted(loaders)}")
    lfq = next(iter(loaders))
    rep.analysed["table loader"] = lfq
    ce = consteval.CE(flow.prog, max_steps=20_000_000)
    # the loader is evaluated as the API calls it: constant extra arguments of those calls are passed along
    conventions = {}
    for fq in api:
        for r in flow.paths(fq):
            for ev in r.events:
                if ev[0] == "call" and ev[1] == lfq:
                    extra_pos = tuple(a.v for a in ev[2][2:] if isinstance(a, Const))
                    kw = tuple(sorted((k, v.v) for k, v in ev[3].items() if isinstance(v, Const)))
                    if len(extra_pos) != max(0, len(ev[2]) - 2) or len(kw) != len(ev[3]):
                        raise AnalysisError(f"loader {lfq} is called with non-constant extra arguments at {ev[4]}")
                    conventions[(extra_pos, kw)] = ev[4]
    if not conventions:
        # the path builds its circuits through the loader's own parts (tokenizer + builder kept in a record): the loader is
        # evaluated under its plain convention
        rep.note(f"K1: no direct call of the loader {lfq} on {list(api)}; evaluated with its plain calling convention")
        conventions[((), ())] = "plain"
    rep.analysed["loader calling conventions on the API paths"] = [f"extra positional {list(k[0])}, keywords {dict(k[1])} (e.g. at {w})" for k, w in conventions.items()]
    _K1_CONV[:] = list(conventions)
    tokens = {}
    for f in T.files:
        for L in f.lines:
            for o in L.ops:
                tokens.setdefault(o.text, (o.name, o.qubits))
    for n in range(6):
        for nm in ("h", "s", "sdg"):
            tokens.setdefault(f"{nm}{n}", (nm, (n,)))
    for a in range(6):
        for b in range(6):
            if a != b:
                for nm in ("cx", "cz", "swap"):
                    tokens.setdefault(f"{nm}{a},{b}", (nm, (a, b)))
    what = {"exact": "the documented meaning is", "subset": "the only gate it may append is", "cost": "the documented two-qubit content (native cost, pair) is that of", "pairs": "the only coupled pair it may touch is that of"}[mode]
    for tok, (nm, qs) in sorted(tokens.items()):
        o = _run_loader(ce, lfq, 6, tok)
        want = [(nm,) + tuple(qs)]
        cands = o["convention-dependent"] if isinstance(o, dict) else [o]
        if isinstance(o, dict) and mode == "exact":
            rep.finding("K1", f"token:{tok}", f"loader {lfq} turns token '{tok}' into different gate lists under the calling conventions the API uses: {o['convention-dependent']}")
        elif all(_k1_agree(mode, c, want) for c in cands):
            rep.ok("K1", 1, nontrivial=tok, sample=f"'{tok}' -> {cands[0]}")
        else:
            bad = next(c for c in cands if not _k1_agree(mode, c, want))
            rep.finding("K1", f"token:{tok}", f"loader {lfq} turns token '{tok}' into {bad}, {what} {want}")
    # whole lines: every token once, in order, nothing else (also blank tokens / trailing space)
    samples = []
    for f in T.files:
        picks = [f.lines[0], f.lines[-1], f.lines[len(f.lines) // 2]] if tier == "quick" else f.lines
        for L in picks:
            if not any(p for p in L.problems):
                samples.append((f, L))
    for f, L in samples:
        text = L.raw.split(":")[-1]
        o = _run_loader(ce, lfq, f.n, text)
        want = [(op.name,) + tuple(op.qubits) for op in L.ops]
        cands = o["convention-dependent"] if isinstance(o, dict) else [o]
        if isinstance(o, dict) and mode == "exact":
            rep.finding("K1", f"line:{f.name}:{L.index}", f"loader output for {L.where()} depends on the calling convention: {str(o)[:200]}")
        elif all(_k1_agree(mode, c, want) for c in cands):
            rep.ok("K1", 1, nontrivial=(f.name, L.index), sample=f"{L.where()}: {len(want)} gates in token order")
        else:
            bad = next(c for c in cands if not _k1_agree(mode, c, want))
            rep.finding("K1", f"line:{f.name}:{L.index}", f"loader output for {L.where()} differs from the token sequence of the line ({K1_TEXT[mode][:60]}...): {str(bad)[:200]}")
    # the token shape the loader silently drops must not occur in data (T2 forbids it)
    o = _run_loader(ce, lfq, 6, "hs3")
    if o == []:
        rep.note("loader silently drops tokens of the form 'hs<q>' (T2 forbids them in the data)")


_K1_CONV = [((), ())]


def _run_loader(ce, lfq, n, text):
    """gate log of the loader on `text`, under every calling convention used by the API (they must agree)"""
    outs = []
    for (pos, kw) in _K1_CONV:
        try:
            r = ce.call(lfq, n, text, *pos, **dict(kw))
        except consteval.CERaise as ex:
            outs.append(f"raise {ex.etype}")
            continue
        if not isinstance(r, consteval.Recorder):
            raise AnalysisError(f"loader {lfq} did not return a circuit recorder")
        outs.append(list(r.log))
    first = outs[0]
    for o in outs[1:]:
        if o != first:
            return {"convention-dependent": outs}
    return first


def _k2_evaluate_lines(rep, flow, tables, clsfq, name, pos, where_txt, shown):
    """a record field that is COMPUTED from the line: its constructor is evaluated on every line of every shipped stabilizer
    table (the whole domain of the clause) and the field compared with the documented column"""
    from . import consteval
    if tables is None:
        return False
    try:
        cls = flow.prog.cls(clsfq)
    except AnalysisError:
        return False
    init = cls.methods.get("__init__")
    if init is None or len(init.params) != 3:
        return False
    ce = consteval.CE(flow.prog, max_steps=200_000_000)
    n_eval = 0
    for tf in tables.stab:
        for L in tf.lines:
            cols = L.raw.split(":")
            if len(cols) < 4 or not cols[pos].strip().lstrip("-").isdigit():
                continue      # malformed lines are T3's business
            inst = consteval.Instance(cls)
            try:
                ce.call_func(init, [inst, tf.n, L.raw], {})
            except consteval.CERaise as ex:
                rep.finding("K2", f"{clsfq}:{name}:raise", f"{where_txt}: building the record from {L.where()} raises {ex.etype} ({ex.msg[:80]})")
                return True
            except AnalysisError:
                return False
            got = inst.attrs.get(name)
            n_eval += 1
            if got != int(cols[pos]):
                rep.finding("K2", f"{clsfq}:{name}:computed", f"{where_txt}: metadata field .{name} = {shown} is computed from the line; on {L.where()} ({':'.join(cols[:3])}:...) it evaluates to {got!r} while column {pos} says {int(cols[pos])} (evaluated on the shipped lines in file order, first disagreement shown)")
                return True
    if n_eval == 0:
        return False
    rep.ok("K2", 1, nontrivial=(clsfq, name, "evaluated"), sample=f".{name} = {shown}: computed, equal to column {pos} on all {n_eval} shipped lines (constructor evaluated)")
    return True


def _mentions_line_loosely(k):
    """the key mentions text of a table line at a position that is not a constant (a part / an alternative of parts)"""
    if isinstance(k, tuple) and k:
        if k[0] in ("part", "alt", "elem") and "filetext" in str(k):
            return True
        return any(_mentions_line_loosely(x) for x in k[1:])
    return False


def _k2_evaluate_text(rep, flow, tables, clsfq, where_txt):
    """which field holds the circuit text, and what the record's parse method hands to the loader: decided by building the
    record from every shipped line and running its parse method with the loader replaced by a recorder of its arguments"""
    from . import consteval
    if tables is None:
        return False
    try:
        cls = flow.prog.cls(clsfq)
    except AnalysisError:
        return False
    init, pm = cls.methods.get("__init__"), flow.prog.find_method(cls, "parse_circuit")
    loaders = find_loader(flow)
    if init is None or pm is None or len(init.params) != 3 or len(loaders) != 1:
        return False
    lfq = next(iter(loaders))
    ce = consteval.CE(flow.prog, max_steps=400_000_000)
    seen = []
    ce.stubs = {lfq: (lambda *a, **k: seen.append((a, k)) or consteval.Recorder(None))}
    n_eval = 0
    for tf in tables.stab:
        for L in tf.lines:
            cols = L.raw.split(":")
            if len(cols) != 4 or L.problems:
                continue
            inst = consteval.Instance(cls)
            try:
                ce.call_func(init, [inst, tf.n, L.raw], {})
                holders = [k for k, v in inst.attrs.items() if v == cols[3]]
                if not holders:
                    rep.finding("K2", f"{clsfq}:circuit:evaluated", f"{where_txt}: the record built from {L.where()} holds the circuit text (column 3) in none of its fields {sorted(inst.attrs)}")
                    return True
                del seen[:]
                ce.call_func(pm, [inst], {})
            except consteval.CERaise as ex:
                rep.finding("K2", f"{clsfq}:text:raise", f"{where_txt}: building / parsing the record of {L.where()} raises {ex.etype} ({ex.msg[:80]})")
                return True
            except AnalysisError:
                return False
            if len(seen) != 1:
                return False
            a, kw = seen[0]
            vals = list(a) + list(kw.values())
            if cols[3] not in vals or tf.n not in vals:
                rep.finding("K2", f"{clsfq}:loader-arg:evaluated", f"{where_txt}: for {L.where()} the loader {lfq} is called with {[str(v)[:40] for v in vals]}; required the register size {tf.n} and the circuit text of that line (column 3)")
                return True
            n_eval += 1
    if n_eval == 0:
        return False
    rep.ok("K2", 2, nontrivial=(clsfq, "text-evaluated"), sample=f"circuit text and loader argument decided by evaluation on all {n_eval} shipped lines: one field holds column 3, the loader receives (n, column 3)")
    return True


def K2_reader(rep, flow: Flow, tables=None):
    rep.rule("K2", "the stabilizer record takes cost / depth / circuit from positions 1 / 2 / 3 of one and the same table line, and the circuit is parsed from position 3 of that line", floor=3)
    m = flow.prog.modules.get("circuit_lookup")
    if m is None:
        raise AnalysisError("module circuit_lookup vanished")
    found = False
    text_by_eval = False
    for f in m.funcs.values():
        if f.name.startswith("_"):
            continue
        for r in flow.paths(f.fq):
            if r.kind != "return":
                continue
            reads = [ev for ev in r.events if ev[0] == "read-file"]
            pats = [file_pattern(("file", vkey(ev[1]))) for ev in reads]
            if not any(p and p[0] == "stabilizer" for p in pats):
                continue
            d = r.describe()
            if not (isinstance(d, tuple) and d and d[0] == "record"):
                raise AnalysisError(f"{f.fq}: stabilizer accessor does not return a record")
            found = True
            fields = dict(d[3])
            want = {"cost": 1, "depth": 2}     # the metadata C04 speaks about; the graph id is not part of it
            lines = set()
            for name, pos in want.items():
                v = fields.get(name)
                ok = isinstance(v, tuple) and v[0] == "int" and isinstance(v[1], tuple) and v[1][0] == "field" and v[1][2] == ("const", "str", ":") and v[1][3] == ("const", "int", pos)
                is_field = isinstance(v, tuple) and v and v[0] == "int" and isinstance(v[1], tuple) and v[1][0] == "field"
                if ok:
                    lines.add(v[1][1])
                    rep.ok("K2", 1, nontrivial=(f.fq, name), sample=f"{f.qualname}: .{name} = int(line.split(':')[{pos}])")
                elif v is not None and not is_field and _column_arith(v) is not None:
                    col, fn = _column_arith(v)
                    wantcol = col[0] == "int" and col[1][2] == ("const", "str", ":") and col[1][3] == ("const", "int", pos)
                    if wantcol and all(fn(x) == x for x in (0, 1, 2, 7, 30)):
                        lines.add(col[1][1])
                        rep.ok("K2", 1, nontrivial=(f.fq, name), sample=f"{f.qualname}: .{name} = {fmt(v)} (identity on the column)")
                    else:
                        rep.finding("K2", f"{f.fq}:{name}", f"{f.module.rel} {f.qualname}: metadata field .{name} is {fmt(v)}, which differs from the documented column (position {pos} of the ':'-separated line)")
                elif v is not None and not is_field and _k2_evaluate_lines(rep, flow, tables, d[1], name, pos, f"{f.module.rel} {f.qualname}", fmt(v)[:100]):
                    pass
                elif v is not None and not is_field:
                    raise AnalysisError(f"{f.module.rel} {f.qualname}: metadata field .{name} = {fmt(v)[:100]} is computed, not read from a column of the line: whether it equals the documented column is a value-level question K2 cannot decide")
                else:
                    rep.finding("K2", f"{f.fq}:{name}", f"{f.module.rel} {f.qualname}: metadata field .{name} is {fmt(v) if v is not None else 'absent'}, documented column is position {pos} of the ':'-separated line")
            cs = [v for k, v in fields.items() if isinstance(v, tuple) and v and v[0] == "field" and v[3] == ("const", "int", 3)]
            if len(cs) == 1:
                lines.add(cs[0][1])
                rep.ok("K2", 1, nontrivial=(f.fq, "circuit"))
            elif any(_mentions_line_loosely(v) for v in fields.values()) and _k2_evaluate_text(rep, flow, tables, d[1], f"{f.module.rel} {f.qualname}"):
                text_by_eval = True
            elif any(_mentions_pos3(v) for v in fields.values()):
                raise AnalysisError(f"{f.module.rel} {f.qualname}: the record keeps a TRANSFORMED copy of position 3 (the circuit text) of the line: whether the transformation preserves the circuit is outside K2")
            else:
                rep.finding("K2", f"{f.fq}:circuit", f"{f.module.rel} {f.qualname}: no record field holds position 3 (the circuit text) of the line")
            if len(lines) > 1:
                rep.finding("K2", f"{f.fq}:same-line", f"{f.module.rel} {f.qualname}: metadata and circuit text are taken from different lines")
    if not found:
        raise AnalysisError("no public accessor in circuit_lookup reads a stabilizer table (anchor vanished)")
    if text_by_eval:
        return      # field and loader argument were decided together by evaluation
    # the parsed circuit of the API path uses position 3
    loaders = find_loader(flow)
    for r in flow.paths("stabilizer_circuits.get_readout_circuit"):
        if r.kind != "return":
            continue
        for ev in r.events:
            if ev[0] == "call" and ev[1] in loaders:
                keys = [vkey(a) for a in ev[2]]
                if any(isinstance(k, tuple) and k and k[0] == "field" and k[3] == ("const", "int", 3) for k in keys):
                    rep.ok("K2", 1, nontrivial=("loader-arg", ev[4]), sample=f"loader called at {ev[4]} with position 3 of the line")
                elif any(_mentions_pos3(k) for k in keys):
                    raise AnalysisError(f"{ev[4]}: the loader is fed a TRANSFORMED copy of position 3 of the table line ({[fmt(k)[:80] for k in keys]}): whether the transformation preserves the circuit is outside K2")
                else:
                    rep.finding("K2", "loader-arg", f"{ev[4]}: the loader is fed {[fmt(k) for k in keys]}, not position 3 of the table line")


def _column_arith(v):
    """v is integer arithmetic over ONE column int(field(...)) and constants: (column key, python function of the column value)"""
    cols = []

    def rec(k):
        if isinstance(k, tuple) and k and k[0] == "int" and isinstance(k[1], tuple) and k[1] and k[1][0] == "field":
            if k not in cols:
                cols.append(k)
            return lambda x: x
        if isinstance(k, tuple) and k and k[0] == "const" and isinstance(k[2], int):
            return lambda x, c=k[2]: c
        ops = {"binAdd": lambda a, b: a + b, "binSub": lambda a, b: a - b, "binMult": lambda a, b: a * b, "binFloorDiv": lambda a, b: a // b if b else 0}
        if isinstance(k, tuple) and k and k[0] in ops and len(k) == 3:
            fa, fb = rec(k[1]), rec(k[2])
            if fa is None or fb is None:
                return None
            return lambda x, o=ops[k[0]], fa=fa, fb=fb: o(fa(x), fb(x))
        return None
    fn = rec(v)
    if fn is None or len(cols) != 1:
        return None
    return cols[0], fn


def _mentions_pos3(k):
    if isinstance(k, tuple) and k:
        if k[0] == "field" and len(k) > 3 and k[3] == ("const", "int", 3):
            return True
        return any(_mentions_pos3(x) for x in k[1:])
    return False


def eval_key(k, env):
    """evaluate a symbolic integer expression key under an assignment of parameters"""
    h = k[0]
    if h == "const":
        return k[2]
    if h == "param":
        return env[k[1]]
    ops = {"binAdd": lambda a, b: a + b, "binSub": lambda a, b: a - b, "binMult": lambda a, b: a * b, "binPow": lambda a, b: a ** b,
           "binLShift": lambda a, b: a << b, "binFloorDiv": lambda a, b: a // b, "binDiv": lambda a, b: a / b}
    if h in ops:
        return ops[h](eval_key(k[1], env), eval_key(k[2], env))
    raise AnalysisError(f"cannot evaluate {fmt(k)}")


def W8_info(rep, flow: Flow, fq="mub_circuits.get_mub_info", tables=None):
    rep.rule("W8", "info dictionary: 'max two-qubit count' / 'max two-qubit depth' / 'average two-qubit count' are header fields 1 / 2 / 0 (the latter divided by the number of circuits) of line 0 of the requested MUB file; 'num circuits' evaluates to 2^n+1 for n = 2..6", floor=4)
    try:
        _w8_symbolic(rep, flow, fq)
    except AnalysisError as ex:
        # entries that are COMPUTED (from the parsed circuits, through a table of key functions ...): the accessor is
        # evaluated for every advertised configuration - the clause's whole domain - against the file's header
        if tables is None or not _w8_evaluate(rep, flow, fq, tables, str(ex)):
            raise


def _w8_evaluate(rep, flow, fq, T, why):
    from . import consteval
    from .consteval import CE, CERaise
    f = flow.prog.func(fq)
    n_ok = 0
    for tf in T.adv_mub:
        if tf.header is None or any(L.problems for L in tf.lines):
            continue
        ce = CE(flow.prog, max_steps=50_000_000)
        try:
            got = ce.call_func(f, [tf.n, tf.conn], {})
        except CERaise as ex:
            rep.finding("W8", f"{fq}:{tf.name}:raise", f"{ex.where or f.module.rel}: {f.qualname}({tf.n}, {tf.conn!r}) raises {ex.etype} ({ex.msg[:80]})")
            return True
        except AnalysisError:
            return False
        if not isinstance(got, dict):
            return False
        num = 2 ** tf.n + 1
        want = {"num circuits": num, "max two-qubit count": tf.header[1], "max two-qubit depth": tf.header[2], "average two-qubit count": tf.header[0] / num}
        for key, w in want.items():
            g = got.get(key)
            same = isinstance(g, (int, float)) and not isinstance(g, bool) and abs(g - w) < 1e-9
            if not same:
                rep.finding("W8", f"{fq}:{key}:evaluated", f"{f.module.rel} {f.qualname}({tf.n}, {tf.conn!r}): '{key}' evaluates to {g!r}; the header of {tf.name} ({':'.join(map(str, tf.header))}) and 2^{tf.n}+1 = {num} give {w!r}")
                return True
        n_ok += 1
    if n_ok == 0:
        return False
    rep.ok("W8", 4, nontrivial=(fq, "evaluated"), sample=f"{f.qualname}: entries are computed ({why[:100]}); evaluated for all {n_ok} advertised configurations, equal to header fields and 2^n+1")
    return True


def _w8_symbolic(rep, flow: Flow, fq):
    f = flow.prog.func(fq)
    rets = [r for r in flow.paths(fq) if r.kind == "return"]
    if not rets:
        raise AnalysisError(f"{fq} has no return path")
    for pi, r in enumerate(rets):
        o = r.heap.get(r.value.oid) if isinstance(r.value, Ref) else None
        if o is None or o.kind != "dict":
            raise AnalysisError(f"{fq} does not return a dictionary")
        stores = {}
        for (k, v, w) in o.meta.get("stores", []):
            if isinstance(k, Const):
                stores[k.v] = v
        wanted = ("max two-qubit count", "max two-qubit depth", "average two-qubit count", "num circuits")
        allst = o.meta.get("stores", [])
        dynamic = any(not isinstance(k, Const) for (k, _v, _w) in allst) or (o.elem is not None and not allst)
        if dynamic and any(k not in stores for k in wanted):
            raise AnalysisError(f"{f.module.rel} {f.qualname}: the keys of the returned dictionary are computed (comprehension / non-literal keys): which entry holds which header field cannot be decided")
        def hdr(v):
            k = vkey(v)
            if isinstance(k, tuple) and k[0] == "int" and k[1][0] == "field" and k[1][2] == ("const", "str", ":"):
                inner = k[1][1]
                line0 = isinstance(inner, tuple) and inner[0] == "field" and inner[2] == ("const", "str", "\n") and inner[3] == ("const", "int", 0)
                return (k[1][3][2], line0, inner)
            return None
        where = f"{f.module.rel} {f.qualname}"

        def from_header_line(v):
            def rec(k):
                if isinstance(k, tuple) and k:
                    if k[0] == "field" and len(k) > 3 and k[2] == ("const", "str", "\n") and k[3] == ("const", "int", 0):
                        return True
                    return any(rec(x) for x in k[1:])
                return False
            return rec(vkey(v))
        for key in ("max two-qubit count", "max two-qubit depth", "average two-qubit count"):
            v = stores.get(key)
            if v is not None and not from_header_line(v):
                raise AnalysisError(f"{where}: '{key}' = {fmt(vkey(v))[:120]} is computed, not read from the file header: whether it equals the actual value of the circuits is a value-level question W8 cannot decide")
        for key, pos in (("max two-qubit count", 1), ("max two-qubit depth", 2)):
            v = stores.get(key)
            h = hdr(v) if v is not None else None
            if h is None or h[0] != pos or not h[1]:
                rep.finding("W8", f"{fq}:{key}", f"{where}: '{key}' is {fmt(vkey(v)) if v is not None else 'absent'}; documented source is header field {pos} of line 0")
            else:
                rep.ok("W8", 1, nontrivial=(fq, key), sample=f"'{key}' <- header field {pos}")
        nc = stores.get("num circuits")
        if nc is None:
            rep.finding("W8", f"{fq}:num circuits", f"{where}: 'num circuits' absent")
        else:
            k = vkey(nc)
            params = {x[1] for x in _params(k)}
            bad = None
            try:
                for n in range(2, 7):
                    val = eval_key(k, {p: n for p in params})
                    if val != 2 ** n + 1:
                        bad = (n, val)
                        break
            except AnalysisError:
                raise AnalysisError(f"{where}: 'num circuits' = {fmt(k)[:120]} is not an arithmetic expression of the qubit number: outside the symbolic rule")
            if bad:
                rep.finding("W8", f"{fq}:num circuits", f"{where}: 'num circuits' = {fmt(k)} evaluates to {bad[1]} for n = {bad[0]}, 2^n+1 required")
            else:
                rep.ok("W8", 1, nontrivial=(fq, "num"), sample=f"'num circuits' = {fmt(k)} = 2^n+1 for n=2..6")
        av = stores.get("average two-qubit count")
        k = vkey(av) if av is not None else None
        good = False
        if k and k[0] == "binDiv":
            h = hdr_key(k[1])
            good = h is not None and h[0] == 0 and h[1] and nc is not None and k[2] == vkey(nc)
        if good:
            rep.ok("W8", 1, nontrivial=(fq, "avg"), sample="'average two-qubit count' <- header field 0 / num circuits")
        else:
            rep.finding("W8", f"{fq}:average two-qubit count", f"{where}: 'average two-qubit count' is {fmt(k) if k else 'absent'}; documented: header field 0 of line 0 divided by the number of circuits")


def W10_requested_file(rep, flow: Flow, fqs=("mub_circuits.get_mub_circuits", "mub_circuits.get_mubs", "mub_circuits.get_mub_info")):
    rep.rule("W10", "every MUB accessor reads the table file named by its own arguments: mub{num_qubits}-{connectivity}.txt, the qubit count in the first and the connectivity in the second place", floor=3)
    from .rules_flow import file_pattern
    for fq in fqs:
        f = flow.prog.func(fq)
        seen = False
        for pi, r in enumerate(flow.paths(fq)):
            for ev in r.events:
                if ev[0] != "read-file":
                    continue
                seen = True
                pat = file_pattern(("file", vkey(ev[1])))
                if pat is None:
                    raise AnalysisError(f"{fq}: table read with unrecognised file-name pattern {fmt(vkey(ev[1]))[:120]} at {ev[2]}")
                kind, nk, ck = pat

                def strip(k):
                    while isinstance(k, tuple) and k and k[0] in ("str", "int", "fmt") and len(k) == 2:
                        k = k[1]
                    return k
                nk, ck = strip(nk), strip(ck)
                want_n, want_c = ("param", "num_qubits"), ("param", "connectivity")
                if kind == "mub" and nk == want_n and ck == want_c:
                    rep.ok("W10", 1, nontrivial=(fq, ev[2]), sample=f"{f.qualname}: reads mub{{num_qubits}}-{{connectivity}}.txt")
                elif ck[0] == "const" and nk == want_n and not any(("param", "connectivity") in key_leaves_of(k[1], r) for k in r.decisions if k[0] in ("truth", "isnone")):
                    # one fixed table for every request: nothing on the path restricts the request to that connectivity
                    rep.finding("W10", f"{fq}:file", f"{f.module.rel} {f.qualname} (path #{pi}): the table read at {ev[2]} is mub{{num_qubits}}-{ck[2]}.txt whatever connectivity is requested; the request's own table is mub{{num_qubits}}-{{connectivity}}.txt")
                elif kind != "mub" or {nk, ck} == {want_n, want_c}:
                    rep.finding("W10", f"{fq}:file", f"{f.module.rel} {f.qualname} (path #{pi}): the table read at {ev[2]} is {kind}{{{fmt(nk)}}}-{{{fmt(ck)}}}.txt; the request's own table is mub{{num_qubits}}-{{connectivity}}.txt")
                else:
                    raise AnalysisError(f"{fq}: the file name read at {ev[2]} is built from {fmt(nk)[:60]} / {fmt(ck)[:60]}: whether that names the requested table cannot be decided")
        if not seen:
            raise AnalysisError(f"{fq}: no table read on any path (anchor vanished)")


def K20_mub_record(rep, flow: Flow, T, fqs=("mub_circuits.get_mubs", "mub_circuits.get_mub_circuits")):
    """the whole finite domain of the MUB accessors - the advertised (num_qubits, connectivity) pairs - evaluated: what
    get_mubs / get_mub_circuits hand out for a configuration is, entry by entry and in file order, what the lines of that
    configuration's file say (bases as the strings before the ':', circuits as the gates the tokens name)"""
    from . import consteval
    from .consteval import CE, CERaise, Recorder
    rep.rule("K20", "for every advertised MUB configuration, get_mubs returns the bases and get_mub_circuits the circuits of ALL lines of that configuration's file, in file order (accessors evaluated on the shipped files, compared with an independent parse of the same text)", floor=20, exhaustive=True)
    sym = {"cz", "swap"}

    def norm(log):
        out = []
        for ent in log:
            nm, qs = ent[0], tuple(ent[1:])
            out.append((nm,) + (tuple(sorted(qs)) if nm in sym else qs))
        return out
    for tf in T.adv_mub:
        if any(L.problems for L in tf.lines):
            continue        # malformed text is reported by T2 / T7
        want_b = [list(L.paulis) for L in tf.lines]
        want_c = [norm([(op.name,) + tuple(op.qubits) for op in L.ops]) for L in tf.lines]
        for fq in fqs:
            f = flow.prog.func(fq)
            ce = CE(flow.prog, max_steps=50_000_000)
            try:
                got = ce.call_func(f, [tf.n, tf.conn], {})
            except CERaise as ex:
                rep.finding("K20", f"{fq}:{tf.name}:raise", f"{ex.where or f.module.rel}: {f.qualname}({tf.n}, {tf.conn!r}) raises {ex.etype} ({ex.msg[:80]})")
                continue
            if not isinstance(got, (list, tuple)):
                rep.finding("K20", f"{fq}:{tf.name}:type", f"{f.module.rel} {f.qualname}({tf.n}, {tf.conn!r}) returns {type(got).__name__}, not a list")
                continue
            is_circ = bool(got) and all(isinstance(x, Recorder) for x in got)
            if is_circ:
                have, want, what = [norm(x.log) for x in got], want_c, "circuits"
            else:
                have, want, what = [list(x) if isinstance(x, (list, tuple)) else x for x in got], want_b, "bases"
            if (fq.endswith("get_mub_circuits")) != is_circ and got:
                rep.finding("K20", f"{fq}:{tf.name}:kind", f"{f.module.rel} {f.qualname}({tf.n}, {tf.conn!r}) returns {what}")
                continue
            if len(have) != len(want):
                rep.finding("K20", f"{fq}:{tf.name}:count", f"{f.module.rel} {f.qualname}({tf.n}, {tf.conn!r}) returns {len(have)} {what}; {tf.name} has {len(want)} basis lines (2^{tf.n}+1 = {2 ** tf.n + 1})")
                continue
            bad = next((i for i in range(len(want)) if have[i] != want[i]), None)
            if bad is not None:
                rep.finding("K20", f"{fq}:{tf.name}:entry", f"{f.module.rel} {f.qualname}({tf.n}, {tf.conn!r}): entry {bad} is {str(have[bad])[:120]}; line {tf.lines[bad].lineno} of {tf.name} says {str(want[bad])[:120]}")
            else:
                rep.ok("K20", 1, nontrivial=(fq, tf.name), sample=f"{f.qualname}({tf.n}, {tf.conn!r}): {len(have)} {what}, all equal to the lines of {tf.name}")


def K21_stabilizer_accessor(rep, flow: Flow, T, files=None, fq="circuit_lookup.stabilizer_circuit_lookup"):
    """whole domain of the stabilizer accessor: for every advertised (num_qubits, connectivity) and every class id, the
    record it hands out carries the graph id / cost / depth of line `id` of that configuration's file and its
    parse_circuit() yields the gates that line's tokens name (independent parse of the same text)"""
    from .consteval import CE, CERaise, Recorder, Instance
    files = files if files is not None else T.adv_stab
    rep.rule("K21", "for every advertised configuration and every class id the stabilizer accessor returns the entry of line `id` of that configuration's file: graph id, cost, depth as written and a circuit with exactly the gates its tokens name (accessor and parser evaluated on the shipped files, compared with an independent parse)", floor=sum(len(tf.lines) for tf in files), exhaustive=True)
    f = flow.prog.func(fq)
    sym = {"cz", "swap"}

    def norm(log):
        return [(e[0],) + (tuple(sorted(e[1:])) if e[0] in sym else tuple(e[1:])) for e in log]
    ce = CE(flow.prog, max_steps=2_000_000_000)      # one evaluator: the module-level cache is filled once per file, as in the library
    for tf in files:
        for L in tf.lines:
            if L.problems:
                continue
            try:
                rec = ce.call_func(f, [tf.n, tf.conn, L.index], {})
            except CERaise as ex:
                rep.finding("K21", f"{tf.name}:{L.index}:raise", f"{ex.where or f.module.rel}: {f.qualname}({tf.n}, {tf.conn!r}, {L.index}) raises {ex.etype} ({ex.msg[:80]})")
                break
            if not isinstance(rec, Instance):
                raise AnalysisError(f"{fq} returns {type(rec).__name__}, not a record")
            got = {k: rec.attrs.get(k) for k in ("graph_id", "cost", "depth")}
            want = {"graph_id": L.graph_id, "cost": L.cost, "depth": L.depth}
            if got != want:
                rep.finding("K21", f"{tf.name}:{L.index}:fields", f"{f.module.rel} {f.qualname}({tf.n}, {tf.conn!r}, {L.index}): record holds {got}; {L.where()} says {want}")
                break
            pm = flow.prog.find_method(rec.cls, "parse_circuit")
            if pm is None:
                raise AnalysisError(f"{rec.cls.name}.parse_circuit vanished")
            try:
                qc = ce.call_func(pm, [rec], {})
            except CERaise as ex:
                rep.finding("K21", f"{tf.name}:{L.index}:parse-raise", f"{ex.where or f.module.rel}: parse_circuit() of the entry {L.where()} raises {ex.etype} ({ex.msg[:80]})")
                break
            if not isinstance(qc, Recorder):
                raise AnalysisError(f"{rec.cls.name}.parse_circuit returns {type(qc).__name__}, not a circuit")
            wantc = norm([(op.name,) + tuple(op.qubits) for op in L.ops])
            if norm(qc.log) != wantc or qc.width != tf.n:
                rep.finding("K21", f"{tf.name}:{L.index}:circuit", f"{f.module.rel} {f.qualname}({tf.n}, {tf.conn!r}, {L.index}).parse_circuit(): {qc.width}-qubit circuit {str(norm(qc.log))[:160]}; the tokens of {L.where()} name {str(wantc)[:160]} on {tf.n} qubits")
                break
            rep.ok("K21", 1, nontrivial=(tf.name, L.index))


def key_leaves_of(k, r=None):
    """parameters mentioned by a symbolic key, looking through the heap objects it refers to"""
    out = set()
    seen = set()

    def rec(x):
        if isinstance(x, tuple) and x:
            if x[0] == "param" and len(x) == 2:
                out.add(x)
            elif x[0] == "obj" and len(x) == 3 and r is not None and x[2] in r.heap and x[2] not in seen:
                seen.add(x[2])
                o = r.heap[x[2]]
                for v in list(o.items or []) + ([o.elem] if o.elem is not None else []) + list(o.fields.values()):
                    rec(vkey(v))
            else:
                for y in x[1:]:
                    rec(y)
    rec(k)
    return out


def hdr_key(k):
    if isinstance(k, tuple) and k[0] == "int" and k[1][0] == "field" and k[1][2] == ("const", "str", ":"):
        inner = k[1][1]
        line0 = isinstance(inner, tuple) and inner[0] == "field" and inner[2] == ("const", "str", "\n") and inner[3] == ("const", "int", 0)
        return (k[1][3][2], line0)
    return None


def _params(k, out=None):
    out = out if out is not None else []
    if isinstance(k, tuple) and k:
        if k[0] == "param":
            out.append(k)
        else:
            for x in k[1:]:
                _params(x, out)
    return out


# ---------------------------------------------------------------------------------------------
class _OpaqueRequestObject:
    """stands for an argument object of the request that is not a number or a name (compares unequal to everything)"""

    def __init__(self, name):
        self.name = name

    def __repr__(self):
        return f"<the request's `{self.name}` object>"


def request_envs(f):
    """valid requests for an entry point, as assignments of the symbols its conditions may mention.
    yields (label, env) for every advertised (m, c) and every consistent register size"""
    P = lambda n: ("param", n)
    for (m, c) in spec.ADVERTISED:
        base = {P("connectivity"): c}
        if "num_qubits" in f.params:
            e = dict(base)
            e[P("num_qubits")] = m
            yield (f"({m}, {c!r})", e)
            continue
        for who in ("stabilizer", "circuit"):
            if who in f.params:
                base[("attr", P(who), "num_qubits")] = m
                base[("attr", ("ext:qiskit.quantum_info.StabilizerState", P(who)), "num_qubits")] = m
        if "preparation_circuit" in f.params:
            # all qubits measured
            e = dict(base)
            e[("attr", P("preparation_circuit"), "num_qubits")] = m
            e[P("measured_qubits")] = None
            yield (f"({m}, {c!r}), all qubits measured", e)
            # a subset of a larger register
            for N in range(m, 9):
                e = dict(base)
                e[("attr", P("preparation_circuit"), "num_qubits")] = N
                e[("len", P("measured_qubits"))] = m
                e[P("measured_qubits")] = tuple(range(m))
                yield (f"({m}, {c!r}), {m} of {N} qubits measured", e)
        else:
            yield (f"({m}, {c!r})", base)


def G6_no_extra_rejection(rep, flow: Flow):
    rep.rule("G6", "every advertised pair is served by every entry point: no raise path of an entry point taking a connectivity can be taken by a valid request for an advertised (qubit count, connectivity) - as far as the path's conditions are decidable from the request's sizes and names (conditions on the stabilizer's content are skipped)", floor=8)
    from . import symeval
    ce = consteval.CE(flow.prog)
    mods = API_MODULES
    for f in flow.public_functions(mods):
        if "connectivity" not in f.params:
            continue
        raises = [r for r in flow.paths(f.fq) if r.kind == "raise"]
        n_decided = 0
        bad = None
        envs = list(request_envs(f))
        for r in raises:
            for (label, env) in envs:
                try:
                    try:
                        holds = all(symeval.decision_holds(k, v, env, ce) for k, v in r.decisions.items())
                    except symeval.WouldRaise as wr:
                        # the conditions before it hold (decisions are in evaluation order) and this one cannot even be evaluated
                        bad = (label, str(wr), [fmt(k[1]) for k in r.decisions if k[0] in ("truth", "isnone")][-2:])
                        break
                    if holds:
                        # every condition on the way to this raise is satisfied by a valid request
                        relevant = [k for k in r.decisions if k[0] in ("truth", "isnone")]
                        if not relevant:
                            continue
                        bad = (label, r.what, [fmt(k[1]) for k in relevant][:3])
                        break
                    n_decided += 1
                except symeval.Unknown:
                    continue
            if bad:
                break
        # the support gate itself is not followed by the interpreter: each of its calls is evaluated exactly on the
        # values a valid request gives to its arguments (a gate asked about something else than the request refuses it)
        if not bad:
            seen_calls = set()
            for r in flow.paths(f.fq):
                if bad:
                    break
                for ev in r.events:
                    if ev[0] != "call" or ev[1] not in (GATE_FQ, IS_SUPPORTED_FQ):
                        continue
                    for (label, env) in envs:
                        if (ev[4], label) in seen_calls:
                            continue
                        try:
                            # only requests that can take this path: none of its decisions is false for them (conditions on
                            # the content of the stabilizer are undecidable here and do not exclude the path - an advertised
                            # pair must pass the support gate whatever the content)
                            def may_hold(k, v):
                                try:
                                    return symeval.decision_holds(k, v, env, ce)
                                except (symeval.Unknown, symeval.WouldRaise):
                                    return True
                            if not all(may_hold(k, v) for k, v in r.decisions.items() if k[0] != "cache-miss"):
                                continue
                            seen_calls.add((ev[4], label))

                            def conc(a):
                                k = vkey(a)
                                try:
                                    return symeval.concretize(k, env, ce)
                                except symeval.Unknown:
                                    # another object of the request (the stabilizer, a circuit ...) handed to the gate: it is
                                    # neither a qubit count nor a connectivity name; evaluated as an opaque object
                                    if isinstance(k, tuple) and len(k) == 2 and k[0] == "param" and k not in env:
                                        return _OpaqueRequestObject(k[1])
                                    raise
                            vals = [conc(a) for a in ev[2]]
                            kw = {k: conc(v) for k, v in ev[3].items()}
                        except (symeval.Unknown, symeval.WouldRaise):
                            continue
                        try:
                            o = ce.outcome(ev[1], *vals, **kw)
                        except AnalysisError:
                            continue
                        n_decided += 1
                        if o[0] == "raise" or (ev[1] == IS_SUPPORTED_FQ and o[0] == "return" and o[1] is False):
                            bad = (label, f"{ev[1].split('.')[-1]}({', '.join(repr(v) for v in vals)}) -> {o[1] if o[0] == 'raise' else False}", [f"gate call at {ev[4]}"])
                            break
                    if bad:
                        break
        if bad:
            rep.finding("G6", f"{f.fq}:rejects:{bad[0].split(',')[1].strip(' )')}", f"{f.module.rel} {f.qualname}: a valid request for the advertised configuration {bad[0]} is rejected (`raise {bad[1][:80]}`) under the conditions {bad[2]}")
        else:
            rep.ok("G6", 1, nontrivial=f.fq, sample=f"{f.qualname}: {len(raises)} raise path(s), none reachable by a valid advertised request ({n_decided} path x request combinations decided)")
