"""Literal-table / fragment rules K3-K11, B4, E1, E2 (C14, C16, C17, C18, C19)."""
from __future__ import annotations
import ast
import copy
import itertools
from . import consteval, pyfacts, spec
from .consteval import CE, Mat, Instance, Recorder, CERaise
from .report import AnalysisError
from .rules_flow import Flow


# ---------------------------------------------------------------------------------------------
def raises_are_findings(rule):
    """The exact evaluator runs repository code on inputs of the rule's own domain (every graph, every documented token,
    every coefficient pattern ...): an exception raised there is raised for a valid input.  Where the rule body does not
    treat it itself, it is reported under the rule instead of ending the run."""
    def deco(fn):
        import functools

        @functools.wraps(fn)
        def wrapper(rep, *a, **k):
            try:
                return fn(rep, *a, **k)
            except CERaise as ex:
                if rule not in rep.rules:
                    raise
                rep.finding(rule, f"raise:{ex.etype}:{(ex.where or '').split(' [')[0]}", f"{ex.where or 'evaluated code'}: raises {ex.etype} ({ex.msg[:100]}) on an input of the rule's domain (evaluated exactly, input taken from the rule's enumeration)")
        return wrapper
    return deco


def K3_class_tables(rep, flow: Flow):
    rep.rule("K3", "class tables: start indices begin at 0, increase strictly, end at K(n) = 2/5/18/93/760; one start index per entanglement structure; each structure's block size equals the count of its combinatorics entry", floor=5)
    prog = flow.prog
    K = {}
    for n in range(2, 7):
        cls = prog.cls(f"lc_classes.LCClass{n}")
        si = cls.class_assigns.get("_start_indices")
        try:
            starts = ast.literal_eval(si)
        except Exception:
            raise AnalysisError(f"LCClass{n}._start_indices is not a literal list")
        ok = starts[0] == 0 and all(a < b for a, b in zip(starts, starts[1:]))
        K[n] = starts[-1]
        enum = cls.inner.get("EntanglementStructure")
        members = []
        if enum is not None:
            for st in enum.node.body:
                if isinstance(st, ast.Assign) and isinstance(st.targets[0], ast.Name) and isinstance(st.value, ast.Constant):
                    members.append((st.targets[0].id, st.value.value))
        msg = []
        if not ok:
            msg.append(f"start indices {starts} are not strictly increasing from 0")
        if starts[-1] != spec.CLASS_COUNT[n]:
            msg.append(f"last start index {starts[-1]} != K({n}) = {spec.CLASS_COUNT[n]}")
        if members and (len(members) != len(starts) - 1 or sorted(v for _, v in members) != list(range(len(members)))):
            msg.append(f"{len(members)} entanglement structures for {len(starts) - 1} index blocks")
        # block sizes vs combinatorics counts
        comb = cls.class_assigns.get("combinatorics")
        cmap = cls.class_assigns.get("combinatorics_map")
        counts = {}
        if isinstance(comb, ast.Dict):
            for k, v in zip(comb.keys, comb.values):
                if isinstance(k, ast.Constant) and isinstance(v, ast.Dict):
                    for kk, vv in zip(v.keys, v.values):
                        if isinstance(kk, ast.Constant) and kk.value == "count" and isinstance(vv, ast.Constant):
                            counts[k.value] = vv.value
        if isinstance(cmap, ast.Dict) and members:
            val = dict(members)
            seen = set()
            for k, v in zip(cmap.keys, cmap.values):
                if isinstance(k, ast.Attribute) and isinstance(v, ast.Constant):
                    idx = val.get(k.attr)
                    seen.add(k.attr)
                    if idx is None or v.value not in counts:
                        msg.append(f"map entry {k.attr} -> {v.value!r} has no enum member / combinatorics entry")
                    elif idx + 1 < len(starts) and starts[idx + 1] - starts[idx] != counts[v.value]:
                        msg.append(f"structure {k.attr}: block size {starts[idx + 1] - starts[idx]} != count {counts[v.value]} of {v.value!r}")
            for nm, _ in members:
                if nm not in seen:
                    msg.append(f"structure {nm} has no combinatorics_map entry")
        if msg:
            rep.finding("K3", f"LCClass{n}", f"lc_classes.py LCClass{n}: " + "; ".join(msg))
        else:
            rep.ok("K3", 1, nontrivial=n, sample=f"LCClass{n}: {len(starts) - 1} structures, K = {starts[-1]}")
    return K


# ---------------------------------------------------------------------------------------------
PAULI_XZ = {"I": (0, 0), "X": (1, 0), "Y": (1, 1), "Z": (0, 1)}
STAB = "stabilizer.Stabilizer"


def _new_stabilizer(ce, prog, data):
    cls = prog.cls(STAB)
    inst = Instance(cls)
    ce.call_func(cls.methods["__init__"], [inst, data], {})
    return inst


@raises_are_findings("K4")
def K4_codec(rep, flow: Flow, tier):
    rep.rule("K4", "Pauli-character codec: the parser maps I/X/Y/Z to (x,z) = (0,0)/(1,0)/(1,1)/(0,1) at [qubit, generator], signs '', '+' -> 0 and '-' -> 1, and the printer is its inverse (string -> object -> string is the identity up to an explicit '+')", floor=100, exhaustive=True)
    rep.rule("B4", "the reversed-order export differs from the default export only by mirroring the characters after the sign", floor=50, exhaustive=True)
    prog = flow.prog
    ce = CE(prog, max_steps=50_000_000)
    cls = prog.cls(STAB)
    to_list = cls.methods.get("to_list")
    if to_list is None:
        raise AnalysisError("Stabilizer.to_list vanished")
    signs = ["", "+", "-"]
    chars = "IXYZ"
    # exhaustive over the first generator of a 3-qubit list (asymmetric strings), others fixed
    doms = [(s + a + b + c, "ZZI", "-IXY") for s in signs for a in chars for b in chars for c in chars]
    if tier == "thorough":
        doms += [("XYZ", s + a + b + c, "IIX") for s in signs for a in chars for b in chars for c in chars]
        doms += [("XYZ", "ZIY", s + a + b + c) for s in signs for a in chars for b in chars for c in chars]
    for gens in doms:
        try:
            st = _new_stabilizer(ce, prog, list(gens))
        except CERaise as ex:
            rep.finding("K4", f"parse:{gens[0]}", f"Stabilizer({list(gens)}) raises {ex.etype}")
            continue
        R, S, ph = st.attrs.get("R"), st.attrs.get("S"), st.attrs.get("phases")
        bad = None
        for g, p in enumerate(gens):
            body = p.lstrip("+-")
            sg = 1 if p.startswith("-") else 0
            if ph.d[g] != sg:
                bad = f"sign of generator {g} ('{p}') stored as {ph.d[g]}"
            for q, ch in enumerate(body):
                x, z = PAULI_XZ[ch]
                if R.d[q][g] != x or S.d[q][g] != z:
                    bad = f"'{ch}' at qubit {q} of generator {g} stored as (x,z) = ({R.d[q][g]},{S.d[q][g]}), documented ({x},{z})"
        if bad:
            rep.finding("K4", f"parse:{'|'.join(gens)}", f"stabilizer.py Stabilizer.__init__ on {list(gens)}: {bad}")
            continue
        out = ce.call_func(to_list, [st], {})
        want = [("-" if p.startswith("-") else "+") + p.lstrip("+-") for p in gens]
        if out != want:
            rep.finding("K4", f"print:{'|'.join(gens)}", f"stabilizer.py Stabilizer.to_list: {list(gens)} is exported as {out}, expected {want}")
        else:
            rep.ok("K4", 1, nontrivial=gens, sample=f"{list(gens)} -> (R,S,phases) -> {out}")
        # the printed form (`__repr__`), where it quotes one string per generator, quotes the signed generators
        rp = cls.methods.get("__repr__")
        if rp is not None and out == want:
            try:
                text = ce.call_func(rp, [st], {})
            except (CERaise, AnalysisError):
                text = None
            if isinstance(text, str):
                import re as _re
                quoted = _re.findall(r"['\"]([^'\"]*)['\"]", text)
                if len(quoted) == len(want):
                    norm = [(q if q[:1] in "+-" else "+" + q) for q in quoted]
                    if norm != want:
                        rep.finding("K4", f"repr:{'|'.join(gens)}", f"stabilizer.py Stabilizer.__repr__: the object built from {list(gens)} prints as {text!r}; the quoted generators {quoted} are not the signed generators {want} (read back, the printed text denotes another signed group)")
                    else:
                        rep.ok("K4", 1, nontrivial=("repr",) + tuple(gens))
        rev = ce.call_func(to_list, [st], {"qiskit_convention": True})
        want_rev = [w[0] + w[1:][::-1] for w in want]
        if rev != want_rev:
            rep.finding("B4", f"mirror:{'|'.join(gens)}", f"stabilizer.py Stabilizer.to_list(qiskit_convention=True): {list(gens)} is exported as {rev}, the exact mirror image is {want_rev}")
        else:
            rep.ok("B4", 1, nontrivial=gens, sample=f"{want} <-> {rev}")


def all_graphs(n):
    pairs = [(i, j) for i in range(n) for j in range(i + 1, n)]
    for mask in range(1 << len(pairs)):
        yield [p for k, p in enumerate(pairs) if mask >> k & 1]


def _graph(ce, prog, n, edges):
    gc = prog.cls("graph.Graph")
    g = Instance(gc)
    ce.call_func(gc.methods["__init__"], [g, n], {})
    for (a, b) in edges:
        ce.call_func(gc.methods["add_edge"], [g, a, b], {})
    return g


def K16_system_rows(rep, flow: Flow):
    """where the linear system of the layer search is filled row by row: a matrix allocated with p*N rows and stored into at
    row p*i+j is filled for every i in range(N) - the same N (one block of p rows per QUBIT, also when there are fewer
    operators than qubits)"""
    rep.rule("K16", "the row-wise filled system matrix of the layer search has as many row blocks as its allocation says: `A[p*i+j] = ...` with A = zeros((p*N, ...)) runs i over range(N)", floor=0)
    m = flow.prog.modules.get(FLC.split(".")[0])
    if m is None:
        raise AnalysisError("module find_local_clifford_layer vanished")
    for f in m.all_funcs:
        allocs = {}
        for n in ast.walk(f.node):
            if isinstance(n, ast.Assign) and len(n.targets) == 1 and isinstance(n.targets[0], ast.Name) and isinstance(n.value, ast.Call) and ast.unparse(n.value.func).endswith("zeros"):
                shp = next((k.value for k in n.value.keywords if k.arg == "shape"), n.value.args[0] if n.value.args else None)
                if isinstance(shp, (ast.Tuple, ast.List)) and len(shp.elts) == 2 and isinstance(shp.elts[0], ast.BinOp) and isinstance(shp.elts[0].op, ast.Mult):
                    allocs[n.targets[0].id] = shp.elts[0]
        if not allocs:
            continue
        for loop in [x for x in ast.walk(f.node) if isinstance(x, ast.For) and isinstance(x.target, ast.Name) and isinstance(x.iter, ast.Call) and isinstance(x.iter.func, ast.Name) and x.iter.func.id == "range" and len(x.iter.args) == 1]:
            iv = loop.target.id
            for st in ast.walk(loop):
                if isinstance(st, ast.Assign) and isinstance(st.targets[0], ast.Subscript) and isinstance(st.targets[0].value, ast.Name) and st.targets[0].value.id in allocs:
                    idx = st.targets[0].slice
                    if not (isinstance(idx, ast.BinOp) and isinstance(idx.op, ast.Add) and isinstance(idx.left, ast.BinOp) and isinstance(idx.left.op, ast.Mult)):
                        continue
                    mult = idx.left
                    names_idx = {x.id for x in (mult.left, mult.right) if isinstance(x, ast.Name)}
                    if iv not in names_idx:
                        continue
                    block = (names_idx - {iv})
                    alloc = allocs[st.targets[0].value.id]
                    names_alloc = {x.id for x in (alloc.left, alloc.right) if isinstance(x, ast.Name)}
                    count = names_alloc - block          # the N of p*N
                    bound = loop.iter.args[0]
                    if len(count) == 1 and isinstance(bound, ast.Name):
                        N = next(iter(count))
                        if bound.id == N:
                            rep.ok("K16", 1, nontrivial=(f.fq, pyfacts.norm_stmt(st)), sample=f"{pyfacts.norm_stmt(st)[:50]}: {iv} in range({N}), allocation {ast.unparse(alloc)} rows")
                        else:
                            # the same value under another name?
                            same = any(isinstance(a, ast.Assign) and isinstance(a.targets[0], ast.Name) and a.targets[0].id == bound.id and ast.unparse(a.value) == N for a in ast.walk(f.node))
                            if not same:
                                rep.finding("K16", f"{f.fq}:{pyfacts.norm_stmt(st)}", f"{pyfacts.where(f, loop)}: `{st.targets[0].value.id}` is allocated with {ast.unparse(alloc)} rows (one block per `{N}`) and filled at row `{ast.unparse(idx)}`, but `{iv}` only runs over range({bound.id}): for {bound.id} != {N} some blocks of the system stay zero / are out of range [{pyfacts.norm_stmt(st)}]")


def K17_elimination_bounds(rep, flow: Flow, fqs=("f2_algebra.rref", "f2_algebra.rref_and_basis_change")):
    """the Gaussian eliminations run their row / column cursors up to the matrix' own dimensions: in a function that unpacks
    `rows, cols = A.shape`, a while-condition comparing a cursor with `rows - 1` (or any other offset of a dimension) leaves
    the last row / column out (or runs past it)"""
    rep.rule("K17", "elimination cursors are bounded by the dimensions themselves: every `cursor < bound` in a while-condition of rref / rref_and_basis_change has a dimension of A.shape as bound, not a dimension plus or minus a constant", floor=0)
    for fq in fqs:
        try:
            f = flow.prog.func(fq)
        except AnalysisError:
            continue
        dims = set()
        for n in ast.walk(f.node):
            if isinstance(n, ast.Assign) and isinstance(n.targets[0], ast.Tuple) and isinstance(n.value, ast.Attribute) and n.value.attr == "shape":
                dims |= {x.id for x in n.targets[0].elts if isinstance(x, ast.Name)}
        if not dims:
            continue
        def dim_offset(e):
            """(dimension name, integer offset) of `dim`, `dim + c`, `dim - c`, `c + dim`"""
            if isinstance(e, ast.Name) and e.id in dims:
                return e.id, 0
            if isinstance(e, ast.BinOp) and isinstance(e.op, (ast.Add, ast.Sub)):
                l, r = e.left, e.right
                if isinstance(l, ast.Name) and l.id in dims and isinstance(r, ast.Constant) and isinstance(r.value, int):
                    return l.id, (r.value if isinstance(e.op, ast.Add) else -r.value)
                if isinstance(e.op, ast.Add) and isinstance(r, ast.Name) and r.id in dims and isinstance(l, ast.Constant) and isinstance(l.value, int):
                    return r.id, l.value
            return None
        for w in [x for x in ast.walk(f.node) if isinstance(x, ast.While)]:
            for c in [x for x in ast.walk(w.test) if isinstance(x, ast.Compare) and len(x.ops) == 1 and isinstance(x.ops[0], (ast.Lt, ast.LtE, ast.Gt, ast.GtE))]:
                op = c.ops[0]
                # normalise to  cursor < dim + off   (exclusive upper bound)
                if isinstance(op, (ast.Lt, ast.LtE)):
                    d = dim_offset(c.comparators[0])
                    excl = None if d is None else d[1] + (1 if isinstance(op, ast.LtE) else 0)
                else:
                    d = dim_offset(c.left)
                    excl = None if d is None else d[1] + (1 if isinstance(op, ast.GtE) else 0)
                if d is None:
                    continue
                if excl == 0:
                    rep.ok("K17", 1, nontrivial=(fq, ast.unparse(c)), sample=f"{f.qualname}: while ... {ast.unparse(c)}")
                else:
                    rep.finding("K17", f"{fq}:{ast.unparse(c)}", f"{pyfacts.where(f, w)}: `{ast.unparse(c)}` bounds the elimination cursor by {d[0]}{excl:+d} (exclusive) instead of the dimension `{d[0]}` itself: " +
                                ("the last row / column is never a pivot row / column" if excl < 0 else "the cursor runs past the matrix") + f" [while {ast.unparse(w.test)}]")


def K17_column_sweep(rep, flow: Flow, fqs=("f2_algebra.rref", "f2_algebra.rref_and_basis_change", "f2_algebra.rank", "f2_algebra.null_space")):
    """(a) a loop whose variable is used as COLUMN index of a matrix and that stops at min(rows, cols) never looks at the
    columns from `rows` on of a matrix with more columns than rows (a pivot there is missed) - unless another loop of the
    function also runs over column indices; (b) the rank is not the trace / diagonal sum of the reduced matrix (pivots of a
    reduced row echelon form need not sit on the diagonal)"""
    rep.rule("K17b", "no elimination sweeps its column index only up to min(rows, cols); the rank is not read off the diagonal of the reduced matrix", floor=0)
    for fq in fqs:
        try:
            f = flow.prog.func(fq)
        except AnalysisError:
            continue
        dims = set()
        for n in ast.walk(f.node):
            if isinstance(n, ast.Assign) and isinstance(n.targets[0], ast.Tuple) and isinstance(n.value, ast.Attribute) and n.value.attr == "shape":
                dims |= {x.id for x in n.targets[0].elts if isinstance(x, ast.Name)}

        def is_min_dims(e):
            return isinstance(e, ast.Call) and isinstance(e.func, (ast.Name, ast.Attribute)) and ast.unparse(e.func) in ("min", "np.minimum", "numpy.minimum") and len(e.args) == 2 and \
                all(isinstance(a, ast.Name) and a.id in dims for a in e.args) and e.args[0].id != e.args[1].id

        def col_uses(var, scope):
            return [s_ for s_ in ast.walk(scope) if isinstance(s_, ast.Subscript) and isinstance(s_.slice, ast.Tuple) and len(s_.slice.elts) == 2 and
                    any(isinstance(x, ast.Name) and x.id == var for x in ast.walk(s_.slice.elts[1]))]
        loops = []      # (node, variable, bounded by min?)
        for lp in [x for x in ast.walk(f.node) if isinstance(x, ast.For) and isinstance(x.target, ast.Name)]:
            it = lp.iter
            if isinstance(it, ast.Call) and isinstance(it.func, ast.Name) and it.func.id == "range" and it.args:
                loops.append((lp, lp.target.id, is_min_dims(it.args[-1] if len(it.args) <= 2 else it.args[1])))
        for w in [x for x in ast.walk(f.node) if isinstance(x, ast.While)]:
            for c in [x for x in ast.walk(w.test) if isinstance(x, ast.Compare) and len(x.ops) == 1 and isinstance(x.ops[0], ast.Lt) and isinstance(x.left, ast.Name)]:
                loops.append((w, c.left.id, is_min_dims(c.comparators[0])))
        col_loops = [(lp, v, mn) for (lp, v, mn) in loops if col_uses(v, lp)]
        transposes = any(isinstance(x, ast.Attribute) and x.attr in ("T", "transpose") for x in ast.walk(f.node))
        for (lp, v, mn) in col_loops:
            if not mn:
                rep.ok("K17b", 1, nontrivial=(fq, v), sample=f"{f.qualname}: column index `{v}` not cut at min(rows, cols)")
                continue
            others = [x for x in col_loops if x[0] is not lp and not x[2] and not any(x[0] is y for y in ast.walk(lp))]
            if others or transposes:
                raise AnalysisError(f"{pyfacts.where(f, lp)}: the column index `{v}` stops at min(rows, cols) but the function has further column loops / transposes the matrix: whether every column is examined cannot be decided")
            rep.finding("K17b", f"{fq}:min-bound:{v}", f"{pyfacts.where(f, lp)}: `{v}` is used as column index ({ast.unparse(col_uses(v, lp)[0])}) and runs only up to min({', '.join(sorted(dims))}): for a matrix with more columns than rows the columns from the row count on are never examined, a pivot there is missed (e.g. the 1x3 matrix [0 0 1])")
        if f.name == "rank":
            for r in [x for x in ast.walk(f.node) if isinstance(x, ast.Return) and x.value is not None]:
                diag = [c for c in ast.walk(r.value) if isinstance(c, ast.Call) and isinstance(c.func, ast.Attribute) and c.func.attr in ("trace", "diagonal", "diag")]
                if diag:
                    rep.finding("K17b", f"{fq}:diagonal", f"{pyfacts.where(f, r)}: the rank is read off the diagonal of the reduced matrix [{pyfacts.norm_stmt(r)}]: the pivots of a reduced row echelon form sit in the pivot columns, which are on the diagonal only for a leading identity block (the 1x2 matrix [0 1] has rank 1 and trace 0)")
                else:
                    rep.ok("K17b", 1, nontrivial=(fq, "return"), sample=f"rank: {pyfacts.norm_stmt(r)}")


def K15_junk_characters(rep, flow: Flow):
    rep.rule("K15", "the Pauli-string parser rejects (raises on) every character that is not one of I, X, Y, Z - probed with the lower-case letters, digits, blanks and foreign letters, at the first, a middle and the last position of a generator - and a sign character anywhere but in front is never read as a Pauli; generators of different lengths are refused", floor=20, exhaustive=True)
    prog = flow.prog
    ce = CE(prog, max_steps=20_000_000)
    junk = ["x", "y", "z", "i", "A", "1", "0", " ", "_", "*", "Q", "+", "-"]
    base = ["XZZ", "ZXI", "ZIX"]
    for ch in junk:
        for pos in range(3):
            if ch in "+-" and pos == 0:
                continue            # a sign in front is the documented sign
            gen = base[0][:pos] + ch + base[0][pos + 1:]
            data = [gen, base[1], base[2]]
            try:
                st = _new_stabilizer(ce, prog, data)
            except CERaise:
                rep.ok("K15", 1, nontrivial=(ch, pos), sample=f"{gen!r}: rejected")
                continue
            got = {k: (v.d if isinstance(v, Mat) else v) for k, v in st.attrs.items() if k in ("R", "S", "phases")}
            rep.finding("K15", f"junk:{ch!r}:{pos}", f"stabilizer.py Stabilizer.__init__ accepts the generator {gen!r} (character {ch!r} at position {pos} is not a Pauli) and stores R = {got.get('R')}, S = {got.get('S')}, signs = {got.get('phases')}: an invalid request is served with a circuit for some other operator instead of being refused")
    K15_ragged_lists(rep, flow)


def K15_ragged_lists(rep, flow: Flow):
    """generators of different lengths are refused (a shorter one is not padded, a longer one not cut)"""
    prog = flow.prog
    ce = CE(prog, max_steps=20_000_000)
    for data, what in ((["XZZ", "ZX", "ZIX"], "a generator shorter than the first"), (["XZZ", "ZXII", "ZIX"], "a generator longer than the first"),
                       (["XZZ", "-ZX", "ZIX"], "a signed generator shorter than the first"), (["XZ", "ZXI", "ZIX"], "a first generator shorter than the list"),
                       (["+-XZZ", "ZXI", "ZIX"], "a doubled sign prefix"), (["XZZ", "--ZXI", "ZIX"], "a doubled sign prefix"), (["XZZ", "ZXI", "-+ZIX"], "a doubled sign prefix")):
        try:
            st = _new_stabilizer(ce, prog, list(data))
        except CERaise:
            rep.ok("K15", 1, nontrivial=tuple(data), sample=f"{data}: rejected")
            continue
        got = {k: (v.d if isinstance(v, Mat) else v) for k, v in st.attrs.items() if k in ("R", "S", "phases")}
        rep.finding("K15", f"ragged:{'/'.join(data)}", f"stabilizer.py Stabilizer.__init__ accepts the list {data} ({what}) and stores R = {got.get('R')}, S = {got.get('S')}: the request is answered for operators the caller never wrote")


@raises_are_findings("K13")
def K13_matrix_form(rep, flow: Flow):
    rep.rule("K13", "matrix form: Stabilizer((R, S)) and Stabilizer((R, S, phases)) store exactly the given X part, Z part and signs (signs default to 0), and the size is the matrices' size - evaluated on asymmetric matrices of 2 and 3 qubits", floor=4, exhaustive=True)
    prog = flow.prog
    ce = CE(prog, max_steps=5_000_000)
    samples = [([[1, 0], [1, 1]], [[0, 1], [0, 0]], [1, 0]),
               ([[1, 0, 1], [0, 0, 1], [1, 1, 0]], [[0, 1, 1], [1, 0, 0], [0, 0, 1]], [0, 1, 1])]
    for (r, s_, ph) in samples:
        n = len(r)
        for with_ph in (False, True):
            data = (Mat([list(x) for x in r], 2), Mat([list(x) for x in s_], 2)) + ((Mat(list(ph), 1),) if with_ph else ())
            st = _new_stabilizer(ce, prog, data)
            got = {k: (v.d if isinstance(v, Mat) else v) for k, v in st.attrs.items()}
            want = {"R": r, "S": s_, "phases": list(ph) if with_ph else [0] * n, "num_qubits": n}
            bad = [k for k in want if got.get(k) != want[k]]
            key = f"matrix:{n}:{'signed' if with_ph else 'unsigned'}"
            if bad:
                rep.finding("K13", key, f"stabilizer.py Stabilizer.__init__ (matrix branch): given R = {r}, S = {s_}" + (f", phases = {ph}" if with_ph else "") +
                            f" the object holds {', '.join(f'{k} = {got.get(k)}' for k in bad)}; expected {', '.join(f'{k} = {want[k]}' for k in bad)}")
            else:
                rep.ok("K13", 1, nontrivial=key, sample=f"n={n} {'with' if with_ph else 'without'} signs: stored as given")


@raises_are_findings("K5")
def K5_graph_form(rep, flow: Flow):
    rep.rule("K5", "graph form: Stabilizer(graph) stores R = identity, S = adjacency matrix, phases = 0 (generators X_v Z_N(v)), for every graph on 2..4 vertices", floor=70, exhaustive=True)
    prog = flow.prog
    ce = CE(prog, max_steps=50_000_000)
    for n in (2, 3, 4):
        for edges in all_graphs(n):
            g = _graph(ce, prog, n, edges)
            st = _new_stabilizer(ce, prog, g)
            R, S, ph = st.attrs.get("R"), st.attrs.get("S"), st.attrs.get("phases")
            adj = [[1 if (min(i, j), max(i, j)) in edges and i != j else 0 for j in range(n)] for i in range(n)]
            ident = [[int(i == j) for j in range(n)] for i in range(n)]
            if not (isinstance(R, Mat) and isinstance(S, Mat) and isinstance(ph, Mat)) or R.d != ident or S.d != adj or any(ph.d) or st.attrs.get("num_qubits") != n:
                rep.finding("K5", f"graph:{n}:{edges}", f"stabilizer.py Stabilizer.__init__ (graph branch) for edges {edges} on {n} vertices: R = {getattr(R, 'd', R)}, S = {getattr(S, 'd', S)}, phases = {getattr(ph, 'd', ph)}")
            else:
                rep.ok("K5", 1, nontrivial=(n, tuple(edges)), sample=f"n={n} edges {edges}: R = I, S = adjacency, phases = 0")


@raises_are_findings("E2")
def E2_graph_circuit(rep, flow: Flow):
    rep.rule("E2", "graph-state circuit: h on every vertex and one cz per edge for EVERY graph including the edgeless one (no gate call fed from a possibly empty star-argument); all graphs on 2..4 vertices", floor=70, exhaustive=True)
    prog = flow.prog
    gc = prog.cls("graph.Graph")
    tc = gc.methods.get("to_circuit")
    if tc is None:
        raise AnalysisError("Graph.to_circuit vanished")
    # structural part: star-arguments of gate calls
    for n in ast.walk(tc.node):
        if isinstance(n, ast.Call) and isinstance(n.func, ast.Attribute) and n.func.attr in consteval.GATE_METHODS:
            stars = [a for a in n.args if isinstance(a, ast.Starred)]
            if stars and not _guarded_nonempty(tc, n):
                rep.finding("E2", f"graph.Graph.to_circuit:star:{n.func.attr}", f"{pyfacts.where(tc, n)}: `{pyfacts.norm_stmt(n)}` receives its operands from a star-argument that is empty for a graph without edges: TypeError instead of the Hadamard layer")
    ce = CE(prog, max_steps=50_000_000)
    for nv in (2, 3, 4):
        for edges in all_graphs(nv):
            g = _graph(ce, prog, nv, edges)
            try:
                rec = ce.call_func(tc, [g], {})
            except CERaise as ex:
                rep.finding("E2", f"to_circuit:{nv}:{edges}", f"graph.py Graph.to_circuit for edges {edges} on {nv} vertices raises {ex.etype}: {ex.msg[:80]}")
                continue
            if not isinstance(rec, Recorder):
                rep.finding("E2", f"to_circuit:{nv}:{edges}", f"graph.py Graph.to_circuit for edges {edges} on {nv} vertices returns {rec!r}, not a circuit")
                continue
            hs, czs = set(), set()
            mult = {}
            other = []
            for ent in rec.log:
                if ent[0] == "h":
                    qs = ent[1] if isinstance(ent[1], tuple) else (ent[1],)
                    hs |= set(qs)
                elif ent[0] == "cz":
                    a, b = ent[1], ent[2]
                    pairs = [frozenset(p) for p in zip(a, b)] if isinstance(a, tuple) else [frozenset((a, b))]
                    for pr in pairs:
                        czs.add(pr)
                        mult[pr] = mult.get(pr, 0) + 1
                else:
                    other.append(ent)
            first_cz = next((i for i, e in enumerate(rec.log) if e[0] == "cz"), len(rec.log))
            last_h = max((i for i, e in enumerate(rec.log) if e[0] == "h"), default=-1)
            even = sorted(tuple(sorted(pr)) for pr, k in mult.items() if k % 2 == 0)
            if even:
                rep.finding("E2", f"to_circuit:{nv}:{edges}", f"graph.py Graph.to_circuit for edges {edges}: the cz on {even[0]} is emitted {mult[frozenset(even[0])]} times (gate log {rec.log}); cz is its own inverse, an even number of them leaves the pair unentangled - the circuit prepares the graph state of a graph without that edge")
            elif hs != set(range(nv)) or czs != {frozenset(e) for e in edges} or other or last_h > first_cz:
                rep.finding("E2", f"to_circuit:{nv}:{edges}", f"graph.py Graph.to_circuit for edges {edges}: gate log {rec.log} is not 'h on all vertices, then cz on every edge'")
            else:
                rep.ok("E2", 1, nontrivial=(nv, tuple(edges)), sample=f"n={nv} edges {edges}: {rec.log}")


def _guarded_nonempty(f, call):
    """is the call inside an `if <seq>:` / `if len(seq) > 0:` guard"""
    for n in ast.walk(f.node):
        if isinstance(n, ast.If) and any(c is call for c in ast.walk(ast.Module(body=n.body, type_ignores=[]))):
            t = ast.unparse(n.test)
            if "len(" in t or isinstance(n.test, ast.Name) or (isinstance(n.test, ast.Compare)):
                return True
    return False


# ---------------------------------------------------------------------------------------------
FLC = "find_local_clifford_layer.find_local_clifford_layer"
L2C = "find_local_clifford_layer.local_clifford_layer_to_circuit"
GATE_M = {"h": ((0, 1), (1, 0)), "s": ((1, 0), (1, 1)), "sdg": ((1, 0), (1, 1)), "x": ((1, 0), (0, 1)), "y": ((1, 0), (0, 1)), "z": ((1, 0), (0, 1)), "id": ((1, 0), (0, 1))}


def mm(a, b):
    return tuple(tuple(sum(a[i][k] * b[k][j] for k in range(2)) % 2 for j in range(2)) for i in range(2))


@raises_are_findings("K7")
def K7_branches(rep, flow: Flow):
    rep.rule("K7", "layer -> gates: exactly the six invertible 2x2 blocks are accepted, and for each the product of the emitted gates' symplectic matrices (later gate multiplies from the left) equals the block; the other ten patterns are rejected", floor=16, exhaustive=True)
    prog = flow.prog
    ce = CE(prog)
    f = prog.func(L2C)
    for c in itertools.product((0, 1), repeat=4):
        A = [Mat([[c[j]]], 2) for j in range(4)]
        det = (c[0] * c[3] - c[1] * c[2]) % 2
        try:
            rec = ce.call_func(f, [A], {})
        except CERaise as ex:
            if det == 1:
                rep.finding("K7", f"block:{c}", f"find_local_clifford_layer.py local_clifford_layer_to_circuit rejects the invertible block {list(c)} ({ex.etype})")
            else:
                rep.ok("K7", 1, nontrivial=c)
            continue
        if det != 1:
            rep.finding("K7", f"block:{c}", f"find_local_clifford_layer.py local_clifford_layer_to_circuit accepts the singular block {list(c)} and emits {rec.log}")
            continue
        M = ((1, 0), (0, 1))
        okg = True
        for ent in rec.log:
            if ent[0] not in GATE_M or ent[1] != 0:
                okg = False
                break
            M = mm(GATE_M[ent[0]], M)
        want = ((c[0], c[1]), (c[2], c[3]))
        if not okg or M != want:
            rep.finding("K7", f"block:{c}", f"find_local_clifford_layer.py local_clifford_layer_to_circuit: block {list(c)} is turned into gates {rec.log} whose symplectic product is {M}, not the block")
        else:
            rep.ok("K7", 1, nontrivial=c, sample=f"{list(c)} -> {[e[0] for e in rec.log]} (product = block)")


@raises_are_findings("K7")
def K7_two_qubits(rep, flow: Flow):
    """the gates of qubit i land on qubit i: all 36 pairs of valid blocks on two qubits"""
    prog = flow.prog
    ce = CE(prog)
    f = prog.func(L2C)
    valid = [c for c in itertools.product((0, 1), repeat=4) if (c[0] * c[3] - c[1] * c[2]) % 2 == 1]
    for c0 in valid:
        for c1 in valid:
            A = [Mat([[c0[j], 0], [0, c1[j]]], 2) for j in range(4)]
            try:
                rec = ce.call_func(f, [A], {})
            except CERaise as ex:
                rep.finding("K7", f"pair:{c0}:{c1}", f"find_local_clifford_layer.py local_clifford_layer_to_circuit rejects the valid two-qubit layer ({list(c0)}, {list(c1)}): {ex.etype}")
                continue
            bad = None
            for q, c in ((0, c0), (1, c1)):
                M = ((1, 0), (0, 1))
                for ent in rec.log:
                    if len(ent) != 2 or ent[0] not in GATE_M:
                        bad = f"unexpected gate {ent}"
                    elif ent[1] == q:
                        M = mm(GATE_M[ent[0]], M)
                    elif ent[1] not in (0, 1):
                        bad = f"gate on qubit {ent[1]}"
                if M != ((c[0], c[1]), (c[2], c[3])):
                    bad = bad or f"the gates on qubit {q} multiply to {M}, its block is {list(c)}"
            if bad:
                rep.finding("K7", f"pair:{c0}:{c1}", f"find_local_clifford_layer.py local_clifford_layer_to_circuit: layer ({list(c0)}, {list(c1)}) -> {rec.log}: {bad}")
            else:
                rep.ok("K7", 1, nontrivial=(c0, c1), sample=f"({list(c0)},{list(c1)}) -> {rec.log}")


def _eye(n):
    return Mat([[int(i == j) for j in range(n)] for i in range(n)], 2)


def _k6_judge(rep, nq, coef, cs, res, tag=""):
    combs = [[sum(coef[4 * q + k] * cs[k][j] for k in range(4)) % 2 for j in range(4)] for q in range(nq)]
    dets = [(c[0] * c[3] - c[1] * c[2]) % 2 for c in combs]
    key = f"coef:{nq}:{''.join(map(str, coef))}" + (":" + tag.split(" ")[0] if tag else "")
    if res is None:
        if all(d == 1 for d in dets):
            rep.finding("K6", key, f"find_local_clifford_layer.py find_local_clifford_layer: coefficient pattern {list(coef)} ({nq} qubit(s)) combines to the invertible block(s) {combs} but is rejected by the validity filter (a valid layer is missed)")
        else:
            rep.ok("K6", 1, nontrivial=(nq, coef, tag))
        return
    ok_shape = isinstance(res, (list, tuple)) and len(res) == 4 and all(isinstance(m, Mat) and m.shape == (nq, nq) for m in res)
    if not ok_shape:
        rep.finding("K6", key, f"find_local_clifford_layer.py find_local_clifford_layer: pattern {list(coef)} returns {res!r}, not four {nq}x{nq} blocks")
        return
    blocks = [[res[j].d[q][q] for j in range(4)] for q in range(nq)]
    off = [res[j].d[a][b] for j in range(4) for a in range(nq) for b in range(nq) if a != b]
    if not all(d == 1 for d in dets):
        rep.finding("K6", key, f"find_local_clifford_layer.py find_local_clifford_layer: coefficient pattern {list(coef)} passes the validity filter but combines to the singular block(s) {combs}: the returned layer is not a Clifford")
    elif blocks != combs or any(off):
        rep.finding("K6", key, f"find_local_clifford_layer.py find_local_clifford_layer: pattern {list(coef)} returns blocks {blocks} (off-diagonal {off}), the combination of the basis blocks is {combs}")
    else:
        rep.ok("K6", 1, nontrivial=(nq, coef, tag), sample=f"{list(coef)} -> blocks {blocks} (det 1)")


def _k6_by_kernel_stub(rep, flow):
    """shape-independent form: the WHOLE search function is evaluated with the kernel routine replaced by a stub that
    hands back one chosen coefficient vector; the span of that kernel is {0, vector}, so the function's answer is its
    verdict on that vector.  The basis blocks are read off the answers to the four unit vectors."""
    prog = flow.prog
    f = prog.func(FLC)
    ns = [g for g in prog.closure([f], may=True) if g.name == "null_space"]
    if len(ns) != 1:
        raise AnalysisError(f"{FLC}: expected exactly one kernel routine (null_space) among its callees, found {[g.fq for g in ns]}")
    ce = CE(prog, max_steps=400_000_000)

    def verdict(nq, coef, m=None):
        calls = []

        def stub(*a, **k):
            calls.append(1)
            return Mat([list(coef)], 2)
        ce.stubs = {ns[0].fq: stub}
        g = _graph(ce, prog, nq, [])
        # operators X_q: every qubit is acted on (a search that leaves untouched qubits out sees all of them)
        if m is None:
            R, S = _eye(nq), Mat.zeros((nq, nq))
        else:
            # fewer operators than qubits (n x m matrices, one column per operator): X on every qubit, m times
            R, S = Mat([[1] * m for _ in range(nq)], 2), Mat.zeros((nq, m))
        res = ce.call_func(f, [R, S, g], {})
        if len(calls) != 1:
            # the answer did not come out of the kernel (a fast path, a second solve ...): the stub decides nothing
            raise consteval.Unsupported(f"the search consulted the kernel routine {len(calls)} time(s) on the probe input, expected once")
        return res

    # the basis blocks c_0..c_3 are the linear map (coefficient pattern -> returned block) the one-qubit answers define
    answers = {}
    for coef in itertools.product((0, 1), repeat=4):
        res = verdict(1, coef)
        if res is None:
            continue
        if not (isinstance(res, (list, tuple)) and len(res) == 4 and all(isinstance(m, Mat) and m.shape == (1, 1) for m in res)):
            raise consteval.Unsupported(f"the answer to the coefficient vector {list(coef)} is {res!r}, not four 1x1 blocks")
        answers[coef] = [res[j].d[0][0] % 2 for j in range(4)]
    # Gaussian elimination over GF(2) on the accepted patterns, carrying their blocks along
    rows = [(list(c), list(b)) for c, b in sorted(answers.items())]
    piv = {}
    for (c, b) in rows:
        c, b = list(c), list(b)
        for k in sorted(piv):
            if c[k]:
                pc, pb = piv[k]
                c = [x ^ y for x, y in zip(c, pc)]
                b = [x ^ y for x, y in zip(b, pb)]
        lead = next((k for k in range(4) if c[k]), None)
        if lead is None:
            if any(b):
                rep.finding("K6", "basis:linear", f"find_local_clifford_layer.py find_local_clifford_layer: the returned block is not a linear function of the coefficient pattern (one-qubit answers {answers}): the decoding does not add up the basis blocks")
                return
            continue
        for k in list(piv):
            pc, pb = piv[k]
            if pc[lead]:
                piv[k] = ([x ^ y for x, y in zip(pc, c)], [x ^ y for x, y in zip(pb, b)])
        piv[lead] = (c, b)
    if len(piv) < 4:
        rep.finding("K6", "basis:reach", f"find_local_clifford_layer.py find_local_clifford_layer: with the kernel routine handing back a single coefficient vector, only the patterns {sorted(answers)} are accepted; they do not span the coefficient space, so some single-qubit Clifford can never be returned (a valid layer is missed)")
        return
    cs = [piv[k][1] for k in range(4)]          # fully reduced: piv[k][0] == e_k
    rep.analysed["K6 basis order (linear map defined by the search's one-qubit answers, kernel routine stubbed)"] = cs
    # the four blocks must span all 2x2 matrices over GF(2): otherwise some Clifford cannot be expressed at all
    span = set()
    for coef in itertools.product((0, 1), repeat=4):
        span.add(tuple(sum(coef[k] * cs[k][j] for k in range(4)) % 2 for j in range(4)))
    if len(span) != 16:
        rep.finding("K6", "basis:span", f"find_local_clifford_layer.py find_local_clifford_layer: the four basis blocks {cs} are linearly dependent: only {len(span)} of the 16 combinations are reachable, a valid layer can be missed")
    for nq in (1, 2):
        for coef in itertools.product((0, 1), repeat=4 * nq):
            _k6_judge(rep, nq, coef, cs, verdict(nq, coef))
    # an EMPTY kernel means that no layer exists: the search must say so (None), not hand out some layer
    for nq in (1, 2):
        calls = []

        def stub0(*a, _n=nq, **k):
            calls.append(1)
            return Mat.zeros((0, 4 * _n))
        ce.stubs = {ns[0].fq: stub0}
        res0 = ce.call_func(f, [_eye(nq), Mat.zeros((nq, nq)), _graph(ce, prog, nq, [])], {})
        if len(calls) == 1:
            if res0 is None:
                rep.ok("K6", 1, nontrivial=("empty-kernel", nq), sample=f"empty kernel on {nq} qubit(s): None")
            else:
                rep.finding("K6", f"empty-kernel:{nq}", f"find_local_clifford_layer.py find_local_clifford_layer: with an empty kernel (no solution of the linear system) the search returns {[m_.d for m_ in res0] if isinstance(res0, (list, tuple)) else res0!r} instead of None: 'no layer exists' is reported as a layer")
    # a set of FEWER operators than qubits (the property's "or fewer operators"): same verdicts, no exception
    for coef in itertools.product((0, 1), repeat=8):
        try:
            res = verdict(2, coef, m=1)
        except CERaise as ex:
            # the same code answered every full-size probe above: the exception belongs to the smaller operator set
            rep.finding("K6", f"partial:raise:{ex.etype}", f"{ex.where or 'find_local_clifford_layer.py find_local_clifford_layer'}: raises {ex.etype} ({ex.msg[:80]}) for a set of 1 operator on 2 qubits (R, S of shape 2x1) - the search must also serve fewer operators than qubits")
            break
        _k6_judge(rep, 2, coef, cs, res, tag="partial set (1 operator on 2 qubits)")
    # a qubit that NO operator touches (2 qubits, one operator X on qubit 0): the search may keep it in the linear system
    # (kernel vectors of 8 coefficients) or leave it out (4 coefficients; it then gets some fixed Clifford) - either way
    # the verdict on a kernel vector is "every block invertible", and the touched qubit's block is its combination
    widths = []

    def verdict_untouched(coef):
        calls = []

        def stub(*a, **k):
            calls.append(1)
            w = a[0].shape[1] if a and isinstance(a[0], Mat) and a[0].ndim == 2 else None
            widths.append(w)
            if w is None or w > len(coef):
                raise consteval.Unsupported("kernel routine called with a matrix whose column count is not a coefficient width")
            return Mat([list(coef[:w])], 2)
        ce.stubs = {ns[0].fq: stub}
        res = ce.call_func(f, [Mat([[1], [0]], 2), Mat.zeros((2, 1)), _graph(ce, prog, 2, [])], {})
        if len(calls) != 1:
            raise consteval.Unsupported("kernel routine not consulted exactly once on the untouched-qubit probe")
        return res
    try:
        try:
            verdict_untouched((0,) * 8)
        except CERaise as ex:
            rep.finding("K6", f"untouched:raise:{ex.etype}", f"{ex.where or 'find_local_clifford_layer.py find_local_clifford_layer'}: raises {ex.etype} ({ex.msg[:80]}) for one operator X on qubit 0 of 2 qubits (R, S of shape 2x1; qubit 1 untouched) - the search must also serve fewer operators than qubits")
            raise consteval.Unsupported("untouched-qubit probe raised")
        w = widths[-1]
        if w not in (4, 8):
            raise consteval.Unsupported(f"coefficient width {w} on the untouched-qubit probe")
        for coef in itertools.product((0, 1), repeat=w):
            try:
                res = verdict_untouched(tuple(coef) + (0,) * (8 - w))
            except CERaise as ex:
                rep.finding("K6", f"untouched:raise:{ex.etype}", f"{ex.where or 'find_local_clifford_layer.py find_local_clifford_layer'}: raises {ex.etype} ({ex.msg[:80]}) for one operator X on qubit 0 of 2 qubits (qubit 1 untouched)")
                break
            if w == 8:
                _k6_judge(rep, 2, coef, cs, res, tag="untouched qubit (X on qubit 0 of 2)")
                continue
            comb = [sum(coef[k] * cs[k][j] for k in range(4)) % 2 for j in range(4)]
            det = (comb[0] * comb[3] - comb[1] * comb[2]) % 2
            key = f"coef:untouched:{''.join(map(str, coef))}"
            if res is None:
                if det == 1:
                    rep.finding("K6", key, f"find_local_clifford_layer.py find_local_clifford_layer: with qubit 1 untouched and left out of the linear system, the coefficient pattern {list(coef)} of qubit 0 combines to the invertible block {comb} but is rejected (a valid layer is missed: a filter still counts the left-out qubit)")
                else:
                    rep.ok("K6", 1, nontrivial=("untouched", coef))
                continue
            ok_shape = isinstance(res, (list, tuple)) and len(res) == 4 and all(isinstance(m_, Mat) and m_.shape == (2, 2) for m_ in res)
            if not ok_shape:
                rep.finding("K6", key, f"find_local_clifford_layer.py find_local_clifford_layer: untouched-qubit probe, pattern {list(coef)} returns {res!r}, not four 2x2 blocks")
                continue
            b0 = [res[j].d[0][0] % 2 for j in range(4)]
            b1 = [res[j].d[1][1] % 2 for j in range(4)]
            off = [res[j].d[a_][b_] for j in range(4) for a_ in range(2) for b_ in range(2) if a_ != b_]
            if det != 1:
                rep.finding("K6", key, f"find_local_clifford_layer.py find_local_clifford_layer: untouched-qubit probe, pattern {list(coef)} passes the filter but combines to the singular block {comb}")
            elif b0 != comb or any(off) or (b1[0] * b1[3] - b1[1] * b1[2]) % 2 != 1:
                rep.finding("K6", key, f"find_local_clifford_layer.py find_local_clifford_layer: untouched-qubit probe, pattern {list(coef)} returns block {b0} on qubit 0 (combination: {comb}), block {b1} on the untouched qubit, off-diagonal {off}")
            else:
                rep.ok("K6", 1, nontrivial=("untouched", coef), sample=f"untouched qubit left out: {list(coef)} -> {b0}, qubit 1 gets {b1}")
    except consteval.Unsupported as ex:
        rep.note(f"K6: untouched-qubit probe not decidable ({str(ex)[:120]})")
    rep.analysed["K6 form"] = f"whole-function evaluation with {ns[0].fq} stubbed ({ce.steps} evaluation steps)"
    flow._k6_stub = (cs, ce, f, ns[0].fq)


def _k6_solve_dominates(flow):
    """every layer the search returns comes out of the solved linear system: a `return <layer>` that control can reach
    without passing the call of the kernel routine (a fast path for 'trivial' inputs) answers by other means, which the
    rules on the filter and the span do not cover - no verdict rather than a pass"""
    prog = flow.prog
    f = prog.func(FLC)
    body = f.node.body
    solve_at = None
    for k, st in enumerate(body):
        if any(isinstance(c, ast.Call) and isinstance(c.func, (ast.Attribute, ast.Name)) and ast.unparse(c.func).split(".")[-1] == "null_space" for c in ast.walk(st)):
            if isinstance(st, (ast.If, ast.For, ast.While, ast.Try, ast.With)):
                raise AnalysisError(f"{pyfacts.where(f, st)}: the kernel routine is called under a condition / inside a loop: which answers come out of the linear system cannot be decided")
            solve_at = k
            break
    if solve_at is None:
        return      # solved in a helper: the stub evaluation decides whether it is consulted
    for st in body[:solve_at]:
        for r in [x for x in ast.walk(st) if isinstance(x, ast.Return)]:
            if r.value is None or (isinstance(r.value, ast.Constant) and r.value.value is None):
                raise AnalysisError(f"{pyfacts.where(f, r)}: 'no layer exists' is answered before the linear system is solved [{pyfacts.norm_stmt(r)}]: whether the shortcut's condition really excludes every layer - also for fewer operators than qubits - is outside the rules on filter and span (no verdict)")
            if r.value is not None and not (isinstance(r.value, ast.Constant) and r.value.value is None):
                raise AnalysisError(f"{pyfacts.where(f, r)}: a layer is returned before the linear system is solved [{pyfacts.norm_stmt(r)}]: this fast path answers without the kernel search, its correctness is outside the rules on filter and span (no verdict)")


@raises_are_findings("K6")
def K6_filter(rep, flow: Flow):
    rep.rule("K6", "validity filter of the layer search: over all 16 coefficient patterns of one qubit and all 256 of two qubits, a candidate is accepted exactly when every qubit's combination of basis blocks is invertible (a genuine single-qubit Clifford), and the returned blocks are those combinations at the right diagonal positions", floor=272, exhaustive=True)
    _k6_solve_dominates(flow)
    try:
        _k6_by_kernel_stub(rep, flow)
        return
    except (consteval.Unsupported, CERaise) as ex:
        rep.note(f"K6: whole-function evaluation not possible ({str(ex)[:160]}); falling back to the candidate loop of the function body")
        rep.findings[:] = [x for x in rep.findings if x.rule != "K6"]
        rep.rules["K6"]["instances"] = 0
        rep.rules["K6"]["nontrivial"] = set()
    _k6_by_loop(rep, flow)


def _k6_by_loop(rep, flow: Flow):
    prog = flow.prog
    f = prog.func(FLC)
    ce = CE(prog)
    # literal prefix: the basis blocks and their order, taken from the function itself
    env = {}
    loop = None
    for st in f.node.body:
        if isinstance(st, ast.For) and isinstance(st.iter, ast.Name) and any(isinstance(r, ast.Return) for r in ast.walk(st)):
            loop = st
            break
        if isinstance(st, ast.Assign) and len(st.targets) == 1 and isinstance(st.targets[0], ast.Name):
            v = st.value
            simple = all(isinstance(n, (ast.Constant, ast.List, ast.Tuple, ast.Name, ast.Load, ast.Attribute, ast.Call, ast.keyword)) for n in ast.walk(v))
            calls = [n for n in ast.walk(v) if isinstance(n, ast.Call)]
            if simple and all(ast.unparse(c.func) in ("np.array", "len") for c in calls):
                try:
                    env[st.targets[0].id] = ce.ev(v, env, f)
                except (AnalysisError, CERaise, KeyError):
                    pass
    if loop is None:
        raise AnalysisError(f"{FLC}: candidate loop not found (anchor vanished)")
    basis_name = None
    for n in ast.walk(loop):
        if isinstance(n, ast.Subscript) and isinstance(n.value, ast.Name) and isinstance(env.get(n.value.id), list) and len(env[n.value.id]) == 4:
            basis_name = n.value.id
    if basis_name is None:
        raise AnalysisError(f"{FLC}: basis list of four blocks not found")
    cs = [list(m.d) for m in env[basis_name]]
    rep.analysed["K6 basis order (from the function's own literals)"] = cs
    for nq in (1, 2):
        for coef in itertools.product((0, 1), repeat=4 * nq):
            e = dict(env)
            e[loop.iter.id] = Mat([list(coef)], 2)
            e["n"] = nq
            combs = [[sum(coef[4 * q + k] * cs[k][j] for k in range(4)) % 2 for j in range(4)] for q in range(nq)]
            dets = [(c[0] * c[3] - c[1] * c[2]) % 2 for c in combs]
            try:
                ce.stmt(loop, e, f)
                res = None
            except consteval._Ret as r:
                res = r.v
            key = f"coef:{nq}:{''.join(map(str, coef))}"
            if res is None:
                if all(d == 1 for d in dets):
                    rep.finding("K6", key, f"find_local_clifford_layer.py find_local_clifford_layer: coefficient pattern {list(coef)} ({nq} qubit(s)) combines to the invertible block(s) {combs} but is rejected by the validity filter (a valid layer is missed)")
                else:
                    rep.ok("K6", 1, nontrivial=(nq, coef))
            else:
                blocks = [[res[j].d[q][q] for j in range(4)] for q in range(nq)]
                off = [res[j].d[a][b] for j in range(4) for a in range(nq) for b in range(nq) if a != b]
                if not all(d == 1 for d in dets):
                    rep.finding("K6", key, f"find_local_clifford_layer.py find_local_clifford_layer: coefficient pattern {list(coef)} passes the validity filter but combines to the singular block(s) {combs}: the returned layer is not a Clifford")
                elif blocks != combs or any(off):
                    rep.finding("K6", key, f"find_local_clifford_layer.py find_local_clifford_layer: pattern {list(coef)} returns blocks {blocks} (off-diagonal {off}), the combination of the basis blocks is {combs}")
                else:
                    rep.ok("K6", 1, nontrivial=(nq, coef), sample=f"{list(coef)} -> blocks {blocks} (det 1)")


def _k9_by_kernel_stub(rep, flow):
    """for kernels of 2 and 3 rows (two qubits) and every non-empty subset T of the rows: a kernel is constructed in which
    the sum over T is the ONLY valid candidate of the span; the search must answer with exactly that candidate"""
    cs, ce, f, nsfq = flow._k6_stub
    prog = flow.prog
    nq = 2

    def blocks_of(v):
        return [[sum(v[4 * q + k] * cs[k][j] for k in range(4)) % 2 for j in range(4)] for q in range(nq)]

    def valid(v):
        return all((c[0] * c[3] - c[1] * c[2]) % 2 == 1 for c in blocks_of(v))

    vecs = [v for v in itertools.product((0, 1), repeat=4 * nq) if any(v)]

    def xor(rows):
        return tuple(sum(r[i] for r in rows) % 2 for i in range(4 * nq))
    n_ok = 0
    for r in (2, 3):
        subsets = [T for k in range(1, r + 1) for T in itertools.combinations(range(r), k)]
        for T in subsets:
            budget = [60000]

            def extend(rows):
                k = len(rows)
                if k == r:
                    return rows
                for v in vecs:
                    if v in rows:
                        continue
                    budget[0] -= 1
                    if budget[0] < 0:
                        return None          # no witness within the search budget: this subset is left undecided (noted)
                    cand = rows + [v]
                    if all(valid(xor([cand[i] for i in U])) == (U == T) for U in subsets if max(U) == k):
                        got = extend(cand)
                        if got is not None:
                            return got
                return None
            found = extend([])
            if found is None:
                rep.note(f"K9: no witness kernel with {r} rows for subset {T} under the basis read off in K6")
                continue
            calls = []

            def stub(*a, _rows=found, **k):
                calls.append(1)
                return Mat([list(x) for x in _rows], 2)
            ce.stubs = {nsfq: stub}
            g = _graph(ce, prog, nq, [])
            res = ce.call_func(f, [_eye(nq), Mat.zeros((nq, nq)), g], {})
            if len(calls) != 1:
                raise consteval.Unsupported(f"the search consulted the kernel routine {len(calls)} time(s) on the probe input, expected once")
            want = blocks_of(xor([found[i] for i in T]))
            got = None
            if isinstance(res, (list, tuple)) and len(res) == 4 and all(isinstance(m, Mat) and m.shape == (nq, nq) for m in res):
                got = [[res[j].d[q][q] for j in range(4)] for q in range(nq)]
            if got != want:
                rep.finding("K9", f"{FLC}:span:{r}:{T}", f"find_local_clifford_layer.py find_local_clifford_layer: with the kernel rows {[list(x) for x in found]} the only valid candidate of the span is the sum of rows {list(T)} (blocks {want}); the search answers {got}: the kernel span is not searched completely (a valid layer can be missed)")
            else:
                n_ok += 1
    if n_ok:
        rep.ok("K9", n_ok, nontrivial="span-by-evaluation", sample=f"{n_ok} witness kernels (2 and 3 rows, every subset of rows): the single valid element of the span is found")


@raises_are_findings("K9")
def K9_enumeration(rep, flow: Flow):
    rep.rule("K9", "the whole span of the kernel basis is searched: (a) evaluated with the kernel routine stubbed - for kernels of 2 and 3 rows and every non-empty subset of the rows, the one valid candidate placed at that subset's sum is found; (b) where the enumeration is written as product([0,1], repeat=r) x kernel in the function itself, r is the number of kernel rows", floor=1)
    f = flow.prog.func(FLC)
    # (c) the enumeration runs over 2^r combinations with r up to 4n = 24 (every qubit free): a counter array with an explicit
    # element type of 8 or 16 bits wraps around silently beyond 2^8 / 2^16 - the candidates above are never looked at
    narrow = ("int8", "uint8", "int16", "uint16")
    for g in sorted(flow.prog.closure([f], may=True), key=lambda x: x.fq):
        if g.module is not f.module:
            continue
        for c in [x for x in ast.walk(g.node) if isinstance(x, ast.Call) and ast.unparse(x.func).split(".")[-1] in ("arange", "array", "asarray", "fromiter")]:
            dt = next((ast.unparse(k.value).split(".")[-1] for k in c.keywords if k.arg == "dtype"), None)
            pow2 = any((isinstance(b, ast.BinOp) and isinstance(b.op, ast.Pow) and isinstance(b.left, ast.Constant) and b.left.value == 2 and not isinstance(b.right, ast.Constant)) or
                       (isinstance(b, ast.BinOp) and isinstance(b.op, ast.LShift) and isinstance(b.left, ast.Constant) and b.left.value == 1 and not isinstance(b.right, ast.Constant)) for a in c.args for b in ast.walk(a))
            if dt in narrow and pow2:
                rep.finding("K9", f"{g.fq}:narrow-counter", f"{pyfacts.where(g, c)}: `{pyfacts.norm_stmt(c)[:100]}` counts up to a power of two of the kernel dimension in {dt}: the dimension reaches 4n = 24 for six free qubits (18 for a fully separable state), the counter wraps around at 2^{8 if '8' in dt else 16} and the combinations beyond are never examined (a layer that exists is reported absent)")
    by_eval = False
    if getattr(flow, "_k6_stub", None) is not None:
        try:
            _k9_by_kernel_stub(rep, flow)
            by_eval = True
        except (consteval.Unsupported, CERaise) as ex:
            rep.note(f"K9: evaluation with a stubbed kernel not possible ({str(ex)[:120]})")
    prods = [n for n in ast.walk(f.node) if isinstance(n, ast.Call) and ast.unparse(n.func).endswith("product")]
    if len(prods) != 1:
        if by_eval:
            rep.note("K9: the enumeration is not written as one itertools.product call in the function body; decided by evaluation (a) alone")
            return
        raise AnalysisError(f"{FLC}: expected one itertools.product call, found {len(prods)}")
    p = prods[0]
    rk = next((k.value for k in p.keywords if k.arg == "repeat"), None)
    dom = p.args[0] if p.args else None
    dom_ok = isinstance(dom, (ast.List, ast.Tuple)) and sorted(getattr(x, "value", None) for x in dom.elts) == [0, 1]
    # the last assignment to the repeat variable before the product call
    src = None
    kernel_names = set()
    for st in f.node.body:
        if isinstance(st, ast.Assign) and isinstance(st.targets[0], ast.Name) and isinstance(st.value, ast.Call) and ast.unparse(st.value.func).endswith("null_space"):
            kernel_names.add(st.targets[0].id)
    if isinstance(rk, ast.Name):
        for st in f.node.body:
            if st.lineno >= p.lineno:
                break
            if isinstance(st, ast.Assign) and isinstance(st.targets[0], ast.Name) and st.targets[0].id == rk.id:
                src = st.value
    src_txt = ast.unparse(src) if src is not None else (ast.unparse(rk) if rk is not None else "absent")
    r_ok = any(src_txt in (f"{k}.shape[0]", f"len({k})") for k in kernel_names)
    # the product is multiplied with the same kernel
    mul = [n for n in ast.walk(f.node) if isinstance(n, ast.Call) and ast.unparse(n.func).endswith("mat_mul") and len(n.args) == 2 and
           any(k in ast.unparse(n.args[1]) for k in kernel_names)]
    if dom_ok and r_ok and mul:
        rep.ok("K9", 1, nontrivial="span", sample=f"product({ast.unparse(dom)}, repeat={src_txt}) x kernel")
    else:
        rep.finding("K9", f"{FLC}:span", f"{pyfacts.where(f, p)}: candidates are product({ast.unparse(dom) if dom is not None else '?'}, repeat={src_txt}){'' if mul else ' not multiplied with the kernel'}: not the whole span of the kernel basis (a valid layer can be missed)")


# ---------------------------------------------------------------------------------------------
def _np_array_calls(f):
    for n in ast.walk(f.node):
        if isinstance(n, ast.Call) and ast.unparse(n.func) in ("np.array", "numpy.array", "np.asarray"):
            yield n


def _has_dtype(call):
    return any(k.arg == "dtype" for k in call.keywords) or len(call.args) >= 2


def may_be_empty_list(f, expr):
    """why a list expression may be empty (or contain only empty rows), or None"""
    if isinstance(expr, ast.Name):
        inits = [n for n in ast.walk(f.node) if isinstance(n, ast.Assign) and isinstance(n.targets[0], ast.Name) and n.targets[0].id == expr.id]
        if inits and all(isinstance(i.value, ast.List) and not i.value.elts for i in inits):
            # appended to only conditionally / in loops that may not run
            apps = [n for n in ast.walk(f.node) if isinstance(n, ast.Call) and isinstance(n.func, ast.Attribute) and n.func.attr == "append" and isinstance(n.func.value, ast.Name) and n.func.value.id == expr.id]
            uncond = [a for a in apps if _top_level_stmt(f, a)]
            if not uncond:
                return f"`{expr.id}` starts as [] and is appended to only inside loops / under conditions"
        return None
    # list(product(...)) / tuple(product(...)) / product(...) itself: the same sequence as the comprehension over it
    inner = expr
    while isinstance(inner, ast.Call) and isinstance(inner.func, ast.Name) and inner.func.id in ("list", "tuple", "sorted") and len(inner.args) == 1:
        inner = inner.args[0]
    if isinstance(inner, ast.Call) and ast.unparse(inner.func).endswith("product"):
        rk = next((k.value for k in inner.keywords if k.arg == "repeat"), None)
        if rk is not None and not (isinstance(rk, ast.Constant) and isinstance(rk.value, int) and rk.value > 0):
            return f"product(..., repeat={ast.unparse(rk)}) yields a single empty tuple when {ast.unparse(rk)} is 0"
    if isinstance(expr, (ast.ListComp, ast.GeneratorExp)):
        it = expr.generators[0].iter
        if isinstance(it, ast.Call) and ast.unparse(it.func).endswith("product"):
            rk = next((k.value for k in it.keywords if k.arg == "repeat"), None)
            if rk is not None and not (isinstance(rk, ast.Constant) and isinstance(rk.value, int) and rk.value > 0):
                return f"product(..., repeat={ast.unparse(rk)}) yields a single empty tuple when {ast.unparse(rk)} is 0"
    return None


def _top_level_stmt(f, node):
    for st in f.node.body:
        if isinstance(st, ast.Expr) and st.value is node:
            return True
    return False


def E1_typed_empties(rep, flow: Flow, fqs, rule_floor=2):
    rep.rule("E1", "no GF(2) array is built by an untyped np.array from a sequence that may be empty (numpy then yields float64, on which bitwise operators fail); the kernel routine returns an integer-typed two-dimensional array also when the kernel is trivial", floor=rule_floor)
    for fq in fqs:
        f = flow.prog.func(fq)
        for call in _np_array_calls(f):
            if not call.args:
                continue
            why = may_be_empty_list(f, call.args[0])
            if why is None:
                rep.ok("E1", 1, nontrivial=(fq, pyfacts.norm_stmt(call)))
                continue
            guarded = _empty_guard(f, call)
            if _has_dtype(call) or guarded:
                rep.ok("E1", 1, nontrivial=(fq, pyfacts.norm_stmt(call)), sample=f"{fq}: {pyfacts.norm_stmt(call)} is typed{' / guarded' if guarded else ''} although {why}")
            else:
                rep.finding("E1", f"{fq}:{ast.unparse(call.args[0])[:40]}", f"{pyfacts.where(f, call)}: `{pyfacts.norm_stmt(call)}` has no dtype and {why}: the result is float64 and the following GF(2) arithmetic raises TypeError instead of giving the documented answer")


def _empty_guard(f, call):
    """an earlier top-level `if not x:` / `if len(x) == 0:` returning a typed array"""
    arg = call.args[0]
    if not isinstance(arg, ast.Name):
        return False
    for st in f.node.body:
        if st.lineno >= call.lineno:
            break
        if isinstance(st, ast.If) and arg.id in ast.unparse(st.test) and any(isinstance(x, ast.Return) for x in st.body):
            ret = next(x for x in st.body if isinstance(x, ast.Return))
            if ret.value is not None and "dtype" in ast.unparse(ret.value) or (ret.value is not None and "int8" in ast.unparse(ret.value)):
                return True
    return False


def E1_kernel_shape(rep, flow: Flow, fq="f2_algebra.null_space"):
    """the kernel routine's result must be 2-D (k, cols) for k = 0 as well"""
    f = flow.prog.func(fq)
    rets = [n for n in ast.walk(f.node) if isinstance(n, ast.Return) and n.value is not None]
    if not rets:
        raise AnalysisError(f"{fq}: no return")
    for r in rets:
        txt = ast.unparse(r.value)
        v = r.value
        shaped = False
        if isinstance(v, ast.Call) and isinstance(v.func, ast.Attribute) and v.func.attr == "reshape":
            shaped = True
        if isinstance(v, ast.Call) and ast.unparse(v.func) in ("np.zeros", "np.empty") and v.args and isinstance(v.args[0], (ast.Tuple, ast.List)) and len(v.args[0].elts) == 2:
            shaped = True
        inner = [c for c in ast.walk(v) if isinstance(c, ast.Call) and ast.unparse(c.func) in ("np.array", "np.asarray")]
        may_empty = any(c.args and may_be_empty_list(f, c.args[0]) for c in inner)
        if may_empty and not shaped and not any(_empty_guard(f, c) for c in inner):
            rep.finding("E1", f"{fq}:shape", f"{pyfacts.where(f, r)}: `return {txt}` has shape (0,) when the kernel is trivial; callers index .shape[0] / multiply by it as a (k, cols) matrix")
        else:
            rep.ok("E1", 1, nontrivial=(fq, "shape", txt), sample=f"{fq}: return {txt}")


def K19b_no_reinterpretation(rep, flow: Flow, module="f2_algebra"):
    """`a.view(<dtype>)` re-reads the BYTES of an array under another element type (an int64 matrix becomes eight int8
    columns per entry); converting values is `astype`.  In the GF(2) routines, whose inputs come in every integer dtype,
    a view with a dtype argument is therefore reported."""
    rep.rule("K19b", "no GF(2) routine re-interprets the bytes of a matrix under another element type (`.view(dtype)`); conversions use astype", floor=0)
    m = flow.prog.modules.get(module)
    if m is None:
        raise AnalysisError(f"module {module} vanished")
    for f in m.all_funcs:
        for c in [x for x in ast.walk(f.node) if isinstance(x, ast.Call) and isinstance(x.func, ast.Attribute) and x.func.attr == "view" and (x.args or x.keywords)]:
            rep.finding("K19b", f"{f.fq}:view", f"{pyfacts.where(f, c)}: `{pyfacts.norm_stmt(c)[:80]}` re-reads the bytes of the array as another element type: for an input of a wider integer type (numpy's default int64) the result has several columns per entry and is not the matrix; `astype` converts the values")
        rep.ok("K19b", 1, nontrivial=(f.fq,))


def K19_mod2_updates(rep, flow: Flow, fqs=("f2_algebra.rref", "f2_algebra.rref_and_basis_change", "f2_algebra.rank", "f2_algebra.null_space")):
    """every arithmetic row update of an elimination stays inside {0, 1} for every integer dtype: the stored expression is
    `... % 2`, `... & 1` or an exclusive-or of rows.  A sum / difference / product stored without the reduction leaves 2 or
    -1 in the matrix (later `== 1` tests miss it); any other closing operation (abs, clip, astype(bool) ...) is outside the
    rule: no verdict"""
    rep.rule("K19", "row updates of the eliminations are reduced into {0, 1}: the stored arithmetic expression ends in `% 2`, `& 1` or is an exclusive-or", floor=1)
    for fq in fqs:
        try:
            f = flow.prog.func(fq)
        except AnalysisError:
            continue
        for st in [x for x in ast.walk(f.node) if isinstance(x, (ast.Assign, ast.AugAssign))]:
            tg = st.target if isinstance(st, ast.AugAssign) else st.targets[0]
            if not isinstance(tg, ast.Subscript):
                continue
            if isinstance(st, ast.AugAssign):
                if isinstance(st.op, ast.BitXor):
                    rep.ok("K19", 1, nontrivial=(fq, st.lineno), sample=f"{f.qualname}: {pyfacts.norm_stmt(st)[:80]}")
                elif isinstance(st.op, (ast.Add, ast.Sub, ast.Mult)):
                    rep.finding("K19", f"{fq}:aug:{type(st.op).__name__}", f"{pyfacts.where(f, st)}: the row update `{pyfacts.norm_stmt(st)}` is not reduced modulo 2: entries leave {{0, 1}} (1 + 1 = 2, 0 - 1 = -1 or 255) and later pivot tests no longer see them")
                continue
            v = st.value
            arith = [b for b in ast.walk(v) if isinstance(b, ast.BinOp) and isinstance(b.op, (ast.Add, ast.Sub, ast.Mult, ast.BitXor, ast.Mod, ast.BitAnd))]
            # only updates that combine matrix rows: some operand subscripts the array that is stored into
            base = tg.value.id if isinstance(tg.value, ast.Name) else None
            if not arith or base is None or not any(isinstance(x, ast.Subscript) and isinstance(x.value, ast.Name) and x.value.id == base for x in ast.walk(v)):
                continue
            top = v
            closed = (isinstance(top, ast.BinOp) and ((isinstance(top.op, ast.Mod) and isinstance(top.right, ast.Constant) and top.right.value == 2) or
                                                      (isinstance(top.op, ast.BitAnd) and isinstance(top.right, ast.Constant) and top.right.value == 1) or
                                                      isinstance(top.op, ast.BitXor))) or \
                     (isinstance(top, ast.Call) and ast.unparse(top.func).split(".")[-1] in ("bitwise_xor", "logical_xor", "add", "mat_mul"))
            if closed:
                rep.ok("K19", 1, nontrivial=(fq, st.lineno), sample=f"{f.qualname}: {pyfacts.norm_stmt(st)[:80]}")
            elif isinstance(top, ast.BinOp) and isinstance(top.op, (ast.Add, ast.Sub, ast.Mult)):
                rep.finding("K19", f"{fq}:{type(top.op).__name__}", f"{pyfacts.where(f, st)}: the row update `{pyfacts.norm_stmt(st)}` is not reduced modulo 2: entries leave {{0, 1}} (1 + 1 = 2, 0 - 1 = -1 or 255) and later pivot tests no longer see them")
            else:
                raise AnalysisError(f"{pyfacts.where(f, st)}: the row update `{pyfacts.norm_stmt(st)[:100]}` closes its arithmetic by something other than `% 2`, `& 1` or an exclusive-or: whether it stays inside {{0, 1}} for every integer dtype (unsigned ones wrap around on subtraction) is a value-level question (no verdict)")


def K18_dimension_formula(rep, flow: Flow):
    """rank + nullity = number of columns, structurally: (a) the rank is the length of the pivot list that rref returns
    (the list the kernel routine complements); (b) an early return of an EMPTY kernel basis is taken only when every
    column is a pivot column - its guard is evaluated for pivot lists of length 0, 1 and cols"""
    rep.rule("K18", "rank and kernel agree on the pivot list: the rank is its length; the kernel routine hands out an empty basis early only if every column is a pivot column", floor=1)
    prog = flow.prog
    # (a) rank
    f = prog.func("f2_algebra.rank")
    for r in [x for x in ast.walk(f.node) if isinstance(x, ast.Return) and x.value is not None]:
        v = r.value
        while isinstance(v, ast.Call) and isinstance(v.func, ast.Name) and v.func.id == "int" and len(v.args) == 1:
            v = v.args[0]
        piv_names = set()
        for a in ast.walk(f.node):
            if isinstance(a, ast.Assign) and isinstance(a.targets[0], ast.Tuple) and len(a.targets[0].elts) == 2 and isinstance(a.value, ast.Call) and ast.unparse(a.value.func).split(".")[-1] == "rref" \
                    and isinstance(a.targets[0].elts[1], ast.Name):
                piv_names.add(a.targets[0].elts[1].id)
        def is_pivots(e):
            if isinstance(e, ast.Name) and e.id in piv_names:
                return True
            return isinstance(e, ast.Subscript) and isinstance(e.slice, ast.Constant) and e.slice.value == 1 and isinstance(e.value, ast.Call) and ast.unparse(e.value.func).split(".")[-1] == "rref"
        if isinstance(v, ast.Call) and isinstance(v.func, ast.Name) and v.func.id == "len" and len(v.args) == 1 and is_pivots(v.args[0]):
            rep.ok("K18", 1, nontrivial=("rank", "len(pivots)"), sample=f"rank: {pyfacts.norm_stmt(r)}")
            continue
        calls = [c for c in ast.walk(v) if isinstance(c, ast.Call) and isinstance(c.func, ast.Attribute)]
        if any(c.func.attr in ("trace", "diagonal", "diag") for c in calls):
            continue        # reported by K17b
        # the other textbook form: the number of non-zero rows of the reduced matrix - count_nonzero / sum over any(axis=1)
        mat_names = set()
        for a in ast.walk(f.node):
            if isinstance(a, ast.Assign) and isinstance(a.targets[0], ast.Tuple) and len(a.targets[0].elts) == 2 and isinstance(a.value, ast.Call) and ast.unparse(a.value.func).split(".")[-1] == "rref" \
                    and isinstance(a.targets[0].elts[0], ast.Name):
                mat_names.add(a.targets[0].elts[0].id)
        def is_reduced(e):
            if isinstance(e, ast.Name) and e.id in mat_names:
                return True
            return isinstance(e, ast.Subscript) and isinstance(e.slice, ast.Constant) and e.slice.value == 0 and isinstance(e.value, ast.Call) and ast.unparse(e.value.func).split(".")[-1] == "rref"
        def row_any(e):
            if not isinstance(e, ast.Call):
                return False
            ax = [k.value for k in e.keywords if k.arg == "axis"]
            if isinstance(e.func, ast.Attribute) and e.func.attr == "any" and is_reduced(e.func.value):
                ax = ax or list(e.args[:1])
            elif ast.unparse(e.func) in ("np.any", "numpy.any") and e.args and is_reduced(e.args[0]):
                ax = ax or list(e.args[1:2])
            else:
                return False
            return len(ax) == 1 and isinstance(ax[0], ast.Constant) and ax[0].value in (1, -1)
        def counts_rows(e):
            if isinstance(e, ast.Call) and ast.unparse(e.func) in ("np.count_nonzero", "numpy.count_nonzero", "np.sum", "numpy.sum", "sum") and len(e.args) == 1 and not e.keywords:
                return row_any(e.args[0])
            if isinstance(e, ast.Call) and isinstance(e.func, ast.Attribute) and e.func.attr == "sum" and not e.args and not e.keywords:
                return row_any(e.func.value)
            return False
        if counts_rows(v):
            rep.ok("K18", 1, nontrivial=("rank", "non-zero rows"), sample=f"rank: {pyfacts.norm_stmt(r)} (number of non-zero rows of the reduced matrix)")
            continue
        if any(c.func.attr in ("argmin", "argmax") for c in calls):
            rep.finding("K18", "rank:argext", f"{pyfacts.where(f, r)}: the rank is an argmin / argmax over a row test of the reduced matrix [{pyfacts.norm_stmt(r)}]: 'position of the first row without / with the feature' is 0 when NO row has it, so a matrix whose reduced form has no zero row (full row rank, e.g. the identity) gets rank 0")
            continue
        raise AnalysisError(f"{pyfacts.where(f, r)}: the rank is not the length of the pivot list of rref [{pyfacts.norm_stmt(r)}]: whether the other computation counts the pivots is a value-level question (no verdict)")
    # (b) early empty returns of the kernel routine
    g = prog.func("f2_algebra.null_space")
    ce = CE(prog)
    piv = cols = None
    for a in ast.walk(g.node):
        if isinstance(a, ast.Assign) and isinstance(a.targets[0], ast.Tuple) and len(a.targets[0].elts) == 2 and isinstance(a.value, ast.Call) and ast.unparse(a.value.func).split(".")[-1] == "rref" \
                and isinstance(a.targets[0].elts[1], ast.Name):
            piv = a.targets[0].elts[1].id
        if isinstance(a, ast.Assign) and isinstance(a.targets[0], ast.Name) and isinstance(a.value, ast.Subscript) and isinstance(a.value.value, ast.Attribute) and a.value.value.attr == "shape" \
                and isinstance(a.value.slice, ast.Constant) and a.value.slice.value == 1:
            cols = a.targets[0].id
    # (c) the free columns are sought among ALL columns: a loop that tests `i not in <pivot list>` runs over range(cols)
    for lp in [x for x in ast.walk(g.node) if isinstance(x, ast.For) and isinstance(x.target, ast.Name)]:
        tests = [t for t in ast.walk(lp) if isinstance(t, ast.Compare) and len(t.ops) == 1 and isinstance(t.ops[0], (ast.NotIn, ast.In)) and isinstance(t.left, ast.Name) and t.left.id == lp.target.id
                 and isinstance(t.comparators[0], ast.Name) and t.comparators[0].id == piv]
        if not tests or piv is None:
            continue
        it = lp.iter
        full = isinstance(it, ast.Call) and isinstance(it.func, ast.Name) and it.func.id == "range" and len(it.args) == 1 and \
            ((isinstance(it.args[0], ast.Name) and it.args[0].id == cols) or ast.unparse(it.args[0]).endswith(".shape[1]"))
        if full:
            rep.ok("K18", 1, nontrivial=("kernel", "free columns"), sample=f"null_space: free columns sought in {ast.unparse(it)}")
        elif isinstance(it, ast.Call) and isinstance(it.func, ast.Name) and it.func.id == "range":
            rep.finding("K18", "kernel:free-range", f"{pyfacts.where(g, lp)}: the free (non-pivot) columns are sought in `{ast.unparse(it)}` only, not among all {cols or 'cols'} columns: a free column outside that range (e.g. a zero first / last column) contributes no kernel vector, the basis is too small")
        else:
            raise AnalysisError(f"{pyfacts.where(g, lp)}: the loop that selects the free columns runs over `{ast.unparse(it)[:60]}`: whether that covers every column cannot be decided")
    derived = {}        # locals computed from the pivot list / column count alone, in statement order: name -> expression
    for st in g.node.body:
        if isinstance(st, ast.Assign) and len(st.targets) == 1 and isinstance(st.targets[0], ast.Name) and piv is not None and cols is not None:
            nm_ = {x.id for x in ast.walk(st.value) if isinstance(x, ast.Name)} - {"len", "np", "range", "set", "sorted", "list", "tuple", "int", "bool"}
            if nm_ and nm_ <= ({piv, cols} | set(derived)) and st.targets[0].id not in (piv, cols):
                derived[st.targets[0].id] = st.value
        if isinstance(st, (ast.For, ast.While)):
            break       # what follows the loop that builds the basis is conditioned on the result, not an early exit
        if not (isinstance(st, ast.If) and any(isinstance(x, ast.Return) for x in st.body)):
            continue
        if derived and any(isinstance(x, ast.Name) and x.id in derived for x in ast.walk(st.test)):
            # substitute the derived locals (innermost last) so that the guard speaks about the pivot list and the column count
            class _Sub(ast.NodeTransformer):
                def visit_Name(self, node):
                    if isinstance(node.ctx, ast.Load) and node.id in derived:
                        return self.visit(copy.deepcopy(derived[node.id]))
                    return node
            st = copy.copy(st)
            st.test = ast.fix_missing_locations(_Sub().visit(copy.deepcopy(st.test)))
        ret = next(x for x in st.body if isinstance(x, ast.Return))
        v = ret.value
        empty = isinstance(v, ast.Call) and ast.unparse(v.func) in ("np.zeros", "np.empty") and v.args and isinstance(v.args[0], (ast.Tuple, ast.List)) and len(v.args[0].elts) == 2 \
            and isinstance(v.args[0].elts[0], ast.Constant) and v.args[0].elts[0].value == 0
        names = {x.id for x in ast.walk(st.test) if isinstance(x, ast.Name)} - {"len", "np"}
        whole = isinstance(v, ast.Call) and ast.unparse(v.func) in ("np.eye", "np.identity") and v.args and isinstance(v.args[0], ast.Name) and v.args[0].id == cols
        if whole and piv is not None and cols is not None and names <= {piv, cols}:
            try:
                tb = {npiv: bool(ce.truth(ce.ev(st.test, {piv: list(range(npiv)), cols: 3}, g))) for npiv in (0, 1, 3)}
            except (CERaise, AnalysisError) as ex:
                raise AnalysisError(f"{pyfacts.where(g, st)}: guard `{ast.unparse(st.test)}` of the early return cannot be evaluated ({str(ex)[:80]})")
            badw = [k for k in (1, 3) if tb[k]]
            if badw:
                rep.finding("K18", f"kernel:early-whole:{badw[0]}", f"{pyfacts.where(g, st)}: the whole space (identity basis) is returned when `{ast.unparse(st.test)}`, which holds for {badw[0]} pivot column(s) out of 3: the kernel then has dimension {3 - badw[0]}, not 3")
            else:
                rep.ok("K18", 1, nontrivial=("kernel", ast.unparse(st.test)), sample=f"null_space: the whole space only when `{ast.unparse(st.test)}` (no pivot column)")
            continue
        if not empty or piv is None or cols is None or not names <= {piv, cols}:
            raise AnalysisError(f"{pyfacts.where(g, st)}: the kernel routine returns early under `{ast.unparse(st.test)}`: neither an empty basis under a condition on the pivot list alone nor anything else K18 can decide (no verdict)")
        table = {}
        try:
            for npiv in (0, 1, 3):
                table[npiv] = bool(ce.truth(ce.ev(st.test, {piv: list(range(npiv)), cols: 3}, g)))
        except (CERaise, AnalysisError) as ex:
            raise AnalysisError(f"{pyfacts.where(g, st)}: guard `{ast.unparse(st.test)}` of the early return cannot be evaluated ({str(ex)[:80]})")
        bad = [k for k in (0, 1) if table[k]]
        if bad:
            rep.finding("K18", f"kernel:early-empty:{bad[0]}", f"{pyfacts.where(g, st)}: an empty kernel basis is returned when `{ast.unparse(st.test)}`, which holds for {bad[0]} pivot column(s) out of 3: the kernel then has dimension {3 - bad[0]} (for no pivot at all - the zero matrix - it is the whole space), not 0")
        else:
            rep.ok("K18", 1, nontrivial=("kernel", ast.unparse(st.test)), sample=f"null_space: early empty basis only when `{ast.unparse(st.test)}` (all columns are pivot columns)")


# ---------------------------------------------------------------------------------------------
@raises_are_findings("K10")
def K10_K11_codec(rep, flow: Flow, tier):
    rep.rule("K10", "compress and decompress realise the same bit layout: edge (i,j), i<j, <-> bit rank(i,j) in row-major upper-triangular order (documented 5x5 layout), by loop-nest shape (counter advanced exactly once per (i,j), unconditionally) and evaluation on every single-edge graph for n = 2..6", floor=70, exhaustive=True)
    rep.rule("K11", "edge primitives: add_edge stores both (a,b) and (b,a) and ignores a = b; has_edge tests the stored entry", floor=4, exhaustive=True)
    prog = flow.prog
    gc = prog.cls("graph.Graph")
    comp, dec = gc.methods.get("compress"), gc.methods.get("decompress")
    if comp is None or dec is None:
        raise AnalysisError("Graph.compress / Graph.decompress vanished")
    # --- loop-nest shape (makes the codec linear in the edges, so that the unit graphs decide it); code of another
    # shape (vectorised, memoised ...) is decided by evaluating it on EVERY graph instead
    def nest(f):
        outer = [n for n in f.node.body if isinstance(n, ast.For)]
        return len(outer) == 1 and any(isinstance(n, ast.For) for n in outer[0].body)
    if not (nest(comp) and nest(dec)):
        _k10_exhaustive(rep, flow, tier, comp, dec)
        _k11_primitives(rep, prog, gc)
        return
    for f in (comp, dec):
        outer = [n for n in f.node.body if isinstance(n, ast.For)]
        inner = next(n for n in outer[0].body if isinstance(n, ast.For))
        incs = [st for st in inner.body if isinstance(st, ast.AugAssign) and isinstance(st.op, ast.Add) and isinstance(st.value, ast.Constant) and st.value.value == 1]
        all_incs = [n for n in ast.walk(f.node) if isinstance(n, ast.AugAssign) and isinstance(n.op, ast.Add) and isinstance(n.target, ast.Name)]
        if len(incs) != 1 or len(all_incs) != 1:
            rep.finding("K10", f"{f.fq}:counter", f"{pyfacts.where(f, inner)}: the bit counter is not advanced exactly once, unconditionally, per inner iteration (increments found: {[pyfacts.norm_stmt(x) + ' @' + str(x.lineno) for x in all_incs]}): bit positions then depend on which edges are present")
        else:
            cnt = incs[0].target.id
            shifts = [n for n in ast.walk(f.node) if isinstance(n, ast.BinOp) and isinstance(n.op, ast.LShift)]
            if shifts and all(isinstance(s.right, ast.Name) and s.right.id == cnt and isinstance(s.left, ast.Constant) and s.left.value == 1 for s in shifts):
                rep.ok("K10", 1, nontrivial=(f.fq, "shape"), sample=f"{f.qualname}: counter `{cnt}` advanced once per (i,j), used as shift")
            else:
                rep.finding("K10", f"{f.fq}:shift", f"{f.module.rel} {f.qualname}: the shift amount is not the per-pair counter")
    # --- evaluation on unit graphs
    ce = CE(prog, max_steps=50_000_000)
    for n in range(2, 7):
        for i in range(n):
            for j in range(i + 1, n):
                g = _graph(ce, prog, n, [(i, j)])
                want = 1 << spec.bit_of_edge(n, i, j)
                got = ce.call_func(comp, [g], {})
                if got != want:
                    rep.finding("K10", f"compress:{n}:{i},{j}", f"graph.py Graph.compress: the graph with the single edge ({i},{j}) on {n} vertices compresses to {got}, documented bit position gives {want}")
                else:
                    rep.ok("K10", 1, nontrivial=("c", n, i, j), sample=f"n={n}: edge ({i},{j}) <-> bit {spec.bit_of_edge(n, i, j)}")
                g2 = ce.call_func(dec, [n, want], {})
                A = g2.attrs["adjacency_matrix"].d if isinstance(g2, Instance) else None
                es = {(a, b) for a in range(n) for b in range(a + 1, n) if A and (A[a][b] or A[b][a])}
                symm = A is not None and all(A[a][b] == A[b][a] for a in range(n) for b in range(n))
                if es != {(i, j)} or not symm:
                    rep.finding("K10", f"decompress:{n}:{i},{j}", f"graph.py Graph.decompress({n}, {want}) gives edges {sorted(es)}, documented: [({i}, {j})]")
                else:
                    rep.ok("K10", 1, nontrivial=("d", n, i, j))
    for (pair, bit) in spec.DOC_LAYOUT_5.items():
        if spec.bit_of_edge(5, *pair) != bit:
            raise AnalysisError("spec self-check: closed form disagrees with the documented 5x5 layout")
    # documented example: adjacency of the docstring -> 0b0110011011
    ex_edges = [(0, 1), (0, 2), (0, 4), (1, 2), (2, 3), (2, 4)]
    g = _graph(ce, prog, 5, ex_edges)
    got = ce.call_func(comp, [g], {})
    if got != 0b0110011011:
        rep.finding("K10", "compress:doc-example", f"graph.py Graph.compress: the docstring's 5x5 example compresses to {bin(got) if isinstance(got, int) else repr(got)}, documented 0b0110011011")
    else:
        rep.ok("K10", 1, nontrivial="doc-example", sample="docstring example -> 0b0110011011")
    _k11_primitives(rep, prog, gc)


def _k10_chunk(args):
    root, overlay, n, lo, hi = args
    from .vfs import Tree
    return _k10_eval(pyfacts.Program(Tree(root, overlay)), n, lo, hi)


def _k10_eval(prog, n, lo, hi):
    gc = prog.cls("graph.Graph")
    comp, dec = gc.methods["compress"], gc.methods["decompress"]
    ce = CE(prog, max_steps=2_000_000_000)
    pairs = [(i, j) for i in range(n) for j in range(i + 1, n)]
    ok, bad = 0, []
    for mask in range(lo, hi):
        edges = [p for k, p in enumerate(pairs) if mask >> k & 1]
        want = sum(1 << spec.bit_of_edge(n, i, j) for (i, j) in edges)
        try:
            got = ce.call_func(comp, [_graph(ce, prog, n, edges)], {})
            g2 = ce.call_func(dec, [n, want], {})
        except CERaise as ex:
            bad.append((f"codec:raise:{n}:{mask}", f"graph.py Graph.compress / decompress raise {ex.etype} on the graph with edges {edges} ({n} vertices)"))
            continue
        why = _graph_problem(g2, n, edges)
        if got != want:
            bad.append((f"compress:{n}:{mask}", f"graph.py Graph.compress: the graph with edges {edges} on {n} vertices compresses to {got}, the documented bit layout gives {want}"))
        elif why:
            bad.append((f"decompress:{n}:{mask}", f"graph.py Graph.decompress({n}, {want}): {why}"))
        else:
            ok += 1
        if len(bad) > 40:
            break
    return ok, bad, ce.steps, sorted(ce.touched | {gc.module.rel})


def _k10_exhaustive(rep, flow, tier, comp, dec):
    nmax = 5 if tier == "quick" else 6
    prog = flow.prog
    rep.note(f"K10: compress / decompress are not plain two-level loop nests; decided by evaluating both on every graph on 2..{nmax} vertices"
             + (" (n = 6: single-edge graphs only in the quick tier, every graph in the thorough tier)" if nmax == 5 else ""))
    jobs = []
    for n in range(2, nmax + 1):
        total = 1 << (n * (n - 1) // 2)
        step = total if n <= 4 else total // (16 if n == 5 else 64)
        jobs += [(n, lo, min(total, lo + step)) for lo in range(0, total, step)]
    if nmax == 5:
        jobs += [(6, 1 << k, (1 << k) + 1) for k in range(15)]
    def compute():
        import os
        if os.environ.get("SA_NO_POOL"):
            results = [_k10_eval(prog, *j) for j in jobs]
        else:
            import concurrent.futures
            with concurrent.futures.ProcessPoolExecutor(max_workers=16) as ex:
                results = list(ex.map(_k10_chunk, [(flow.tree.root, flow.tree.overlay) + j for j in jobs]))
        deps = set()
        out = []
        for (ok, bad, st, touched) in results:
            deps |= set(touched)
            out.append([ok, [list(b) for b in bad], st])
        return out, deps
    results = _memo(f"K10x:{nmax}", flow.tree, compute)
    steps = 0
    for (ok, bad, st) in results:
        steps += st
        if ok:
            rep.ok("K10", ok, distinct=ok, sample="compress(g) = documented id and decompress(n, id) = g, graph by graph")
        for (key, msg) in bad:
            rep.finding("K10", key, msg)
    rep.analysed["K10 exhaustive evaluation steps"] = steps


def _k11_primitives(rep, prog, gc):
    ce = CE(prog, max_steps=50_000_000)
    # --- K11
    g = _graph(ce, prog, 3, [(0, 1)])
    A = g.attrs["adjacency_matrix"].d
    he = gc.methods["has_edge"]
    facts = {
        "add_edge(0,1) stores (0,1)": A[0][1] == 1, "add_edge(0,1) stores (1,0)": A[1][0] == 1,
        "nothing else stored": sum(sum(r) for r in A) == 2,
        "has_edge(0,1)": ce.call_func(he, [g, 0, 1], {}) is True, "has_edge(1,0)": ce.call_func(he, [g, 1, 0], {}) is True,
        "not has_edge(0,2)": ce.call_func(he, [g, 0, 2], {}) is False,
    }
    g3 = _graph(ce, prog, 3, [(1, 1)])
    facts["add_edge(1,1) ignored"] = sum(sum(r) for r in g3.attrs["adjacency_matrix"].d) == 0
    # vertices are compared by VALUE: `a is b` holds for two equal numpy integers (what argwhere / rng.integers hand over)
    # only by accident of object identity, so a self-loop slips through (or an edge is dropped)
    for mname in ("add_edge", "has_edge", "add_path", "add_star", "local_complementation"):
        mm_ = gc.methods.get(mname)
        if mm_ is None:
            continue
        for c in [x for x in ast.walk(mm_.node) if isinstance(x, ast.Compare) and any(isinstance(o, (ast.Is, ast.IsNot)) for o in x.ops)]:
            sides = [c.left] + list(c.comparators)
            if not any(isinstance(sd, ast.Constant) and (sd.value is None or isinstance(sd.value, bool) or sd.value is Ellipsis) for sd in sides):
                rep.finding("K11", f"identity:{mname}", f"{pyfacts.where(mm_, c)}: `{ast.unparse(c)}` compares two vertex values by object identity: equal numpy integers are different objects, so the test fails for them although the vertices coincide (a self-loop is stored on the diagonal / an edge is missed); values are compared with ==")
    for k, v in facts.items():
        if v:
            rep.ok("K11", 1, nontrivial=k, sample=k)
        else:
            rep.finding("K11", f"edge-primitive:{k}", f"graph.py Graph: edge primitive fact fails: {k}")


def _k12_chunk(args):
    """worker: evaluate both forms on the graphs of n vertices whose edge mask lies in [lo, hi)"""
    root, overlay, n, lo, hi = args
    from .vfs import Tree
    prog = pyfacts.Program(Tree(root, overlay))
    return _k12_eval(prog, n, lo, hi)


def _k12_eval(prog, n, lo, hi):
    gc = prog.cls("graph.Graph")
    ce = CE(prog, max_steps=2_000_000_000)
    forms = [(nm, gc.methods[nm]) for nm in ("local_complementation", "local_complemented") if nm in gc.methods]
    comp = gc.methods.get("compress")
    pairs = [(i, j) for i in range(n) for j in range(i + 1, n)]
    ok, bad, sample = 0, [], None
    for mask in range(lo, hi):
        edges = [p for k, p in enumerate(pairs) if mask >> k & 1]
        eset = set(edges)
        for v in range(n):
            nb = [u for u in range(n) if (min(u, v), max(u, v)) in eset and u != v]
            want = set(eset)
            for a in nb:
                for b in nb:
                    if a < b:
                        want ^= {(a, b)}
            for (nm, meth) in forms:
                g = _graph(ce, prog, n, edges)
                try:
                    # the id is asked for before and after: an id remembered by the object must follow the edges
                    id0 = ce.call_func(comp, [g], {}) if comp is not None else None
                    res = ce.call_func(meth, [g, v], {})
                except CERaise as ex:
                    bad.append((f"{nm}:raise:{n}:{edges}:{v}", f"graph.py Graph.{nm}({v}) on edges {edges} raises {ex.etype}"))
                    continue
                out = g if nm == "local_complementation" else res
                why = _graph_problem(out, n, want)
                if why is None and comp is not None:
                    try:
                        id1 = ce.call_func(comp, [out], {})
                    except CERaise as ex:
                        id1 = f"raises {ex.etype}"
                    w0 = sum(1 << spec.bit_of_edge(n, a, b) for (a, b) in eset)
                    w1 = sum(1 << spec.bit_of_edge(n, a, b) for (a, b) in want)
                    if id0 != w0:
                        why = f"compress() of the graph gives {id0}, its edges encode {w0}"
                    elif id1 != w1:
                        why = f"compress() after the complementation gives {id1}, but the adjacency matrix now encodes {w1} (compress() before it gave {id0})"
                if why is None and nm == "local_complemented":
                    A0 = g.attrs["adjacency_matrix"].d
                    if {(a, b) for (a, b) in pairs if A0[a][b]} != eset:
                        why = "the receiver was modified"
                if why is None:
                    try:
                        res2 = ce.call_func(meth, [out, v], {})
                        out2 = out if nm == "local_complementation" else res2
                        why2 = _graph_problem(out2, n, eset)
                        if why2:
                            why = "applying it twice does not restore the graph: " + why2
                    except CERaise as ex:
                        why = f"second application raises {ex.etype}"
                if why:
                    if len(bad) < 50:
                        bad.append((f"{nm}:{n}:{edges}:{v}", f"graph.py Graph.{nm}({v}) on the graph with edges {edges} ({n} vertices): {why}"))
                else:
                    ok += 1
                    if sample is None:
                        sample = f"{nm}({v}) on {edges} (n={n}): -> {sorted(want)}"
    return ok, bad, sample, ce.steps, sorted(ce.touched | {gc.module.rel})


def _memo(tag, tree, compute):
    """Results of the exhaustive evaluations are a function of the text of the modules the evaluator consulted.  Within
    one self-test run (SA_EVAL_CACHE names a scratch directory created and removed by the self-test driver) a result
    is reused for every overlay that leaves those modules untouched.  compute() -> (json-able result, [consulted rels])"""
    import hashlib
    import json
    import os
    d = os.environ.get("SA_EVAL_CACHE")
    if not d or not os.path.isdir(d):
        return compute()[0]

    def dig(rels):
        h = hashlib.sha256()
        for r in rels:
            h.update(r.encode())
            h.update(tree.read(r).encode() if tree.exists(r) else b"<absent>")
        return h.hexdigest()
    safe = hashlib.sha256(tag.encode()).hexdigest()[:12]
    for fn in sorted(os.listdir(d)):
        if fn.startswith(safe + "-") and fn.endswith(".json"):
            try:
                e = json.load(open(os.path.join(d, fn)))
            except (OSError, ValueError):
                continue
            if dig(e["deps"]) == e["digest"]:
                return e["result"]
    res, deps = compute()
    deps = sorted(deps)
    e = {"deps": deps, "digest": dig(deps), "result": res}
    tmp = os.path.join(d, f".{safe}-{os.getpid()}.tmp")
    with open(tmp, "w") as fh:
        json.dump(e, fh)
    os.replace(tmp, os.path.join(d, f"{safe}-{e['digest'][:16]}.json"))
    return res


@raises_are_findings("K12")
def K12_local_complementation(rep, flow: Flow, tier):
    nmax = 5 if tier == "quick" else 6
    rep.rule("K12", f"local complementation (in-place and copying form), evaluated for EVERY graph on 2..{nmax} vertices and every vertex: exactly the edges among the neighbours are complemented, the result is a simple graph (symmetric 0/1, zero diagonal), applying it twice gives the original back, the copying form leaves its receiver untouched, and compress() - asked before and after - follows the edges", floor=10, exhaustive=True)
    prog = flow.prog
    gc = prog.cls("graph.Graph")
    if not any(nm in gc.methods for nm in ("local_complementation", "local_complemented")):
        raise AnalysisError("Graph.local_complementation / local_complemented vanished")
    steps = 0
    jobs = []
    for n in range(2, nmax + 1):
        total = 1 << (n * (n - 1) // 2)
        if n <= 4:
            jobs.append((n, 0, total))
        else:
            step = total // (16 if n == 5 else 64)
            jobs += [(n, lo, min(total, lo + step)) for lo in range(0, total, step)]
    small = [j for j in jobs if j[0] <= 4]
    big = [j for j in jobs if j[0] > 4]

    def compute():
        import os
        results = [_k12_eval(prog, *j) for j in small]
        if big and os.environ.get("SA_NO_POOL"):
            results += [_k12_eval(prog, *j) for j in big]       # already inside a worker of the self-test pool
        elif big:
            import concurrent.futures
            with concurrent.futures.ProcessPoolExecutor(max_workers=16) as ex:
                results += list(ex.map(_k12_chunk, [(flow.tree.root, flow.tree.overlay) + j for j in big]))
        deps = set()
        out = []
        for (ok, bad, sample, st, touched) in results:
            deps |= set(touched)
            out.append([ok, [list(b) for b in bad], sample, st])
        return out, deps
    results = _memo(f"K12:{nmax}", flow.tree, compute)
    for (ok, bad, sample, st) in results:
        steps += st
        if ok:
            rep.ok("K12", ok, sample=sample, distinct=ok)
        for (key, msg) in bad:
            rep.finding("K12", key, msg)
    rep.analysed["K12 evaluation steps"] = steps


@raises_are_findings("K14")
def K14_grouping_codecs(rep, flow: Flow):
    """every to_<shape> / from_<shape> pair of linear_index: over its WHOLE index domain (the number of ways to split n
    labelled qubits into blocks of the sizes the shape names) to_ yields valid, pairwise different groupings and from_
    gives the index back"""
    import math
    import re as _re
    rep.rule("K14", "grouping codecs of linear_index: for every shape and every index of its domain, to_<shape>(i) is a partition of the qubits into blocks of the shape's sizes, different indices give different groupings (so the map is onto all of them, the domain size being their number) and from_<shape>(to_<shape>(i)) = i", floor=200, exhaustive=True)
    prog = flow.prog
    m = prog.modules.get("linear_index")
    if m is None:
        raise AnalysisError("module linear_index vanished")
    ce = CE(prog, max_steps=50_000_000)

    def canon(r):
        if not isinstance(r, Instance) or "groups" not in r.attrs:
            return None
        out = []
        for lvl in r.attrs["groups"]:
            out.append(tuple(tuple(t.attrs["data"]) if isinstance(t, Instance) else None for t in lvl))
        return tuple(out)
    pairs = 0
    for name, f in sorted(m.funcs.items()):
        mt = _re.fullmatch(r"to_(\d+)(s?)", name)
        if not mt or ("from_" + mt.group(1) + mt.group(2)) not in m.funcs:
            continue
        g = m.funcs["from_" + mt.group(1) + mt.group(2)]
        sizes = [int(ch) for ch in mt.group(1)]
        if 0 in sizes or len(f.params) != 1:
            continue
        n = sum(sizes)
        count = math.factorial(n)
        for sz in sizes:
            count //= math.factorial(sz)
        for sz in set(sizes):
            count //= math.factorial(sizes.count(sz))
        ordered_singles = mt.group(2) == "s"
        if ordered_singles:
            count *= math.factorial(sizes.count(1))
        pairs += 1
        seen = {}
        for i in range(count):
            r = ce.call_func(f, [i], {})
            c = canon(r)
            key = f"{name}:{i}"
            blocks = [b for lvl in (c or ()) for b in lvl]
            flat = sorted(x for b in blocks for x in (b or ()))
            if c is None or any(b is None for b in blocks) or sorted(len(b) for b in blocks) != sorted(sizes) or flat != list(range(n)):
                rep.finding("K14", key, f"linear_index.py {name}({i}) = {c}: not a partition of qubits 0..{n - 1} into blocks of sizes {sizes}")
                continue
            ident = c if ordered_singles else tuple(sorted(tuple(sorted(b)) for b in blocks))
            if ident in seen:
                rep.finding("K14", key, f"linear_index.py {name}: indices {seen[ident]} and {i} decode to the same grouping {c}; with {count} indices for {count} groupings one grouping is never produced")
                continue
            seen[ident] = i
            back = ce.call_func(g, [r], {})
            if back != i:
                rep.finding("K14", key, f"linear_index.py from_{mt.group(1)}{mt.group(2)}({name}({i})) = {back}, not {i} (grouping {c})")
            else:
                rep.ok("K14", 1, nontrivial=(name, i), sample=f"{name}({i}) = {c} -> {back}")
    rep.analysed["K14 shapes (to_/from_ pairs) examined"] = pairs
    if pairs < 10:
        raise AnalysisError(f"linear_index: only {pairs} to_<shape>/from_<shape> pairs found (anchor vanished)")


def _graph_problem(g, n, want_edges):
    if not isinstance(g, Instance):
        return f"result is {g!r}, not a graph"
    A = g.attrs.get("adjacency_matrix")
    if not isinstance(A, Mat) or A.shape != (n, n):
        return "adjacency is not an n x n matrix"
    d = A.d
    if any(d[i][i] != 0 for i in range(n)):
        return f"the diagonal is not zero ({[d[i][i] for i in range(n)]}): not a simple graph"
    if any(d[i][j] != d[j][i] for i in range(n) for j in range(n)) or any(x not in (0, 1) for r in d for x in r):
        return "adjacency is not a symmetric 0/1 matrix"
    got = {(i, j) for i in range(n) for j in range(i + 1, n) if d[i][j]}
    if got != set(want_edges):
        return f"edges {sorted(got)}, expected {sorted(want_edges)}"
    return None
