"""NI1 - sign-independence by non-interference: no read of the stabilizer's sign field anywhere in
the (over-approximated) call closure of the readout API."""
from __future__ import annotations
import ast
from . import pyfacts
from .report import AnalysisError

DIAG_CALLS = {"print", "warn", "debug", "info", "warning", "error", "exception", "critical", "log"}


def sign_fields(prog):
    """attributes of Stabilizer that carry the signs: stored to under a test on the '-' character"""
    cls = prog.cls("stabilizer.Stabilizer")
    init = cls.methods.get("__init__")
    if init is None:
        raise AnalysisError("Stabilizer.__init__ vanished")
    out = set()
    # the constructor may be split into one private method per input format: every method of the class is searched
    for meth in [init] + [m for m in cls.methods.values() if m is not init]:
      if not meth.params:
        continue
      selfname = meth.params[0]
      for n in ast.walk(meth.node):
        if isinstance(n, ast.If) and any(isinstance(c, ast.Constant) and c.value == "-" for c in ast.walk(n.test)):
            for st in n.body:
                for t in ast.walk(st):
                    if isinstance(t, ast.Attribute) and isinstance(t.value, ast.Name) and t.value.id == selfname and isinstance(t.ctx, (ast.Store, ast.Load)):
                        par = [p for p in ast.walk(st) if isinstance(p, (ast.Assign, ast.AugAssign))]
                        for a in par:
                            for tg in (a.targets if isinstance(a, ast.Assign) else [a.target]):
                                for x in ast.walk(tg):
                                    if isinstance(x, ast.Attribute) and isinstance(x.value, ast.Name) and x.value.id == selfname:
                                        out.add(x.attr)
    # fallback / union: the attribute that indexes a ['+', '-'] table in any method (the exporter)
    modtabs = {name for name, vals in cls.module.assigns.items()
               if any(isinstance(v, (ast.List, ast.Tuple)) and sorted(getattr(x, "value", None) for x in v.elts if isinstance(x, ast.Constant)) == ["+", "-"] for v in vals)}
    for m in cls.methods.values():
        signtabs = set(modtabs)
        for n in ast.walk(m.node):
            if isinstance(n, ast.Assign) and isinstance(n.value, (ast.List, ast.Tuple)) and \
                    sorted(getattr(x, "value", None) for x in n.value.elts if isinstance(x, ast.Constant)) == ["+", "-"] and isinstance(n.targets[0], ast.Name):
                signtabs.add(n.targets[0].id)
        for n in ast.walk(m.node):
            if isinstance(n, ast.Subscript) and isinstance(n.value, ast.Name) and n.value.id in signtabs:
                for x in ast.walk(n.slice):
                    if isinstance(x, ast.Attribute) and isinstance(x.value, ast.Name) and m.params and x.value.id == m.params[0]:
                        out.add(x.attr)
    if not out:
        raise AnalysisError("cannot identify the sign field of Stabilizer (neither a store under a '-' test in __init__ nor an index into a ['+','-'] table)")
    return out, cls


def implicit_edges(prog, stab_cls):
    """dunder methods of Stabilizer reached implicitly from a function (==, str(), f-string, print)"""
    def edges(f):
        out = set()
        env = prog.local_types(f)
        typed = {k for k, c in env.items() if c is stab_cls}
        if not typed:
            return out
        for n in ast.walk(f.node):
            if isinstance(n, ast.Compare) and any(isinstance(o, (ast.Eq, ast.NotEq)) for o in n.ops):
                for x in [n.left] + n.comparators:
                    if isinstance(x, ast.Name) and x.id in typed and "__eq__" in stab_cls.methods:
                        out.add(stab_cls.methods["__eq__"])
            if isinstance(n, ast.FormattedValue) and isinstance(n.value, ast.Name) and n.value.id in typed:
                for d in ("__repr__", "__str__"):
                    if d in stab_cls.methods:
                        out.add(stab_cls.methods[d])
            if isinstance(n, ast.Call) and isinstance(n.func, ast.Name) and n.func.id in ("str", "repr", "format"):
                for a in n.args:
                    if isinstance(a, ast.Name) and a.id in typed:
                        for d in ("__repr__", "__str__"):
                            if d in stab_cls.methods:
                                out.add(stab_cls.methods[d])
        return out
    return edges


def diagnostic_nodes(f):
    """nodes whose value only feeds a diagnostics sink"""
    out = set()
    for n in ast.walk(f.node):
        if isinstance(n, ast.Call):
            fn = n.func
            name = fn.id if isinstance(fn, ast.Name) else (fn.attr if isinstance(fn, ast.Attribute) else "")
            if name in DIAG_CALLS:
                for a in list(n.args) + [k.value for k in n.keywords]:
                    out.update(id(x) for x in ast.walk(a))
        elif isinstance(n, ast.Raise) and n.exc is not None:
            out.update(id(x) for x in ast.walk(n.exc))
        elif isinstance(n, ast.Assert) and n.msg is not None:
            out.update(id(x) for x in ast.walk(n.msg))
    return out


def class_id_roots(flow, fq="stabilizer_circuits.get_readout_circuit"):
    """the functions whose result is used as class id in the table accessor call (today: the classifier)"""
    from .rules_flow import class_id_symbols
    roots = set()

    def calls(k):
        if isinstance(k, tuple) and k:
            if k[0] in ("call", "mcall") and len(k) > 1 and isinstance(k[1], str):
                roots.add(k[1])
            for x in k[1:]:
                calls(x)
    for k in class_id_symbols(flow, fq):
        calls(k)
    out = []
    for r in sorted(roots):
        try:
            out.append(flow.prog.func(r))
        except AnalysisError:
            pass
    return out


def _evidently_not_stabilizer(prog, f, expr, stab):
    """receiver of a dynamic attribute access that is evidently something else than a Stabilizer: a local bound to a
    constructor call of another class / an external constructor, or annotated with another type"""
    if not isinstance(expr, ast.Name):
        return False
    types = prog.local_types(f)
    if expr.id in types:
        return types[expr.id] is not stab
    for n in ast.walk(f.node):
        if isinstance(n, ast.arg) and n.arg == expr.id and n.annotation is not None:
            return "Stabilizer" not in ast.unparse(n.annotation)
    asg = [n for n in ast.walk(f.node) if isinstance(n, ast.Assign) and len(n.targets) == 1 and isinstance(n.targets[0], ast.Name) and n.targets[0].id == expr.id]
    if asg and all(isinstance(a.value, ast.Call) and isinstance(a.value.func, ast.Name) and a.value.func.id[:1].isupper() and a.value.func.id != "Stabilizer" for a in asg):
        return True
    return False


def NI1_sign_independence(rep, flow, root_fq="stabilizer_circuits.get_readout_circuit", roots=None, what="the readout API"):
    rep.rule("NI1", f"no expression in the over-approximated call closure of {what} reads the stabilizer's sign field (directly, via getattr/vars, or through a method that reads it); diagnostics sinks excluded", floor=30 if roots is None else 10)
    prog = flow.prog
    fields, stab = sign_fields(prog)
    root = prog.func(root_fq)
    if roots is not None and not roots:
        raise AnalysisError("cannot identify the function that computes the class id (no call feeds the accessor's class-id argument)")
    clo = prog.closure(list(roots) if roots is not None else [root], may=True, extra_edges=implicit_edges(prog, stab))
    if roots is None:
        # the glue modules are interpreted path by path: a module-level function that a glue function names but that no
        # interpreted path of the root ever calls (a branch switched off by a constant flag: `repair_signs=False`) is not
        # part of the readout's computation.  Only edges glue -> plain function are filtered; everything below a function
        # that IS called keeps the MAY over-approximation.
        from .abscalls import GLUE_MODULES
        called = set()
        for r in flow.paths(root_fq):
            for ev in r.events:
                if ev[0] == "call":
                    called.add(ev[1])
        ie = implicit_edges(prog, stab)
        seen, todo = set(), [root]
        while todo:
            g = todo.pop()
            if g in seen:
                continue
            seen.add(g)
            nxt = set(prog.callees(g, True)) | set(ie(g))
            for h in nxt:
                if g.module.name in GLUE_MODULES and h.cls is None and not getattr(h, "nested", False) and h.fq not in called:
                    continue
                if h not in seen:
                    todo.append(h)
        dropped = sorted(x.fq for x in clo - seen)
        if dropped:
            rep.analysed["NI1 functions named by glue code but never called on an interpreted path of the root (left out)"] = dropped[:20]
        clo = clo & seen
    rep.analysed["NI1 sign field(s)"] = sorted(fields)
    rep.analysed["NI1 closure size (functions, MAY graph)"] = len(clo)
    for f in sorted(clo, key=lambda g: g.fq):
        diag = diagnostic_nodes(f)
        reads = []
        for n in ast.walk(f.node):
            if id(n) in diag:
                continue
            if isinstance(n, ast.Attribute) and n.attr in fields and isinstance(n.ctx, ast.Load):
                reads.append(n)
            elif isinstance(n, ast.Attribute) and n.attr == "__dict__":
                reads.append(n)
            elif isinstance(n, ast.Call) and isinstance(n.func, ast.Name) and n.func.id in ("getattr", "vars") and n.args:
                if _evidently_not_stabilizer(prog, f, n.args[0], stab):
                    continue
                if n.func.id == "vars" or (len(n.args) > 1 and not (isinstance(n.args[1], ast.Constant) and n.args[1].value not in fields)):
                    reads.append(n)
        # a store `self.phases[row] = 1` loads the attribute in order to store through it: not a read of its value
        real = []
        stores = set()
        for n in ast.walk(f.node):
            if isinstance(n, (ast.Assign, ast.AugAssign)):
                for tg in (n.targets if isinstance(n, ast.Assign) else [n.target]):
                    if isinstance(tg, ast.Subscript) and isinstance(tg.value, ast.Attribute) and isinstance(n, ast.Assign):
                        stores.add(id(tg.value))
        for n in reads:
            if id(n) not in stores:
                real.append(n)
        if real:
            for n in real:
                rep.finding("NI1", f"{f.fq}:{pyfacts.norm_stmt(n)}", f"{pyfacts.where(f, n)}: reads the sign field ({pyfacts.norm_stmt(n)}) inside the call closure of {what}: the result may depend on the signs")
        else:
            rep.ok("NI1", 1, nontrivial=f.fq, sample=f"{f.fq}: no read of {sorted(fields)}")


def NI2_validity_sign_free(rep, flow, fq="stabilizer.Stabilizer.validate"):
    """C08: 'the validity check accepts exactly the sets of n commuting, independent Paulis' - a statement
    about the X/Z parts only.  The value returned by the validity check must therefore not depend on the
    sign field (intra-procedural taint from a read of the sign field to a returned expression; asserts and
    diagnostics on the sign vector itself are not counted)."""
    rep.rule("NI2", "the value returned by the validity check does not depend on the stabilizer's sign field (taint from a read of the sign field to a return expression, through local assignments and callees' arguments)", floor=1)
    prog = flow.prog
    fields, stab = sign_fields(prog)
    f = prog.func(fq)
    tainted = set()
    def has_taint(e):
        for n in ast.walk(e):
            if isinstance(n, ast.Attribute) and n.attr in fields and isinstance(n.ctx, ast.Load):
                return True
            if isinstance(n, ast.Name) and n.id in tainted and isinstance(n.ctx, ast.Load):
                return True
        return False
    for _ in range(4):
        for n in ast.walk(f.node):
            if isinstance(n, (ast.Assign, ast.AnnAssign, ast.AugAssign)) and getattr(n, "value", None) is not None and has_taint(n.value):
                for t in (n.targets if isinstance(n, ast.Assign) else [n.target]):
                    for x in ast.walk(t):
                        if isinstance(x, ast.Name):
                            tainted.add(x.id)
    rets = [n for n in ast.walk(f.node) if isinstance(n, ast.Return) and n.value is not None]
    if not rets:
        raise AnalysisError(f"{fq}: no return")
    for r in rets:
        if has_taint(r.value):
            rep.finding("NI2", f"{fq}:return", f"{pyfacts.where(f, r)}: the verdict of the validity check depends on the sign field {sorted(fields)} [{pyfacts.norm_stmt(r)}]: whether a Pauli set is accepted must be decided by its X/Z parts alone (a dependent set with contradictory signs, e.g. ['ZI','-ZI'], would be accepted)")
        else:
            rep.ok("NI2", 1, nontrivial=pyfacts.norm_stmt(r), sample=f"{fq}: {pyfacts.norm_stmt(r)[:100]}")
