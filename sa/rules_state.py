"""A1 - inventory of objects that outlive a call, and syntactic misuse of them."""
from __future__ import annotations
import ast
from . import pyfacts
from .report import AnalysisError
from .rules_alias import MUTATORS


def _mutable_value(v):
    if isinstance(v, (ast.Dict, ast.List, ast.Set, ast.ListComp, ast.DictComp, ast.SetComp)):
        return True
    if isinstance(v, ast.Call):
        name = ast.unparse(v.func).split(".")[-1]
        return name not in ("int64", "int8", "Literal", "TypeVar", "namedtuple", "frozenset", "tuple", "IntEnum")
    return False


def A1_inventory(rep, flow):
    rep.rule("A1", "inventory of objects outliving a call (module-level and class-level mutable bindings, cache decorators, mutable defaults): none is stored into, mutated by a mutator call or in-place operator, or returned as such outside its loader idiom", floor=3)
    prog = flow.prog
    inv = {"module": [], "class": [], "decorated": [], "defaults": []}
    for m in prog.modules.values():
        for name, vals in m.assigns.items():
            if any(_mutable_value(v) for v in vals):
                inv["module"].append((m, name))
        for c in prog._all_classes(m):
            for name, v in c.class_assigns.items():
                if _mutable_value(v):
                    inv["class"].append((c, name))
        for f in m.all_funcs:
            for d in f.decorators:
                if "cache" in d:
                    inv["decorated"].append((f, d))
            a = f.node.args
            for dflt in list(a.defaults) + [k for k in a.kw_defaults if k is not None]:
                if _mutable_value(dflt):
                    inv["defaults"].append((f, ast.unparse(dflt)))
    rep.analysed["A1 shared-object inventory"] = {"module-level mutable bindings": [f"{m.name}.{n}" for m, n in inv["module"]],
                                                  "class-level tables": len(inv["class"]),
                                                  "cache decorators": [f"{f.fq} @{d}" for f, d in inv["decorated"]],
                                                  "mutable default arguments": [f"{f.fq}: {d}" for f, d in inv["defaults"]]}
    class_names = {}
    for c, n in inv["class"]:
        class_names.setdefault(n, []).append(c)
    mod_names = {(m.name, n) for m, n in inv["module"]}
    # syntactic misuse: stores / mutators / in-place ops on class tables anywhere, on module bindings outside the cache idiom
    for m in prog.modules.values():
        for f in m.all_funcs:
            loc = prog._locals(f)
            for n in ast.walk(f.node):
                tgt = None
                if isinstance(n, ast.Assign):
                    tgt = [t for t in n.targets]
                elif isinstance(n, ast.AugAssign):
                    tgt = [n.target]
                if tgt:
                    for t in tgt:
                        base = t.value if isinstance(t, ast.Subscript) else (t if isinstance(n, ast.AugAssign) else None)
                        while isinstance(base, ast.Subscript):
                            base = base.value
                        if isinstance(base, ast.Attribute) and base.attr in class_names:
                            rep.finding("A1", f"{f.fq}:{pyfacts.norm_stmt(n)}", f"{pyfacts.where(f, n)}: class-level table .{base.attr} is written [{pyfacts.norm_stmt(n)}]: all later calls see the change")
                if isinstance(n, ast.Call) and isinstance(n.func, ast.Attribute) and n.func.attr in MUTATORS:
                    base = n.func.value
                    while isinstance(base, ast.Subscript):
                        base = base.value
                    if isinstance(base, ast.Attribute) and base.attr in class_names:
                        rep.finding("A1", f"{f.fq}:{pyfacts.norm_stmt(n)}", f"{pyfacts.where(f, n)}: mutator .{n.func.attr}() on class-level table .{base.attr}")
                    if isinstance(base, ast.Name) and base.id not in loc and (f.module.name, base.id) in mod_names:
                        rep.finding("A1", f"{f.fq}:{pyfacts.norm_stmt(n)}", f"{pyfacts.where(f, n)}: mutator .{n.func.attr}() on module-level object {base.id} outside the cache idiom")
                if isinstance(n, ast.Return) and n.value is not None:
                    v = n.value
                    if isinstance(v, ast.Attribute) and v.attr in class_names and isinstance(v.value, ast.Name) and v.value.id in ("cls", "self"):
                        rep.finding("A1", f"{f.fq}:{pyfacts.norm_stmt(n)}", f"{pyfacts.where(f, n)}: class-level table .{v.attr} is returned as such (a caller mutating it changes later results)")
    for c, n in inv["class"]:
        rep.ok("A1", 1, nontrivial=(c.fq, n), sample=f"class table {c.fq}.{n}: never written, never returned")
    for m, n in inv["module"]:
        rep.ok("A1", 1, nontrivial=(m.name, n), sample=f"module binding {m.name}.{n}")
    for f, d in inv["decorated"]:
        rep.note(f"{f.fq} is decorated with {d}: its result is shared between calls; A3 must see a copy at every public boundary")
    for f, d in inv["defaults"]:
        rep.note(f"{f.fq} has a mutable default argument {d}: reported only if it is mutated (A5) or escapes (A3)")
