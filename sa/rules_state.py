"""A1 - inventory of objects that outlive a call, and syntactic misuse of them."""
from __future__ import annotations
import ast
from . import pyfacts
from .report import AnalysisError
from .rules_alias import MUTATORS


# removing entries from a cache changes no result (the entry is recomputed): eviction is not misuse
EVICTION = {"pop", "popitem", "clear", "move_to_end"}


def _mutable_value(v):
    if isinstance(v, (ast.Dict, ast.List, ast.Set, ast.ListComp, ast.DictComp, ast.SetComp)):
        return True
    if isinstance(v, ast.Call):
        name = ast.unparse(v.func).split(".")[-1]
        return name not in ("int64", "int8", "Literal", "TypeVar", "namedtuple", "frozenset", "tuple", "IntEnum", "getLogger", "compile", "MappingProxyType", "range")
    return False


def A1_inventory(rep, flow):
    rep.rule("A1", "inventory of objects outliving a call (module-level and class-level mutable bindings, cache decorators, mutable defaults): none is stored into, mutated by a mutator call or in-place operator, or returned as such outside its loader idiom", floor=3)
    prog = flow.prog
    inv = {"module": [], "class": [], "decorated": [], "defaults": []}
    for m in prog.modules.values():
        for name, vals in m.assigns.items():
            if any(_mutable_value(v) for v in vals):
                inv["module"].append((m, name))
        for c in prog._all_classes(m):
            for name, v in c.class_assigns.items():
                if _mutable_value(v):
                    inv["class"].append((c, name))
        for f in m.all_funcs:
            for d in f.decorators:
                if "cache" in d:
                    inv["decorated"].append((f, d))
            a = f.node.args
            for dflt in list(a.defaults) + [k for k in a.kw_defaults if k is not None]:
                if _mutable_value(dflt):
                    inv["defaults"].append((f, ast.unparse(dflt)))
    rep.analysed["A1 shared-object inventory"] = {"module-level mutable bindings": [f"{m.name}.{n}" for m, n in inv["module"]],
                                                  "class-level tables": len(inv["class"]),
                                                  "cache decorators": [f"{f.fq} @{d}" for f, d in inv["decorated"]],
                                                  "mutable default arguments": [f"{f.fq}: {d}" for f, d in inv["defaults"]]}
    class_names = {}
    for c, n in inv["class"]:
        class_names.setdefault(n, []).append(c)
    # an instance of a class defined in the repository is judged through its own methods (interpreted by the A3/A5/A2
    # rules), not by the names of the calls made on it
    def _repo_instance(m, n):
        for v in m.assigns.get(n, []):
            if isinstance(v, ast.Call):
                r = prog.lookup_global(m, ast.unparse(v.func).split(".")[0])
                if r and r[0] == "class":
                    return True
        return False
    mod_names = {(m.name, n) for m, n in inv["module"] if not _repo_instance(m, n)}
    rep.analysed["A1 module-level instances of repository classes (judged through their methods)"] = [f"{m.name}.{n}" for m, n in inv["module"] if _repo_instance(m, n)]
    # syntactic misuse: stores / mutators / in-place ops on class tables anywhere, on module bindings outside the cache idiom
    for m in prog.modules.values():
        for f in m.all_funcs:
            loc = prog._locals(f)
            for n in ast.walk(f.node):
                tgt = None
                if isinstance(n, ast.Assign):
                    tgt = [t for t in n.targets]
                elif isinstance(n, ast.AugAssign):
                    tgt = [n.target]
                if tgt:
                    for t in tgt:
                        base = t.value if isinstance(t, ast.Subscript) else (t if isinstance(n, ast.AugAssign) else None)
                        while isinstance(base, ast.Subscript):
                            base = base.value
                        if isinstance(base, ast.Attribute) and base.attr in class_names:
                            rep.finding("A1", f"{f.fq}:{pyfacts.norm_stmt(n)}", f"{pyfacts.where(f, n)}: class-level table .{base.attr} is written [{pyfacts.norm_stmt(n)}]: all later calls see the change")
                if isinstance(n, ast.Call) and isinstance(n.func, ast.Attribute) and n.func.attr in MUTATORS and n.func.attr not in EVICTION:
                    base = n.func.value
                    while isinstance(base, ast.Subscript):
                        base = base.value
                    if isinstance(base, ast.Attribute) and base.attr in class_names:
                        rep.finding("A1", f"{f.fq}:{pyfacts.norm_stmt(n)}", f"{pyfacts.where(f, n)}: mutator .{n.func.attr}() on class-level table .{base.attr}")
                    if isinstance(base, ast.Name) and base.id not in loc and (f.module.name, base.id) in mod_names:
                        rep.finding("A1", f"{f.fq}:{pyfacts.norm_stmt(n)}", f"{pyfacts.where(f, n)}: mutator .{n.func.attr}() on module-level object {base.id} outside the cache idiom")
                if isinstance(n, ast.Return) and n.value is not None:
                    v = n.value
                    if isinstance(v, ast.Attribute) and v.attr in class_names and isinstance(v.value, ast.Name) and v.value.id in ("cls", "self"):
                        rep.finding("A1", f"{f.fq}:{pyfacts.norm_stmt(n)}", f"{pyfacts.where(f, n)}: class-level table .{v.attr} is returned as such (a caller mutating it changes later results)")
    # module state re-bound at run time (`global x; x = ...`)
    for m in prog.modules.values():
        for f in m.all_funcs:
            gl = set()
            for n in ast.walk(f.node):
                if isinstance(n, ast.Global):
                    gl |= set(n.names)
            if not gl:
                continue
            # locals that (transitively) depend on a parameter
            dep = set(f.params)
            for _ in range(4):
                for n in ast.walk(f.node):
                    if isinstance(n, (ast.Assign, ast.AugAssign, ast.AnnAssign)) and getattr(n, "value", None) is not None:
                        if any(isinstance(x, ast.Name) and x.id in dep for x in ast.walk(n.value)):
                            for t in (n.targets if isinstance(n, ast.Assign) else [n.target]):
                                for x in ast.walk(t):
                                    if isinstance(x, ast.Name) and x.id not in gl:
                                        dep.add(x.id)
                    elif isinstance(n, (ast.For, ast.comprehension)):
                        if any(isinstance(x, ast.Name) and x.id in dep for x in ast.walk(n.iter)):
                            for x in ast.walk(n.target):
                                if isinstance(x, ast.Name):
                                    dep.add(x.id)
            for n in ast.walk(f.node):
                if isinstance(n, (ast.Assign, ast.AugAssign)):
                    tg = n.targets if isinstance(n, ast.Assign) else [n.target]
                    if any(isinstance(t, ast.Name) and t.id in gl for t in tg):
                        if any(isinstance(x, ast.Name) and x.id in dep for x in ast.walk(n.value)):
                            raise AnalysisError(f"{pyfacts.where(f, n)}: module-level state `{', '.join(sorted(gl))}` is re-bound to a value computed from the parameters of {f.qualname} [{pyfacts.norm_stmt(n)}]: later results may depend on the call history, and this form of state is outside what the cache rules (A2/A3/A5: dictionaries keyed by their arguments) can decide")
                        rep.note(f"{f.fq} re-binds module-level `{', '.join(sorted(gl))}` to a parameter-independent value (lazy initialisation)")
    for c, n in inv["class"]:
        rep.ok("A1", 1, nontrivial=(c.fq, n), sample=f"class table {c.fq}.{n}: never written, never returned")
    for m, n in inv["module"]:
        rep.ok("A1", 1, nontrivial=(m.name, n), sample=f"module binding {m.name}.{n}")
    for f, d in inv["decorated"]:
        rep.note(f"{f.fq} is decorated with {d}: its result is shared between calls")
        cached_result_rule(rep, flow, f, d)
    for f, d in inv["defaults"]:
        rep.note(f"{f.fq} has a mutable default argument {d}: reported only if it is mutated (A5) or escapes (A3)")
        _mutable_default_rule(rep, f)


def _mutable_default_rule(rep, f):
    """a parameter whose default is a dict / list / set display is ONE object for all calls: storing into it, or handing
    it out, makes a call's result depend on (and change with) the calls before and after it"""
    a = f.node.args
    params = a.posonlyargs + a.args
    defaults = [None] * (len(params) - len(a.defaults)) + list(a.defaults)
    pairs = list(zip(params, defaults)) + list(zip(a.kwonlyargs, a.kw_defaults))
    for p_, dflt in pairs:
        if not isinstance(dflt, (ast.Dict, ast.List, ast.Set)) and not (isinstance(dflt, ast.Call) and isinstance(dflt.func, ast.Name) and dflt.func.id in ("dict", "list", "set") and not dflt.args):
            continue
        name = p_.arg
        rebound = any(isinstance(n, ast.Assign) and any(isinstance(t, ast.Name) and t.id == name for t in n.targets) for n in ast.walk(f.node))
        if rebound:
            continue        # `x = x or {}` / `x = dict(x)`: the default itself is not what is used
        stored = [n for n in ast.walk(f.node) if (isinstance(n, (ast.Assign, ast.AugAssign)) and any(isinstance(t, ast.Subscript) and isinstance(t.value, ast.Name) and t.value.id == name for t in (n.targets if isinstance(n, ast.Assign) else [n.target])))
                  or (isinstance(n, ast.Call) and isinstance(n.func, ast.Attribute) and isinstance(n.func.value, ast.Name) and n.func.value.id == name and n.func.attr in ("append", "extend", "update", "setdefault", "add", "insert", "pop", "clear"))]
        returned = [n for n in ast.walk(f.node) if isinstance(n, ast.Return) and isinstance(n.value, ast.Name) and n.value.id == name]
        if stored and returned:
            rep.finding("A1", f"{f.fq}:default:{name}", f"{pyfacts.where(f, stored[0])}: `{name}` defaults to a {type(dflt).__name__.lower()} display - ONE object shared by every call that does not pass it; {f.qualname} fills it [{pyfacts.norm_stmt(stored[0])[:60]}] and returns it: a result handed out earlier changes with the next call, and a call's result contains what earlier calls left")
        elif stored or returned:
            rep.finding("A1", f"{f.fq}:default:{name}", f"{pyfacts.where(f, (stored or returned)[0])}: `{name}` defaults to a {type(dflt).__name__.lower()} display - ONE object shared by every call that does not pass it - and {f.qualname} {'stores into' if stored else 'returns'} it [{pyfacts.norm_stmt((stored or returned)[0])[:60]}]: state leaks from one call into the next")


IMMUTABLE_ANN = {"int", "str", "bool", "float", "bytes", "None", "complex", "frozenset"}
COPIERS = {"copy", "deepcopy", "list", "tuple", "dict", "set", "array", "asarray_copy"}


def _returns_immutable(f):
    """True / False / None(unknown) - judged from the annotation and the return expressions"""
    if f.node.returns is not None:
        a = ast.unparse(f.node.returns).strip("'\"")
        base = a.split("[")[0].split(".")[-1]
        if base in IMMUTABLE_ANN:
            return True
        if base in ("Tuple", "tuple"):
            inner = a[a.index("[") + 1:-1] if "[" in a else ""
            parts = [x.strip().split("[")[0].split(".")[-1] for x in inner.split(",")] if inner else []
            return True if parts and all(x in IMMUTABLE_ANN or x == "..." for x in parts) else False
        return False
    kinds = set()
    for n in ast.walk(f.node):
        if isinstance(n, ast.Return) and n.value is not None:
            v = n.value
            if isinstance(v, ast.Constant) or isinstance(v, (ast.Compare, ast.BoolOp)) or (isinstance(v, ast.JoinedStr)):
                kinds.add(True)
            elif isinstance(v, ast.Call) and isinstance(v.func, ast.Name) and v.func.id in ("int", "str", "bool", "float", "len", "sum", "frozenset"):
                kinds.add(True)
            else:
                kinds.add(None)
    if kinds == {True}:
        return True
    return None


def cached_result_rule(rep, flow, f, deco):
    """a memoised function hands the SAME object to every later caller: it must be immutable, or every
    use of the result in the package must copy it before storing, returning or mutating it"""
    prog = flow.prog
    from . import absint, abscalls
    if absint.Interp(prog).relevant(f) or f.module.name in abscalls.GLUE_MODULES:
        rep.note(f"{f.fq}: memoised function inside the interpreted closure - escapes and mutations of its result are decided by A3/A5")
        return
    imm = _returns_immutable(f)
    if imm is True:
        rep.ok("A1", 1, nontrivial=(f.fq, "cached-immutable"), sample=f"{f.fq} @{deco}: returns an immutable value")
        return
    public = not f.name.startswith("_") and (f.cls is None or not f.cls.name.startswith("_"))
    if public:
        rep.finding("A1", f"{f.fq}:cached-mutable-public", f"{pyfacts.where(f, f.node)}: public function {f.qualname} is memoised (@{deco}) and returns a mutable object: every caller gets the same object, so a caller mutating one result changes all later results for the same arguments")
        return
    # private: look at every use of the result
    leaks = []
    n_sites = 0
    # the shared object is handed on by private wrappers that merely return it: their results are the same object, their
    # call sites are examined in turn (a PUBLIC function returning it stays a leak)
    carriers, todo = [], [f]
    while todo:
        h = todo.pop()
        if h in carriers:
            continue
        carriers.append(h)
        for m in prog.modules.values():
            for g in m.all_funcs:
                for call, r in prog.call_sites(g):
                    if not (r and r[0] == "func" and r[1] is h):
                        continue
                    n_sites += 1
                    for (g2, node, why) in _result_uses(g, call):
                        private = g2.name.startswith("_") and (g2.cls is None or g2.cls.name.startswith("_") or g2.name.startswith("_"))
                        if why == "is returned" and private and not g2.name.startswith("__"):
                            todo.append(g2)
                        else:
                            leaks.append((g2, node, why))
    if leaks:
        for (g, node, why) in leaks:
            rep.finding("A1", f"{g.fq}:cached-result:{pyfacts.norm_stmt(node)}", f"{pyfacts.where(g, node)}: the memoised result of {f.qualname} (@{deco}) {why} without a copy [{pyfacts.norm_stmt(node)}]: objects built by later calls share it")
    elif n_sites == 0:
        rep.note(f"{f.fq} is memoised but never called inside the package")
    else:
        rep.ok("A1", 1, nontrivial=(f.fq, "cached-private"), sample=f"{f.fq} @{deco}: {n_sites} call site(s), result only read or copied")


def _is_copy_call(e):
    if isinstance(e, ast.Call):
        name = e.func.attr if isinstance(e.func, ast.Attribute) else (e.func.id if isinstance(e.func, ast.Name) else "")
        return name in COPIERS or name in ("astype",) and False
    return False


def _result_uses(g, call):
    """how the value of `call` (inside function g) is used: returns [(g, node, why)] for escaping / mutating uses"""
    out = []
    parent = {}
    for n in ast.walk(g.node):
        for c in ast.iter_child_nodes(n):
            parent[id(c)] = n
    tainted = set()
    # names bound from the call (directly or by tuple unpacking)
    p = parent.get(id(call))
    if isinstance(p, ast.Assign):
        for t in p.targets:
            for x in ast.walk(t):
                if isinstance(x, ast.Name):
                    tainted.add(x.id)
                if isinstance(x, ast.Attribute) and isinstance(x.ctx, ast.Store):
                    out.append((g, p, "is stored in an attribute"))
    elif isinstance(p, ast.Return):
        out.append((g, p, "is returned"))
    elif isinstance(p, ast.Attribute) and isinstance(parent.get(id(p)), ast.Call) and parent[id(p)].func is p and p.attr in COPIERS:
        return out
    elif isinstance(p, ast.Call) and _is_copy_call(p):
        return out
    # propagate through simple re-bindings, then look at the uses of tainted names
    for _ in range(3):
        for n in ast.walk(g.node):
            if isinstance(n, ast.Assign) and isinstance(n.value, (ast.Name, ast.Subscript)):
                base = n.value
                while isinstance(base, ast.Subscript):
                    base = base.value
                if isinstance(base, ast.Name) and base.id in tainted:
                    for t in n.targets:
                        if isinstance(t, ast.Name):
                            tainted.add(t.id)
    for n in ast.walk(g.node):
        if isinstance(n, ast.Assign):
            v = n.value
            base = v
            while isinstance(base, ast.Subscript):
                base = base.value
            if isinstance(base, ast.Name) and base.id in tainted:
                for t in n.targets:
                    if isinstance(t, ast.Attribute):
                        out.append((g, n, "is stored in an attribute"))
                    if isinstance(t, ast.Subscript):
                        out.append((g, n, "is stored in a container"))
            for t in n.targets:
                b = t
                hit_sub = False
                while isinstance(b, ast.Subscript):
                    b = b.value
                    hit_sub = True
                if hit_sub and isinstance(b, ast.Name) and b.id in tainted:
                    out.append((g, n, "is written through a subscript"))
        elif isinstance(n, ast.AugAssign):
            b = n.target
            while isinstance(b, ast.Subscript):
                b = b.value
            if isinstance(b, ast.Name) and b.id in tainted:
                out.append((g, n, "is modified by an in-place operator"))
        elif isinstance(n, ast.Return) and n.value is not None:
            for x in ([n.value] + (list(n.value.elts) if isinstance(n.value, (ast.Tuple, ast.List)) else [])):
                b = x
                while isinstance(b, ast.Subscript):
                    b = b.value
                if isinstance(b, ast.Name) and b.id in tainted:
                    out.append((g, n, "is returned"))
        elif isinstance(n, ast.Call) and isinstance(n.func, ast.Attribute) and n.func.attr in MUTATORS:
            b = n.func.value
            while isinstance(b, ast.Subscript):
                b = b.value
            if isinstance(b, ast.Name) and b.id in tainted:
                out.append((g, n, f"is mutated by .{n.func.attr}()"))
    return out
