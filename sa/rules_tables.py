"""Table rules T1-T10, L1-L3 applied to a Report."""
from __future__ import annotations
from . import spec, tables
from .report import AnalysisError


class Tables:
    """Loaded table files + inventory, shared by the rules of one run."""

    def __init__(self, tree):
        self.files = tables.load_tables(tree)
        self.stab = [f for f in self.files if f.kind == "stabilizer"]
        self.mub = [f for f in self.files if f.kind == "mub"]
        adv = set(spec.ADVERTISED)
        self.adv_stab = [f for f in self.stab if (f.n, f.conn) in adv]
        self.adv_mub = [f for f in self.mub if (f.n, f.conn) in adv]
        self.stray = [f for f in self.files if (f.n, f.conn) not in adv]

    def inventory(self, rep):
        rep.analysed["table files"] = {"stabilizer": len(self.stab), "mub": len(self.mub),
                                       "stray (not advertised)": [f.name for f in self.stray]}
        rep.analysed["table lines"] = sum(len(f.lines) for f in self.files) + len(self.mub)

    def by(self, kind, n, conn):
        for f in self.files:
            if (f.kind, f.n, f.conn) == (kind, n, conn):
                return f
        return None


def key(f, L, extra=""):
    base = f"{f.name}:id={L.index}" if f.kind == "stabilizer" else f"{f.name}:basis={L.index}"
    return base + (":" + extra if extra else "")


def grammar(rep, T, files, rules=("T2", "T3", "T7")):
    """T2 vocabulary/arity/distinct operands, T3 field structure and index bounds, T7 MUB body shape.
    Every non-empty line must parse."""
    if "T2" in rules:
        rep.rule("T2", "every circuit token is one of h/s/sdg q or cx/cz/swap q,q' with two distinct operands (so every multi-qubit gate is a two-qubit gate)", floor=1000, exhaustive=True)
    if "T3" in rules:
        rep.rule("T3", "stabilizer line = graph:cost:depth:circuit with three decimal integers; every qubit index < n", floor=1000, exhaustive=True)
    if "T7" in rules and any(f.kind == "mub" for f in files):
        rep.rule("T7", "MUB body line = n comma-separated optionally signed strings of n characters over IXYZ, ':' circuit; 2^n+1 body lines", floor=100, exhaustive=True)
    for f in files:
        for L in f.lines:
            probs = {r: [m for (rr, m) in L.problems if rr == r] for r in ("T2", "T3", "T7")}
            for r in ("T2", "T3", "T7"):
                if r not in rep.rules:
                    continue
                if r == "T7" and f.kind != "mub":
                    continue
                if r == "T3" and f.kind == "mub":
                    # index bounds apply to MUB circuits as well
                    pass
                if probs[r]:
                    for m in probs[r]:
                        rep.finding(r, key(f, L, m.split("'")[1] if "'" in m else "shape"), f"{L.where()}: {m}", {"line": L.raw})
                else:
                    n_inst = max(1, len(L.ops)) if r == "T2" else 1
                    rep.ok(r, n_inst, nontrivial=(f.name, L.index) if L.ops else None,
                           sample=f"{L.where()} ok: {L.raw[:60]}")
        if f.kind == "mub" and "T7" in rep.rules:
            want = 2 ** f.n + 1
            if len(f.lines) != want:
                rep.finding("T7", f"{f.name}:count", f"{f.name}: {len(f.lines)} basis lines, 2^{f.n}+1 = {want} required")
            else:
                rep.ok("T7", 1, nontrivial=(f.name, "count"))


def T1_line_count(rep, T, files, K=None):
    K = K or spec.CLASS_COUNT
    rep.rule("T1", "each stabilizer table has exactly one line per class id: K(n) = 2/5/18/93/760 lines", floor=20, exhaustive=True)
    for f in files:
        want = K.get(f.n)
        if want is None:
            rep.finding("T1", f"{f.name}:count", f"{f.name}: no class count known for n = {f.n}")
        elif len(f.lines) != want:
            rep.finding("T1", f"{f.name}:count", f"{f.name}: {len(f.lines)} non-empty lines, K({f.n}) = {want} required")
        else:
            rep.ok("T1", 1, nontrivial=f.name, sample=f"{f.name}: {want} lines")


def T4_edges(rep, T, files):
    rep.rule("T4", "every cx/cz/swap token of an advertised table acts on a pair that is an edge of the documented coupling graph of that file's connectivity", floor=30000, exhaustive=True)
    for f in files:
        E = spec.edges(f.n, f.conn)
        for L in f.lines:
            bad = [o for o in L.ops if o.two and frozenset(o.qubits) not in E]
            n2 = sum(1 for o in L.ops if o.two)
            for o in bad:
                rep.finding("T4", key(f, L, f"tok{o.idx}:{o.text}"),
                            f"{L.where()}: token #{o.idx} '{o.text}' acts on ({o.qubits[0]},{o.qubits[1]}), not an edge of {f.n}-{f.conn} [{spec.fmt_edges(E)}]",
                            {"line": L.raw})
            rep.ok("T4", n2 - len(bad), nontrivial=(f.name, L.index) if n2 else None,
                   sample=f"{L.where()}: {n2} two-qubit tokens all in E({f.n},{f.conn})" if n2 else None)


def T5_T6_cost_depth(rep, T, files):
    rep.rule("T5", "cost column = #cx + #cz + 3*#swap of the line's circuit", floor=5000, exhaustive=True)
    rep.rule("T6", "depth column = scheduled two-qubit depth (longest chain of two-qubit gates sharing a qubit, swap = 3)", floor=5000, exhaustive=True)
    for f in files:
        for L in f.lines:
            if L.cost is None:
                continue  # reported by T3
            c = tables.counted_cost(L.ops)
            d = tables.scheduled_depth(L.ops, f.n)
            if c != L.cost:
                rep.finding("T5", key(f, L), f"{L.where()}: cost column {L.cost}, circuit counts {c}", {"line": L.raw})
            else:
                rep.ok("T5", 1, nontrivial=(f.name, L.index) if c else None, sample=f"{L.where()}: cost {c}")
            if d != L.depth:
                rep.finding("T6", key(f, L), f"{L.where()}: depth column {L.depth}, circuit schedules to {d}", {"line": L.raw})
            else:
                rep.ok("T6", 1, nontrivial=(f.name, L.index) if d else None, sample=f"{L.where()}: depth {d}")


def T8_header(rep, T, files):
    rep.rule("T8", "MUB header = (sum of circuit costs, max cost, max two-qubit depth) of the file's circuits", floor=20, exhaustive=True)
    for f in files:
        for (_, m) in f.header_problems:
            rep.finding("T8", f"{f.name}:header", f"{f.name}: {m}")
        if f.header is None:
            continue
        costs = [tables.counted_cost(L.ops) for L in f.lines]
        depths = [tables.scheduled_depth(L.ops, f.n) for L in f.lines]
        got = (sum(costs), max(costs, default=0), max(depths, default=0))
        if got != f.header:
            rep.finding("T8", f"{f.name}:header", f"{f.name}: header {f.header} but circuits give (total, max, maxdepth) = {got}")
        else:
            rep.ok("T8", 1, nontrivial=f.name, sample=f"{f.name}: header {f.header} = counted")


def T9_group_facts(rep, T, files):
    rep.rule("T9", "per basis: n strings pairwise commuting and GF(2)-independent; per file: the 2^n+1 groups partition the 4^n-1 non-identity Paulis (arithmetic on the literals)", floor=700, exhaustive=True)
    for f in files:
        n = f.n
        seen = {}
        ok_file = True
        for L in f.lines:
            if L.paulis is None or any(p for (r, p) in L.problems if r == "T7"):
                ok_file = False
                continue
            vs = [tables.pauli_vec(p) for p in L.paulis]
            bad = False
            for i in range(len(vs)):
                for j in range(i + 1, len(vs)):
                    if tables.symplectic(vs[i], vs[j], n):
                        rep.finding("T9", key(f, L, f"anticommute:{L.paulis[i]},{L.paulis[j]}"),
                                    f"{L.where()}: {L.paulis[i]} and {L.paulis[j]} anticommute")
                        bad = True
            if tables.gf2_rank(vs) != n:
                rep.finding("T9", key(f, L, "dependent"), f"{L.where()}: basis strings are not independent (rank {tables.gf2_rank(vs)} < {n})")
                bad = True
            for v in tables.span(vs) - {0}:
                if v in seen:
                    rep.finding("T9", key(f, L, f"overlap:{seen[v]}"), f"{L.where()}: group shares a non-identity Pauli with basis {seen[v]}")
                    bad = True
                    break
                seen[v] = L.index
            if not bad:
                rep.ok("T9", 1, nontrivial=(f.name, L.index), sample=f"{L.where()}: {','.join(L.paulis)} commuting, rank {n}")
            ok_file = ok_file and not bad
        if ok_file:
            if len(seen) != 4 ** n - 1:
                rep.finding("T9", f"{f.name}:cover", f"{f.name}: the groups cover {len(seen)} of the {4**n-1} non-identity Paulis")
            else:
                rep.ok("T9", 1, nontrivial=(f.name, "cover"), sample=f"{f.name}: {4**n-1} Paulis covered exactly once")


def L_rules(rep, T, files):
    rep.rule("L1", "no table circuit contains a two-qubit gate acting on a provably unentangled eigenstate operand (per-qubit abstract interpretation from |0..0>; such a gate is replaceable by fewer two-qubit gates)", floor=5000, exhaustive=True)
    rep.rule("L2", "cost is monotone under edge inclusion: E(c1) strict subset of E(c2) on the same n implies cost_c2(id) <= cost_c1(id) for every class id", floor=5000, exhaustive=True)
    rep.rule("L3", "line 0 (product-state class) contains no two-qubit token", floor=20, exhaustive=True)
    for f in files:
        for L in f.lines:
            rem = tables.removable_gates(L.ops, f.n)
            n2 = sum(1 for o in L.ops if o.two)
            for (o, why) in rem:
                rep.finding("L1", key(f, L, f"tok{o.idx}:{o.text}"), f"{L.where()}: token #{o.idx} '{o.text}': {why}", {"line": L.raw})
            rep.ok("L1", n2 - len(rem), nontrivial=(f.name, L.index) if n2 else None,
                   sample=f"{L.where()}: {n2} two-qubit gates, none on a product operand" if n2 else None)
        if f.lines:
            L0 = f.lines[0]
            two = [o for o in L0.ops if o.two]
            if two:
                rep.finding("L3", f"{f.name}:id=0", f"{L0.where()}: product-state line contains two-qubit token(s) {' '.join(o.text for o in two)}", {"line": L0.raw})
            else:
                rep.ok("L3", 1, nontrivial=f.name, sample=f"{L0.where()}: '{L0.raw}'")
    byn = {}
    for f in files:
        byn.setdefault(f.n, []).append(f)
    pairs = 0
    for n, fs in byn.items():
        for f1 in fs:
            for f2 in fs:
                if f1 is f2:
                    continue
                if spec.edges(n, f1.conn) < spec.edges(n, f2.conn):
                    pairs += 1
                    for L1, L2 in zip(f1.lines, f2.lines):
                        if L1.cost is None or L2.cost is None:
                            continue
                        if L2.cost > L1.cost:
                            rep.finding("L2", f"{f2.name}:id={L2.index}:vs:{f1.name}",
                                        f"{L2.where()}: cost {L2.cost} on {n}-{f2.conn} exceeds cost {L1.cost} of the same class on the sparser {n}-{f1.conn} ({L1.where()}), whose circuit is admissible on {f2.conn}",
                                        {"dense": L2.raw, "sparse": L1.raw})
                        else:
                            rep.ok("L2", 1, nontrivial=(f1.name, f2.name, L1.index) if L1.cost else None,
                                   sample=f"id {L1.index}: cost {L2.cost} on {f2.conn} <= {L1.cost} on {f1.conn} (n={n})")
    rep.analysed["L2 connectivity pairs (strict edge inclusion)"] = pairs
