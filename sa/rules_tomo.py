"""Tomography wiring rules W1-W7, W9, S1-S3 (C09-C12)."""
from __future__ import annotations
import ast
from . import pyfacts
from .absval import *
from .report import AnalysisError
from .rules_flow import Flow, circuits_of


def _line_of(k):
    """the table-line symbol a value key derives from: innermost part/field of filetext split on newline"""
    if isinstance(k, tuple) and k:
        if k[0] in ("part", "field") and isinstance(k[1], tuple) and k[1] and k[1][0] == "filetext":
            return k
        for x in k[1:]:
            r = _line_of(x)
            if r is not None:
                return r
    return None


def W9_pairing(rep, flow: Flow):
    rep.rule("W9", "the MUB record appends one circuit and one basis per table line, from the same line, on every path of the line loop; get_mubs / get_mub_circuits return these lists through order-preserving operations only", floor=3)
    prog = flow.prog
    # (1) same-line pairing, from the abstract heap of the accessor
    acc = "circuit_lookup.mub_circuit_lookup"
    rets = [r for r in flow.paths(acc) if r.kind == "return"]
    if not rets:
        raise AnalysisError(f"{acc}: no return path")
    for r in rets:
        o = r.heap.get(r.value.oid) if isinstance(r.value, Ref) else None
        if o is None or o.kind != "record":
            raise AnalysisError(f"{acc} does not return a record")
        lists = {k: r.heap[v.oid] for k, v in o.fields.items() if isinstance(v, Ref) and r.heap[v.oid].kind == "list"}
        circ_lists = {k: l for k, l in lists.items() if isinstance(l.elem, Ref) and r.heap[l.elem.oid].kind == "circuit"}
        basis_lists = {k: l for k, l in lists.items() if k not in circ_lists}
        if len(circ_lists) != 1 or len(basis_lists) != 1:
            raise AnalysisError(f"{acc}: expected one list of circuits and one list of bases in the record, got {sorted(lists)}")
        (ck, cl), (bk, bl) = next(iter(circ_lists.items())), next(iter(basis_lists.items()))
        cterm = r.heap[cl.elem.oid].term
        cfiles = {ft for (leaf, *_x) in t_leaves(cterm) if leaf[0] == "tgate" for ft in leaf[3]}
        be = bl.elem
        bo = r.heap[be.oid] if isinstance(be, Ref) else None
        bsym = bo.elem if bo is not None else be
        bprov = set(bsym.prov) if isinstance(bsym, Sym) else set()
        if cfiles and cfiles == bprov:
            rep.ok("W9", 1, nontrivial="same-file", sample=f".{ck} and .{bk} are both read from {fmt(next(iter(cfiles))[1])}")
        else:
            rep.finding("W9", f"{acc}:files", f"circuit_lookup.py MUBInfo: circuits come from {sorted(map(str, cfiles))} but bases from {sorted(map(str, bprov))}")
    # (2) paired appends in the constructor's line loop (structured path enumeration)
    cls = prog.cls("circuit_lookup.MUBInfo")
    init = cls.methods.get("__init__")
    if init is None:
        raise AnalysisError("MUBInfo.__init__ vanished")
    loops = [n for n in ast.walk(init.node) if isinstance(n, ast.For)]
    checked = 0
    for loop in loops:
        from .paths import enumerate_paths
        names = set()
        for n in ast.walk(loop):
            if isinstance(n, ast.Call) and isinstance(n.func, ast.Attribute) and n.func.attr == "append" and isinstance(n.func.value, ast.Attribute):
                names.add(n.func.value.attr)
        if len(names) < 2:
            continue
        checked += 1
        for path in enumerate_paths(loop.body):
            counts = {nm: 0 for nm in names}
            srcs = {}
            for st in path.stmts:
                for n in ast.walk(st):
                    if isinstance(n, ast.Call) and isinstance(n.func, ast.Attribute) and n.func.attr == "append" and isinstance(n.func.value, ast.Attribute) and n.func.value.attr in names:
                        counts[n.func.value.attr] += 1
            vals = set(counts.values())
            if len(vals) != 1:
                rep.finding("W9", f"{init.fq}:unpaired", f"{pyfacts.where(init, loop)}: a path through the line loop appends {counts}: the two lists get out of step ({path.describe()})")
            else:
                rep.ok("W9", 1, nontrivial=("path", path.describe()), sample=f"loop path [{path.describe()}]: appends {counts}")
    if not checked:
        raise AnalysisError("MUBInfo.__init__: no loop appending to two lists found (anchor vanished)")
    # (3) the public wrappers return the lists unpermuted: the returned list object is the accessor's list
    # (or an order-preserving copy of it)
    for fq, field in (("mub_circuits.get_mub_circuits", "circuits"), ("mub_circuits.get_mubs", "bases")):
        f = prog.func(fq)
        for r in flow.paths(fq):
            if r.kind != "return":
                continue
            o = r.heap.get(r.value.oid) if isinstance(r.value, Ref) else None
            if o is None or o.kind != "list":
                rep.finding("W9", f"{fq}:notlist", f"{f.module.rel} {f.qualname}: does not return a list ({r.describe()!r:.80})")
                continue
            perm = o.meta.get("permuted")
            srcs = _order_sources(f)
            if perm or srcs:
                rep.finding("W9", f"{fq}:order", f"{f.module.rel} {f.qualname}: the returned list of {field} is reordered ({perm or srcs}); it no longer lines up index by index with the other list")
            else:
                rep.ok("W9", 1, nontrivial=fq, sample=f"{f.qualname}: returns the accessor's list of {field} in file order")


ORDER_CHANGERS = {"reversed", "sorted", "shuffle", "sort", "reverse", "set", "frozenset"}


def _order_sources(f):
    """order-changing operations syntactically present in a wrapper"""
    out = []
    for n in ast.walk(f.node):
        if isinstance(n, ast.Call):
            name = n.func.id if isinstance(n.func, ast.Name) else (n.func.attr if isinstance(n.func, ast.Attribute) else "")
            if name in ORDER_CHANGERS:
                out.append(name + "()")
        elif isinstance(n, ast.Subscript) and isinstance(n.slice, ast.Slice):
            st = n.slice.step
            lo, up = n.slice.lower, n.slice.upper
            if st is not None or lo is not None or up is not None:
                out.append("slice [" + ast.unparse(n.slice) + "]")
    return out
