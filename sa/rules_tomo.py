"""Tomography wiring rules W1-W7, W9, S1-S3 (C09-C12)."""
from __future__ import annotations
import ast
from . import pyfacts
from .absval import *
from .report import AnalysisError
from .rules_flow import Flow, circuits_of


def _line_of(k):
    """the table-line symbol a value key derives from: innermost part/field of filetext split on newline"""
    if isinstance(k, tuple) and k:
        if k[0] in ("part", "field") and isinstance(k[1], tuple) and k[1] and k[1][0] == "filetext":
            return k
        for x in k[1:]:
            r = _line_of(x)
            if r is not None:
                return r
    return None


def W9_pairing(rep, flow: Flow):
    rep.rule("W9", "the MUB record appends one circuit and one basis per table line, from the same line, on every path of the line loop; get_mubs / get_mub_circuits return these lists through order-preserving operations only", floor=3)
    prog = flow.prog
    # (1) same-line pairing, from the abstract heap of the accessor
    acc = "circuit_lookup.mub_circuit_lookup"
    rets = [r for r in flow.paths(acc) if r.kind == "return"]
    if not rets:
        raise AnalysisError(f"{acc}: no return path")
    for r in rets:
        o = r.heap.get(r.value.oid) if isinstance(r.value, Ref) else None
        if o is None or o.kind != "record":
            raise AnalysisError(f"{acc} does not return a record")
        lists = {k: r.heap[v.oid] for k, v in o.fields.items() if isinstance(v, Ref) and r.heap[v.oid].kind == "list"}
        circ_lists = {k: l for k, l in lists.items() if isinstance(l.elem, Ref) and r.heap[l.elem.oid].kind == "circuit"}
        basis_lists = {k: l for k, l in lists.items() if k not in circ_lists}
        if len(circ_lists) != 1 or len(basis_lists) != 1:
            raise AnalysisError(f"{acc}: expected one list of circuits and one list of bases in the record, got {sorted(lists)}")
        (ck, cl), (bk, bl) = next(iter(circ_lists.items())), next(iter(basis_lists.items()))
        cterm = r.heap[cl.elem.oid].term
        cfiles = {ft for (leaf, *_x) in t_leaves(cterm) if leaf[0] == "tgate" for ft in leaf[3]}
        be = bl.elem
        bo = r.heap[be.oid] if isinstance(be, Ref) else None
        bsym = bo.elem if bo is not None else be
        bprov = set(bsym.prov) if isinstance(bsym, Sym) else set()
        if not cfiles or not bprov:
            raise AnalysisError(f"{acc}: the file provenance of the circuits ({len(cfiles)}) or of the bases ({len(bprov)}) is lost in a transformation: W9 cannot decide that both come from the same line")
        if cfiles and cfiles == bprov:
            rep.ok("W9", 1, nontrivial="same-file", sample=f".{ck} and .{bk} are both read from {fmt(next(iter(cfiles))[1])}")
        else:
            rep.finding("W9", f"{acc}:files", f"circuit_lookup.py MUBInfo: circuits come from {sorted(map(str, cfiles))} but bases from {sorted(map(str, bprov))}")
    # (2) paired appends in the constructor's line loop (structured path enumeration)
    cls = prog.cls("circuit_lookup.MUBInfo")
    init = cls.methods.get("__init__")
    if init is None:
        raise AnalysisError("MUBInfo.__init__ vanished")
    loops = [n for n in ast.walk(init.node) if isinstance(n, ast.For)]
    checked = 0
    for loop in loops:
        from .paths import enumerate_paths
        names = set()
        for n in ast.walk(loop):
            if isinstance(n, ast.Call) and isinstance(n.func, ast.Attribute) and n.func.attr == "append" and isinstance(n.func.value, ast.Attribute):
                names.add(n.func.value.attr)
        if len(names) < 2:
            continue
        checked += 1
        for path in enumerate_paths(loop.body):
            counts = {nm: 0 for nm in names}
            srcs = {}
            for st in path.stmts:
                for n in ast.walk(st):
                    if isinstance(n, ast.Call) and isinstance(n.func, ast.Attribute) and n.func.attr == "append" and isinstance(n.func.value, ast.Attribute) and n.func.value.attr in names:
                        counts[n.func.value.attr] += 1
            vals = set(counts.values())
            if len(vals) != 1:
                rep.finding("W9", f"{init.fq}:unpaired", f"{pyfacts.where(init, loop)}: a path through the line loop appends {counts}: the two lists get out of step ({path.describe()})")
            else:
                rep.ok("W9", 1, nontrivial=("path", path.describe()), sample=f"loop path [{path.describe()}]: appends {counts}")
    if not checked:
        raise AnalysisError("MUBInfo.__init__: no loop appending to two lists found (anchor vanished)")
    # (3) the public wrappers return the accessor's lists themselves, or an order-preserving conversion of them
    for fq, field in (("mub_circuits.get_mub_circuits", "circuits"), ("mub_circuits.get_mubs", "bases")):
        f = prog.func(fq)
        for r in flow.paths(fq):
            if r.kind != "return":
                continue
            o = r.heap.get(r.value.oid) if isinstance(r.value, Ref) else None
            if o is None or o.kind != "list":
                rep.finding("W9", f"{fq}:notlist", f"{f.module.rel} {f.qualname}: does not return a list ({r.describe()!r:.80})")
                continue
            rec_lists = set()
            for ho in r.heap.values():
                if ho.kind == "record" and ho.cls is not None and ho.cls.name == "MUBInfo":
                    for v in ho.fields.values():
                        if isinstance(v, Ref) and r.heap[v.oid].kind == "list":
                            rec_lists.add(v.oid)
            if o.meta.get("generator"):
                rep.finding("W9", f"{fq}:generator", f"{f.module.rel} {f.qualname}: returns a generator expression (created at {o.meta['generator']}), not a list: it has no length, cannot be indexed and is empty after the first traversal - the bases can be paired with the circuits only once")
                continue
            # WHICH of the record's lists: circuits for get_mub_circuits, bases for get_mubs
            src_oid = o.oid if o.oid in rec_lists else (o.meta.get("elementwise_of") if o.meta.get("elementwise_of") in rec_lists else None)
            if src_oid is not None:
                se = r.heap[src_oid].elem
                holds_circuits = isinstance(se, Ref) and r.heap[se.oid].kind == "circuit"
                if holds_circuits != (field == "circuits"):
                    rep.finding("W9", f"{fq}:other-list", f"{f.module.rel} {f.qualname}: returns the record's list of {'circuits' if holds_circuits else 'bases'}, not its list of {field}")
                    continue
            perm = o.meta.get("permuted") or o.meta.get("filtered")
            srcs = _order_sources(f)
            same = o.oid in rec_lists
            conv = o.meta.get("identity_conv_of")
            conv_ok = conv is not None and any(vkey(conv) == vkey(Interp_sym(r, x)) for x in rec_lists)
            if perm or srcs:
                rep.finding("W9", f"{fq}:order", f"{f.module.rel} {f.qualname}: the returned list of {field} is reordered or filtered ({perm or srcs}); it no longer lines up index by index with the other list")
            elif not (same or conv_ok) and o.meta.get("elementwise_of") in rec_lists:
                rep.ok("W9", 1, nontrivial=(fq, "elementwise"), sample=f"{f.qualname}: one element per element of the record's list, in order")
            elif not (same or conv_ok) and o.meta.get("elementwise_of") is None and not (o.items is not None and not o.items):
                raise AnalysisError(f"{f.module.rel} {f.qualname}: the returned list of {field} (allocated at {o.site}) is built in a way whose order relation to the record's list is not modelled: W9 cannot decide index alignment")
            elif not (same or conv_ok):
                rep.finding("W9", f"{fq}:rebuilt", f"{f.module.rel} {f.qualname}: the returned list of {field} is not the record's list nor an order-preserving copy of it (allocated at {o.site})")
            else:
                rep.ok("W9", 1, nontrivial=fq, sample=f"{f.qualname}: returns the accessor's list of {field} in file order")


def Interp_sym(r, oid):
    o = r.heap[oid]
    return Sym("obj", o.kind, o.oid)


ORDER_CHANGERS = {"reversed", "sorted", "shuffle", "sort", "reverse", "set", "frozenset"}


def _order_sources(f):
    """order-changing operations syntactically present in a wrapper"""
    out = []
    for n in ast.walk(f.node):
        if isinstance(n, ast.Call):
            name = n.func.id if isinstance(n.func, ast.Name) else (n.func.attr if isinstance(n.func, ast.Attribute) else "")
            if name in ORDER_CHANGERS:
                out.append(name + "()")
        elif isinstance(n, ast.Subscript) and isinstance(n.slice, ast.Slice):
            st = n.slice.step
            lo, up = n.slice.lower, n.slice.upper
            if st is not None or lo is not None or up is not None:
                out.append("slice [" + ast.unparse(n.slice) + "]")
    return out


# =============================================================================================
# bit order: B1 (full register), B2 (marginalisation), B3 (re-embedding)
from . import bitorder, consteval

TOMO = "tomography"
A_COUNTS_PARSER = "tomography.CircuitResult.__init__"
A_ZMASK = "tomography.z_pauli_from_bitstring"
A_FITTER = "tomography.StabilizerMeasurementFitter.expectation_values"
A_FITTER_INIT = "tomography.StabilizerMeasurementFitter.__init__"
A_FULL_FITTER = "tomography.FullStateTomographyFitter.expectation_values"
A_ESTIMATOR = "tomography._compute_expectation_value"
A_DENSITY = "tomography._compute_density_matrix_from_pauli_expectation_values"


def _is_none_test(test, name):
    """('is', name) / ('isnot', name) if test is `name is None` / `name is not None`"""
    if isinstance(test, ast.Compare) and len(test.ops) == 1 and isinstance(test.left, ast.Name) and test.left.id == name and \
            isinstance(test.comparators[0], ast.Constant) and test.comparators[0].value is None:
        return "is" if isinstance(test.ops[0], ast.Is) else ("isnot" if isinstance(test.ops[0], ast.IsNot) else None)
    return None


def B1_B2_counts(rep, flow: Flow, want=("B1", "B2")):
    if "B1" in want:
        rep.rule("B1", "full-register path: a count key (little-endian, Q5) reaches the stored outcome integer with bit j = qubit j; the Z mask integer is turned into a Pauli with array position j = bit j", floor=2)
    if "B2" in want:
        rep.rule("B2", "marginalisation: the character selected for list position j is the bit of register qubit qubits[j], and after int(.,2) list position j has significance 2^j", floor=1)
    f = flow.prog.func(A_COUNTS_PARSER)
    counts = [a.arg for a in f.node.args.args if a.annotation is not None and "Dict" in ast.unparse(a.annotation)] or [p for p in f.params if p == "counts"]
    lists = [a.arg for a in f.node.args.args if (a.annotation is not None and "Sequence" in ast.unparse(a.annotation)) or a.arg == "qubits"]
    if not counts or not lists:
        raise AnalysisError(f"{A_COUNTS_PARSER}: cannot identify the counts / qubit-list parameters")
    lp = lists[0]
    for br, rid, assume_none in (("full", "B1", True), ("subset", "B2", False)):
        if rid not in rep.rules:
            continue
        ev = bitorder.QualEval(flow.prog, counts, lp, assume_none)
        ev.run_function(f, {}, {lp})
        if not ev.sinks:
            raise AnalysisError(f"{A_COUNTS_PARSER}: no outcome record is constructed on the {br} path (anchor vanished)")
        for (g, node, msg) in ev.problems:
            rep.finding(rid, f"{A_COUNTS_PARSER}:{br}:select", f"{pyfacts.where(g, node)}: {msg} [{pyfacts.norm_stmt(node)}]")
        for (g, c, q) in ev.sinks:
            if q is None:
                raise AnalysisError(f"{pyfacts.where(g, c)}: bit order of the stored outcome is outside the qualifier algebra on the {br} path [{pyfacts.norm_stmt(c)}]")
            want_reg = "register" if br == "full" else lp
            if br == "subset" and q[0] in ("ILE", "IBE") and q[1] == ("sorted", lp):
                rep.finding(rid, f"{A_COUNTS_PARSER}:{br}:sorted", f"{pyfacts.where(g, c)}: the stored outcome comes from marginal_counts(), which orders the selected bits by ascending qubit index: bit j is the j-th SMALLEST listed qubit, not list position j; the readout was composed in the caller's order [{pyfacts.norm_stmt(c)}]")
            elif q[0] == "ILE" and q[1] == want_reg and (len(q) < 3 or q[2] == "ok"):
                rep.ok(rid, 1, nontrivial=(br, pyfacts.norm_stmt(c)), sample=f"{br} path: stored outcome is little-endian over {want_reg} [{pyfacts.norm_stmt(c)[:80]}]")
            elif q[0] == "ILE" and len(q) == 3 and q[2] == "mirror":
                pass    # the selection problem is already reported
            else:
                rep.finding(rid, f"{A_COUNTS_PARSER}:{br}:significance", f"{pyfacts.where(g, c)}: the stored outcome integer is {'big' if q[0] == 'IBE' else '?'}-endian over {q[1]} (position j gets significance 2^(m-1-j)); every consumer assumes bit j = {('qubit j' if br == 'full' else 'list position j')} [{pyfacts.norm_stmt(c)}]")
    if "B1" in rep.rules:
        B1_zmask(rep, flow)


def _zmask_builders(flow):
    """the function(s) that actually build the Z-mask Pauli: the anchor itself, or helpers it delegates to (also
    through `alias = functools.lru_cache(...)(helper)`), up to two hops"""
    prog = flow.prog
    root = prog.func(A_ZMASK)
    m = root.module
    seen, todo, out = set(), [(root, 0)], []
    while todo:
        f, d = todo.pop()
        if f in seen:
            continue
        seen.add(f)
        if any(isinstance(n, ast.Return) and n.value is not None and any(isinstance(c, ast.Call) and isinstance(c.func, ast.Name) and c.func.id == "Pauli" for c in ast.walk(n.value)) for n in ast.walk(f.node)):
            out.append(f)
            continue
        if d >= 2:
            continue
        for n in ast.walk(f.node):
            if isinstance(n, ast.Name) and isinstance(n.ctx, ast.Load):
                r = prog.lookup_global(m, n.id)
                if r and r[0] == "func":
                    todo.append((r[1], d + 1))
                elif r and r[0] == "var":
                    for val in r[1].assigns.get(r[2], []):
                        for x in ast.walk(val):
                            if isinstance(x, ast.Name):
                                rr = prog.lookup_global(r[1], x.id)
                                if rr and rr[0] == "func":
                                    todo.append((rr[1], d + 1))
    return out


def B1_zmask(rep, flow):
    try:
        builders = _zmask_builders(flow)
        if not builders:
            raise AnalysisError(f"{A_ZMASK}: no `return Pauli((z, x))` found in it or in the helpers it delegates to (anchor vanished)")
        for f in builders:
            _B1_zmask_one(rep, flow, f)
    except AnalysisError as ex:
        if not _B1_evaluate(rep, flow, str(ex)):
            raise


def _B1_evaluate(rep, flow, why):
    """a mask builder written in a form the qualifier algebra does not know: evaluated on its whole domain - every mask
    of every register size 1..6 - with the library's Pauli constructor replaced by a recorder of its (z, x) argument"""
    f = flow.prog.func(A_ZMASK)
    ce = consteval.CE(flow.prog, max_steps=50_000_000)
    seen = []

    def fake_pauli(arg=None, *a, **k):
        seen.append(arg)
        return ("pauli-stub", arg)
    ce.ext_stubs = {"Pauli": fake_pauli}

    def bits(v):
        if isinstance(v, consteval.Mat) and v.ndim == 1:
            return [int(bool(x)) for x in v.d]
        if isinstance(v, (list, tuple)) and all(isinstance(x, (int, bool)) for x in v):
            return [int(bool(x)) for x in v]
        return None
    n_ok = 0
    for n in range(1, 7):
        for mask in range(2 ** n):
            del seen[:]
            try:
                res = ce.call_func(f, [n, mask], {})
            except consteval.CERaise as ex:
                rep.finding("B1", f"{A_ZMASK}:raise", f"{ex.where or f.module.rel}: {f.qualname}({n}, {mask}) raises {ex.etype} ({ex.msg[:60]})")
                return True
            except AnalysisError:
                return False
            if not (isinstance(res, tuple) and len(res) == 2 and res[0] == "pauli-stub" and isinstance(res[1], (tuple, list)) and len(res[1]) == 2):
                return False
            z, x = bits(res[1][0]), bits(res[1][1])
            if z is None or x is None:
                return False
            want = [(mask >> j) & 1 for j in range(n)]
            if z != want or any(x):
                if z == want[::-1] and not any(x):
                    rep.finding("B1", f"{A_ZMASK}:order", f"{f.module.rel} {f.qualname}({n}, {mask}): z array {z} holds bit n-1-j of the mask at position j (required {want}): the reported Pauli is the mirror image of the measured one")
                else:
                    rep.finding("B1", f"{A_ZMASK}:value", f"{f.module.rel} {f.qualname}({n}, {mask}): builds z = {z}, x = {x}; required z = {want} (position j = bit j of the mask), x all zero")
                return True
            n_ok += 1
    rep.ok("B1", 1, nontrivial="zmask-evaluated", sample=f"mask builder outside the qualifier algebra ({why[:80]}); evaluated on all {n_ok} (size, mask) pairs for sizes 1..6: position j = bit j, x = 0")
    return True


def _B1_zmask_one(rep, flow, f):
    intparam = f.params[1] if len(f.params) > 1 else None
    if intparam is None:
        raise AnalysisError(f"{f.fq}: signature changed")
    env = {}

    def q(e):
        if isinstance(e, ast.Name):
            return env.get(e.id)
        if isinstance(e, ast.JoinedStr):
            fv = [v for v in e.values if isinstance(v, ast.FormattedValue)]
            if len(fv) == 1 and isinstance(fv[0].value, ast.Name) and fv[0].value.id == intparam and fv[0].format_spec is not None:
                spec_txt = "".join(v.value for v in fv[0].format_spec.values if isinstance(v, ast.Constant))
                if spec_txt.endswith("b") and all(isinstance(v, ast.Constant) for v in e.values if not isinstance(v, ast.FormattedValue)) and \
                        all(v.value == "" for v in e.values if isinstance(v, ast.Constant)):
                    return ("LE", "mask")        # binary text of an integer: last character = bit 0
            return None
        if isinstance(e, ast.Call):
            fn = e.func
            if isinstance(fn, ast.Name) and fn.id in ("list", "tuple") and e.args:
                return q(e.args[0])
            if isinstance(fn, ast.Name) and fn.id == "reversed" and e.args:
                return bitorder.toggle(q(e.args[0]))
            if isinstance(fn, ast.Name) and fn.id == "format" and len(e.args) == 2 and isinstance(e.args[0], ast.Name) and e.args[0].id == intparam:
                return ("LE", "mask")
            if isinstance(fn, ast.Attribute) and fn.attr in ("array", "asarray") and e.args:
                return q(e.args[0])
            if isinstance(fn, ast.Attribute) and fn.attr in ("zfill", "rjust") :
                return q(fn.value)
            if isinstance(fn, ast.Attribute) and fn.attr == "binary_repr" and e.args and isinstance(e.args[0], ast.Name) and e.args[0].id == intparam:
                return ("LE", "mask")
        if isinstance(e, (ast.ListComp, ast.GeneratorExp)) and len(e.generators) == 1 and not e.generators[0].ifs:
            g = e.generators[0]
            base = q(g.iter)
            # element-wise conversion of the loop variable keeps the order
            names = {n.id for n in ast.walk(e.elt) if isinstance(n, ast.Name)}
            if isinstance(g.target, ast.Name) and g.target.id in names:
                return base
            return None
        if isinstance(e, ast.Subscript) and bitorder.is_rev_slice(e.slice):
            return bitorder.toggle(q(e.value))
        if isinstance(e, ast.Subscript) and isinstance(e.slice, ast.Slice) and isinstance(e.value, ast.Call) and isinstance(e.value.func, ast.Name) and e.value.func.id == "bin":
            return ("LE", "mask")
        return None

    found = False
    for st in f.node.body:
        if isinstance(st, ast.Assign) and len(st.targets) == 1 and isinstance(st.targets[0], ast.Name):
            env[st.targets[0].id] = q(st.value)
        elif isinstance(st, ast.Expr) and isinstance(st.value, ast.Call) and isinstance(st.value.func, ast.Attribute) and st.value.func.attr == "reverse" and isinstance(st.value.func.value, ast.Name):
            env[st.value.func.value.id] = bitorder.toggle(env.get(st.value.func.value.id))
        for c in ast.walk(st):
            if isinstance(c, ast.Call) and isinstance(c.func, ast.Name) and c.func.id == "Pauli" and isinstance(st, ast.Return):
                found = True
                arg = c.args[0] if c.args else None
                if not (isinstance(arg, ast.Tuple) and len(arg.elts) == 2):
                    raise AnalysisError(f"{pyfacts.where(f, c)}: Pauli constructor argument is not a (z, x) pair")
                zq = q(arg.elts[0])
                if zq is None:
                    raise AnalysisError(f"{pyfacts.where(f, c)}: order of the z array is outside the qualifier algebra [{pyfacts.norm_stmt(c)}]")
                if zq[0] == "BE":
                    rep.ok("B1", 1, nontrivial="zmask", sample=f"z array position j = bit j of the mask [{pyfacts.norm_stmt(c)[:80]}]")
                else:
                    rep.finding("B1", f"{A_ZMASK}:order", f"{pyfacts.where(f, c)}: z array position j holds bit n-1-j of the mask: the reported Pauli is the mirror image of the measured one [{pyfacts.norm_stmt(c)}]")
                xz = arg.elts[1]
                if not (isinstance(xz, ast.Call) and isinstance(xz.func, ast.Attribute) and xz.func.attr == "zeros"):
                    rep.finding("B1", f"{A_ZMASK}:x", f"{pyfacts.where(f, c)}: the x part of the computational-basis mask is not all-zero [{ast.unparse(xz)}]")
    if not found:
        raise AnalysisError(f"{f.fq}: no `return Pauli((z, x))` found (anchor vanished)")


def index_role(e, idxvar, valvar, listname):
    """'POS' / 'QIDX' / None for a subscript index expression inside `for idxvar, valvar in enumerate(listname)`"""
    if isinstance(e, ast.Name):
        if e.id == idxvar:
            return "POS"
        if e.id == valvar:
            return "QIDX"
    if isinstance(e, ast.Subscript) and isinstance(e.value, ast.Name) and e.value.id == listname and index_role(e.slice, idxvar, valvar, listname) == "POS":
        return "QIDX"
    return None


def _B3_view_stores(rep, flow):
    """the re-embedding written as stores through the `.z` / `.x` views of a Pauli (`new.z[qubits] = key.z`): the
    library keeps the phase unit of every Y factor in a third field that such stores do not touch - unless the function
    also sets the phase, the embedded Pauli differs from the measured one by a power of i for every Y factor"""
    def view_stores(g):
        out = {}
        for st in ast.walk(g.node):
            if isinstance(st, ast.Assign) and len(st.targets) == 1:
                t = st.targets[0]
                if isinstance(t, ast.Subscript) and isinstance(t.value, ast.Attribute) and t.value.attr in ("z", "x") and isinstance(t.value.value, ast.Name) \
                        and isinstance(st.value, ast.Attribute) and st.value.attr == t.value.attr:
                    out.setdefault(t.value.value.id, {})[t.value.attr] = st
        return {k: v for k, v in out.items() if set(v) == {"z", "x"}}
    for g in _find_in_tomo(flow, lambda g: bool(view_stores(g))):
        for name, sts in view_stores(g).items():
            touches_phase = any(isinstance(a, ast.Attribute) and a.attr in ("phase", "_phase") and isinstance(a.value, ast.Name) and a.value.id == name and isinstance(a.ctx, ast.Store)
                                for a in ast.walk(g.node))
            touches_phase = touches_phase or any(isinstance(a, ast.AugAssign) and isinstance(a.target, ast.Attribute) and a.target.attr in ("phase", "_phase") for a in ast.walk(g.node))
            if not touches_phase:
                st = sts["z"]
                rep.finding("B3", f"{A_FITTER}:reembed-phase", f"{pyfacts.where(g, st)}: the m-qubit key is copied into the register Pauli through its `.z` and `.x` arrays only [{pyfacts.norm_stmt(st)}]; the library stores one phase unit per Y factor in a separate field that these stores leave at zero, so every key with a Y factor is embedded as a different (phase-shifted) operator")


def B3_reembed(rep, flow: Flow):
    rep.rule("B3", "re-embedding: factor j of the m-qubit Pauli (position in the measured list) is written to register position qubits[j]", floor=1)

    def has_reembed_loop(g):
        for x in ast.walk(g.node):
            if isinstance(x, ast.For) and isinstance(x.iter, ast.Call) and isinstance(x.iter.func, ast.Name) and x.iter.func.id in ("enumerate", "range"):
                if any(isinstance(st, ast.Assign) and isinstance(st.targets[0], ast.Subscript) and isinstance(st.value, ast.Subscript) for st in x.body):
                    return True
        return False
    cands = _find_in_tomo(flow, has_reembed_loop)
    if not cands:
        _B3_view_stores(rep, flow)
        raise AnalysisError(f"{TOMO}: no re-embedding loop (subscript store from a subscript inside a loop over the measured qubits) found (anchor vanished)")
    f = cands[0]
    n = 0
    for loop in [x for x in ast.walk(f.node) if isinstance(x, ast.For)]:
        it = loop.iter
        idxvar = valvar = listname = None
        if isinstance(it, ast.Call) and isinstance(it.func, ast.Name) and it.func.id == "enumerate" and it.args and isinstance(it.args[0], ast.Name) and isinstance(loop.target, ast.Tuple) and len(loop.target.elts) == 2:
            idxvar, valvar, listname = loop.target.elts[0].id, loop.target.elts[1].id, it.args[0].id
        elif isinstance(it, ast.Call) and isinstance(it.func, ast.Name) and it.func.id == "range" and len(it.args) == 1 and isinstance(it.args[0], ast.Call) and \
                isinstance(it.args[0].func, ast.Name) and it.args[0].func.id == "len" and isinstance(it.args[0].args[0], ast.Name) and isinstance(loop.target, ast.Name):
            idxvar, valvar, listname = loop.target.id, None, it.args[0].args[0].id
        elif isinstance(it, ast.Call) and isinstance(it.func, ast.Name) and it.func.id == "enumerate" and it.args and isinstance(it.args[0], ast.Call) and isinstance(it.args[0].func, ast.Name) \
                and it.args[0].func.id in ("sorted", "reversed", "set", "list", "tuple") and it.args[0].args and isinstance(it.args[0].args[0], ast.Name) \
                and any(isinstance(st, ast.Assign) and isinstance(st.targets[0], ast.Subscript) and isinstance(st.value, ast.Subscript) for st in loop.body):
            inner = it.args[0]
            if inner.func.id in ("list", "tuple"):
                idxvar, valvar, listname = loop.target.elts[0].id, loop.target.elts[1].id, inner.args[0].id
            else:
                n += 1
                rep.finding("B3", f"{A_FITTER}:reembed-order", f"{pyfacts.where(f, loop)}: the re-embedding loop runs over `{ast.unparse(inner)}`: position j of the m-qubit key belongs to the j-th entry of the measured-qubit list AS GIVEN; a reordered list puts the factors on other qubits [{ast.unparse(it)}]")
                continue
        else:
            continue
        for st in loop.body:
            if isinstance(st, ast.Assign) and len(st.targets) == 1 and isinstance(st.targets[0], ast.Subscript) and isinstance(st.value, ast.Subscript):
                n += 1
                tr = index_role(st.targets[0].slice, idxvar, valvar, listname)
                vr = index_role(st.value.slice, idxvar, valvar, listname)
                # the factor must be read from the Pauli itself (position j = qubit j); its LABEL is written the other way round
                vb = st.value.value
                from_label = (isinstance(vb, ast.Call) and isinstance(vb.func, ast.Attribute) and vb.func.attr in ("to_label", "__str__")) or \
                    (isinstance(vb, ast.Name) and any(isinstance(a, ast.Assign) and any(isinstance(t, ast.Name) and t.id == vb.id for t in a.targets) and isinstance(a.value, ast.Call) and isinstance(a.value.func, ast.Attribute)
                                                      and a.value.func.attr in ("to_label", "__str__") for a in ast.walk(f.node)))
                if from_label:
                    if vr == "POS":
                        rep.finding("B3", f"{A_FITTER}:reembed-label", f"{pyfacts.where(f, st)}: the factor is read from the key's LABEL at the list position [{pyfacts.norm_stmt(st)}]; a label is written with the highest qubit first, so position j of the label is qubit m-1-j of the key: the factors land on the listed qubits in reverse order")
                        continue
                    raise AnalysisError(f"{pyfacts.where(f, st)}: the re-embedded factor is read from a label string with an index outside the vocabulary [{pyfacts.norm_stmt(st)}]")
                if tr is None or vr is None:
                    raise AnalysisError(f"{pyfacts.where(f, st)}: index roles of the re-embedding store are outside the vocabulary [{pyfacts.norm_stmt(st)}]")
                if tr == "QIDX" and vr == "POS":
                    rep.ok("B3", 1, nontrivial=pyfacts.norm_stmt(st), sample=f"{pyfacts.norm_stmt(st)}: register index <- list position")
                else:
                    rep.finding("B3", f"{A_FITTER}:reembed", f"{pyfacts.where(f, st)}: the full-register Pauli is subscripted by a {tr} and the m-qubit key by a {vr}; it must be register index <- list position [{pyfacts.norm_stmt(st)}]")
    if n == 0:
        raise AnalysisError(f"{A_FITTER}: no re-embedding store found in a loop over the measured qubits (anchor vanished)")
    _B3_frame(rep, flow, f)


def _B3_frame(rep, flow, f):
    """what surrounds the re-embedding store: (a) the early return that skips it is taken exactly when all qubits were
    measured or the caller asked for the small space; (b) each key starts from a FRESH all-identity Pauli (c) of the
    register's length"""
    ce = consteval.CE(flow.prog)
    params = set(f.params)
    if "full_hilbert_space" not in params:
        return
    # (a) the guard: an `if` whose body is a bare return of a name, with a test over `full_hilbert_space` and one name tested against None
    guards = [n for n in f.node.body if isinstance(n, ast.If) and len(n.body) == 1 and isinstance(n.body[0], ast.Return) and
              any(isinstance(x, ast.Name) and x.id == "full_hilbert_space" for x in ast.walk(n.test))]
    if len(guards) == 1:
        g = guards[0]
        names = sorted({x.id for x in ast.walk(g.test) if isinstance(x, ast.Name)} - {"full_hilbert_space", "self", "len"})
        if len(names) == 1:
            qn = names[0]
            table = {}
            # the fitter object as far as a guard may look at it: a record of a 3-qubit register
            rcls = flow.prog.modules[TOMO].classes.get("ReadoutInfo") if TOMO in flow.prog.modules else None
            try:
                for qv, ql in ((None, "all measured"), ((0, 2), "subset"), ((2, 0, 1), "all measured in another order")):
                    for fh in (True, False):
                        env = {qn: qv, "full_hilbert_space": fh}
                        if rcls is not None and f.cls is not None:
                            me, ri = consteval.Instance(f.cls), consteval.Instance(rcls)
                            ri.attrs.update({"qubits": qv, "total_num_qubits": 3, "circuit": consteval.Recorder(3 if qv is None else len(qv))})
                            me.attrs.update({"readout_info": ri})
                            env["self"] = me
                        table[(ql, fh)] = bool(ce.truth(ce.ev(g.test, env, f)))
            except (consteval.CERaise, AnalysisError) as ex:
                raise AnalysisError(f"{pyfacts.where(f, g)}: the early return `if {ast.unparse(g.test)}` cannot be evaluated on the probe requests ({str(ex)[:80]}): when the embedding is skipped is not decidable")
            want = {("all measured", True): True, ("all measured", False): True, ("subset", True): False, ("subset", False): True,
                    ("all measured in another order", True): False, ("all measured in another order", False): True}
            if table == want:
                rep.ok("B3", 1, nontrivial="guard", sample=f"`if {ast.unparse(g.test)}: return` skips the embedding exactly when nothing is to embed")
            else:
                bad = [k for k in want if table[k] != want[k]]
                rep.finding("B3", f"{A_FITTER}:guard", f"{pyfacts.where(f, g)}: the early return `if {ast.unparse(g.test)}` is {'taken' if table[bad[0]] else 'not taken'} for ({bad[0][0]}, full_hilbert_space={bad[0][1]}); the m-qubit result must be returned exactly when all qubits were measured or full_hilbert_space is false")
    # (b), (c) the key written in the loop
    for loop in [x for x in ast.walk(f.node) if isinstance(x, ast.For)]:
        inner = [x for x in loop.body if isinstance(x, ast.For)]
        for il in inner:
            stores = [st for st in il.body if isinstance(st, ast.Assign) and isinstance(st.targets[0], ast.Subscript) and isinstance(st.targets[0].value, ast.Name) and isinstance(st.value, ast.Subscript)]
            for st in stores:
                kv = st.targets[0].value.id
                init = [a for a in loop.body if isinstance(a, (ast.Assign, ast.AnnAssign)) and isinstance(getattr(a, "target", None) or a.targets[0], ast.Name)
                        and (getattr(a, "target", None) or a.targets[0]).id == kv]
                if not init:
                    rep.finding("B3", f"{A_FITTER}:fresh-key", f"{pyfacts.where(f, st)}: the full-register key `{kv}` is not created anew for every m-qubit key (it is assigned outside the loop): all entries share one object")
                    continue
                val = init[0].value
                fresh = isinstance(val, ast.Call) and ((isinstance(val.func, ast.Attribute) and val.func.attr in ("copy", "deepcopy")) or (isinstance(val.func, ast.Name) and val.func.id in ("Pauli", "deepcopy", "copy")))
                if isinstance(val, ast.Call) and isinstance(val.func, ast.Name) and val.func.id == "Pauli" and len(val.args) == 1 and isinstance(val.args[0], ast.Name) and not val.keywords:
                    # Pauli(<Pauli object>) adopts the z / x arrays of its argument (only Pauli(<string>) / Pauli((z, x)) of new arrays is fresh)
                    tname = val.args[0].id
                    tmpl_is_pauli = any(isinstance(a, ast.Assign) and any(isinstance(t, ast.Name) and t.id == tname for t in a.targets) and isinstance(a.value, ast.Call) and isinstance(a.value.func, ast.Name) and a.value.func.id == "Pauli" for a in ast.walk(f.node))
                    if tmpl_is_pauli:
                        rep.finding("B3", f"{A_FITTER}:fresh-key", f"{pyfacts.where(f, init[0])}: the full-register key `{kv}` is built as `{ast.unparse(val)}` from the template Pauli `{tname}`: the library's Pauli constructor ADOPTS the z / x arrays of a Pauli it is given, so every key writes into the same arrays - all entries end up as one operator [{pyfacts.norm_stmt(init[0])}]")
                        continue
                if isinstance(val, ast.Name):
                    rep.finding("B3", f"{A_FITTER}:fresh-key", f"{pyfacts.where(f, init[0])}: the full-register key `{kv}` is the shared template `{val.id}` itself, not a copy: every entry writes into the same Pauli [{pyfacts.norm_stmt(init[0])}]")
                elif fresh:
                    rep.ok("B3", 1, nontrivial="fresh-key", sample=f"{pyfacts.norm_stmt(init[0])}")
                # (c) the template: a Pauli of 'I' * <total number of qubits>
                tmpl = val.func.value if isinstance(val, ast.Call) and isinstance(val.func, ast.Attribute) and val.func.attr == "copy" else None
                if isinstance(tmpl, ast.Name):
                    asg = [a for a in ast.walk(f.node) if isinstance(a, ast.Assign) and isinstance(a.targets[0], ast.Name) and a.targets[0].id == tmpl.id]
                    if len(asg) == 1 and isinstance(asg[0].value, ast.Call) and isinstance(asg[0].value.func, ast.Name) and asg[0].value.func.id == "Pauli" and asg[0].value.args:
                        arg = asg[0].value.args[0]
                        srcs = [ast.unparse(x) for x in ast.walk(arg) if isinstance(x, ast.Attribute)]
                        if isinstance(arg, ast.BinOp) and isinstance(arg.op, ast.Mult) and any(isinstance(x, ast.Constant) and x.value == "I" for x in (arg.left, arg.right)) and any("total" in u for u in srcs):
                            rep.ok("B3", 1, nontrivial="template", sample=f"{pyfacts.norm_stmt(asg[0])}")
                        elif isinstance(arg, ast.BinOp) and any("total" in u for u in srcs) or (isinstance(arg, ast.BinOp) and any(isinstance(x, ast.Constant) and x.value == "I" for x in (arg.left, arg.right))):
                            rep.finding("B3", f"{A_FITTER}:template", f"{pyfacts.where(f, asg[0])}: the all-identity template is `{ast.unparse(arg)}`; it must be 'I' repeated total-number-of-qubits times [{pyfacts.norm_stmt(asg[0])}]")


# =============================================================================================
# fitter wiring: W3-W7, S1-S3

def _strip_wrappers(e):
    while isinstance(e, ast.Call) and len(e.args) == 1 and not e.keywords and \
            ((isinstance(e.func, ast.Name) and e.func.id in ("Bitstring", "int")) or (isinstance(e.func, ast.Attribute) and e.func.attr in ("int64", "int32"))):
        e = e.args[0]
    return e


def _assigned(fnode, name):
    return [n for n in ast.walk(fnode) if isinstance(n, ast.Assign) and len(n.targets) == 1 and isinstance(n.targets[0], ast.Name) and n.targets[0].id == name]


def _circuit_parity(f, expr, depth=0):
    """inversion parity of a circuit expression relative to the stored readout circuit R:
    0 = R, 1 = inverse of R, None = unknown"""
    if depth > 6:
        return None
    if isinstance(expr, ast.Call) and isinstance(expr.func, ast.Attribute) and expr.func.attr == "inverse" and not expr.args:
        p = _circuit_parity(f, expr.func.value, depth + 1)
        return None if p is None else p ^ 1
    if isinstance(expr, ast.Call) and isinstance(expr.func, ast.Attribute) and expr.func.attr == "copy":
        return _circuit_parity(f, expr.func.value, depth + 1)
    if isinstance(expr, ast.Attribute) and expr.attr == "circuit":
        # <...>.readout_info.circuit : the stored readout
        return 0
    if isinstance(expr, ast.Name):
        asg = _assigned(f.node, expr.id)
        if len(asg) == 1:
            return _circuit_parity(f, asg[0].value, depth + 1)
    return None


def _evolve_direction(f, call):
    """'pullback' (R^dagger P R) or 'push' (R P R^dagger) of a Pauli.evolve(circuit, frame=...) call"""
    c = call.args[0] if call.args else next((k.value for k in call.keywords if k.arg == "other"), None)
    fr = call.args[2] if len(call.args) > 2 else next((k.value for k in call.keywords if k.arg == "frame"), None)
    frame = "h" if fr is None else (fr.value if isinstance(fr, ast.Constant) else None)
    par = _circuit_parity(f, c) if c is not None else None
    if frame not in ("h", "s") or par is None:
        return None
    # frame 's': C P C^dagger ; frame 'h': C^dagger P C   (C = R if parity 0, R^dagger if parity 1)
    schrodinger_of_R = (frame == "s") == (par == 0)
    return "push" if schrodinger_of_R else "pullback"


def _find_in_tomo(flow, pred):
    """functions of the tomography module (the fitter method first) satisfying pred"""
    m = flow.prog.modules.get(TOMO)
    if m is None:
        raise AnalysisError("module tomography vanished")
    fs = sorted(m.all_funcs, key=lambda g: (g.fq != A_FITTER, g.fq))
    return [g for g in fs if pred(g)]


def W_fitter(rep, flow: Flow, want=("W3", "W4", "W5", "W6", "W7", "S1")):
    zname0 = A_ZMASK.split(".")[-1]
    cands = _find_in_tomo(flow, lambda g: any(isinstance(n, ast.For) and any(isinstance(c, ast.Call) and isinstance(c.func, ast.Name) and c.func.id == zname0 for c in ast.walk(n)) for n in ast.walk(g.node)))
    if len(cands) != 1:
        raise AnalysisError(f"{TOMO}: expected exactly one function with a mask loop calling {zname0}, found {[g.fq for g in cands]}")
    f = cands[0]
    R = rep.rules
    if "W4" in want:
        rep.rule("W4", "the reported Pauli is the Z mask pulled back through the readout (R^dagger Z R) and its sign is read after pushing it forward again (R P R^dagger); effective direction = (frame, inversion parity of the circuit argument)", floor=2)
    if "W5" in want:
        rep.rule("W5", "the same loop value is the mask given to the Z-mask constructor and to the estimator", floor=1)
    if "W6" in want:
        rep.rule("W6", "the mask loop covers 1..2^n-1 for n = 2..6 and an identity entry is stored on every path: 2^n keys", floor=2)
    if "W7" in want:
        rep.rule("W7", "typestate of the dictionary key: between its last evolve assignment and the dictionary store its phase is reset to 0", floor=1)
    if "S1" in want:
        rep.rule("S1", "the multiplier applied to the estimate is +1 for phase 0 and -1 for phase 2 of the pushed-forward Pauli", floor=1)
    # the mask loop: a for-loop over range(...) whose body calls the Z-mask constructor
    zname = A_ZMASK.split(".")[-1]
    ename = A_ESTIMATOR.split(".")[-1]
    loops = [n for n in ast.walk(f.node) if isinstance(n, ast.For) and any(isinstance(c, ast.Call) and isinstance(c.func, ast.Name) and c.func.id == zname for c in ast.walk(n))]
    if len(loops) != 1:
        raise AnalysisError(f"{A_FITTER}: expected exactly one mask loop calling {zname}, found {len(loops)}")
    loop = loops[0]
    if not isinstance(loop.target, ast.Name):
        raise AnalysisError(f"{A_FITTER}: mask loop target is not a plain variable")
    lv = loop.target.id
    body = loop.body
    # ---- collect the statement sequence (top-level of the loop body only; nested shapes -> unknown)
    zcall = ecall = None
    evolves = []       # (stmt index, target var, receiver var, direction, call)
    store = None       # (stmt index, key expr, value expr)
    phase_reset = {}   # var -> [stmt indices]
    for i, st in enumerate(body):
        for c in ast.walk(st):
            if isinstance(c, ast.Call) and isinstance(c.func, ast.Name) and c.func.id == zname:
                zcall = (i, st, c)
            if isinstance(c, ast.Call) and isinstance(c.func, ast.Name) and c.func.id == ename:
                ecall = (i, st, c)
            if isinstance(c, ast.Call) and isinstance(c.func, ast.Attribute) and c.func.attr == "evolve":
                tgt = st.targets[0].id if isinstance(st, ast.Assign) and isinstance(st.targets[0], ast.Name) else None
                recv = c.func.value.id if isinstance(c.func.value, ast.Name) else None
                evolves.append((i, tgt, recv, _evolve_direction(f, c), c))
        if isinstance(st, ast.Assign) and isinstance(st.targets[0], ast.Subscript) and isinstance(st.targets[0].value, ast.Name):
            store = (i, st.targets[0].slice, st.value, st)
        if isinstance(st, ast.Assign) and isinstance(st.targets[0], ast.Attribute) and st.targets[0].attr == "phase" and isinstance(st.targets[0].value, ast.Name) \
                and isinstance(st.value, ast.Constant) and st.value.value == 0:
            phase_reset.setdefault(st.targets[0].value.id, []).append(i)
    if zcall is None or ecall is None or store is None or len(evolves) not in (1, 2):
        raise AnalysisError(f"{f.fq}: mask loop shape outside the vocabulary (zmask call {bool(zcall)}, estimator call {bool(ecall)}, dictionary store {bool(store)}, {len(evolves)} evolve calls)")
    zvar = zcall[1].targets[0].id if isinstance(zcall[1], ast.Assign) and isinstance(zcall[1].targets[0], ast.Name) else None
    one_evolve = len(evolves) == 1
    if one_evolve:
        # shape B: the sign is the phase of the pulled-back Pauli itself (R^dagger Z R = +/- P), read before the reset
        (i1, t1, r1, d1, c1) = evolves[0]
        (i2, t2, r2, d2, c2) = (i1, t1, t1, "push", c1)
    else:
        (i1, t1, r1, d1, c1), (i2, t2, r2, d2, c2) = evolves
    if "W4" in R:
        if d1 is None or d2 is None:
            raise AnalysisError(f"{A_FITTER}: evolve direction not resolvable (frame / circuit argument outside the vocabulary)")
        if r1 != zvar:
            rep.finding("W4", f"{A_FITTER}:evolve1:receiver", f"{pyfacts.where(f, c1)}: the first evolve is not applied to the Z mask [{pyfacts.norm_stmt(c1)}]")
        elif d1 != "pullback":
            rep.finding("W4", f"{A_FITTER}:evolve1:direction", f"{pyfacts.where(f, c1)}: the Z mask is conjugated as R Z R^dagger; the operator measured by 'readout then Z' is R^dagger Z R [{pyfacts.norm_stmt(c1)}]")
        else:
            rep.ok("W4", 1, nontrivial="evolve1", sample=f"{pyfacts.norm_stmt(c1)} = R^dagger Z R")
        if one_evolve:
            # the phase must be read between the evolve and its reset
            reads = [i for i, st in enumerate(body) if i1 < i <= store[0] and any(isinstance(x, ast.Attribute) and x.attr == "phase" and isinstance(x.ctx, ast.Load) and isinstance(x.value, ast.Name) and x.value.id == t1 for x in ast.walk(st))]
            resets = phase_reset.get(t1, [])
            if reads and (not resets or min(reads) < min(resets) or (min(reads) == store[0] and not resets)):
                rep.ok("W4", 1, nontrivial="evolve-sign", sample=f"sign = phase of {pyfacts.norm_stmt(c1)} read before the reset")
            else:
                rep.finding("W4", f"{A_FITTER}:sign-source", f"{pyfacts.where(f, c1)}: with a single evolve the sign must be the phase of the pulled-back Pauli read BEFORE it is reset; it is read {'after the reset' if reads else 'nowhere'}")
        elif r2 == t1 and not any(i1 < x < i2 for x in phase_reset.get(t1, [])):
            rep.finding("W4", f"{A_FITTER}:evolve2:signed-input", f"{pyfacts.where(f, c2)}: the pulled-back Pauli `{t1}` is pushed forward again WITH its sign (its phase is not reset between the two evolve calls): R (±P) R^dagger = +Z always, so the sign read from the result is always + [{pyfacts.norm_stmt(c2)}]")
        elif r2 != t1:
            rep.finding("W4", f"{A_FITTER}:evolve2:receiver", f"{pyfacts.where(f, c2)}: the sign is not computed from the reported Pauli [{pyfacts.norm_stmt(c2)}]")
        elif d2 != "push":
            rep.finding("W4", f"{A_FITTER}:evolve2:direction", f"{pyfacts.where(f, c2)}: the sign is read after conjugating the reported Pauli in the same direction again instead of pushing it forward through the readout [{pyfacts.norm_stmt(c2)}]")
        else:
            rep.ok("W4", 1, nontrivial="evolve2", sample=f"{pyfacts.norm_stmt(c2)} = R P R^dagger")
    if "W5" in R:
        za = _strip_wrappers(zcall[2].args[1]) if len(zcall[2].args) > 1 else None
        ea = _strip_wrappers(ecall[2].args[1]) if len(ecall[2].args) > 1 else None
        okz = isinstance(za, ast.Name) and za.id == lv
        oke = isinstance(ea, ast.Name) and ea.id == lv
        # the other arguments: the Z mask is built for the measured width (a .num_qubits), the estimator reads the parsed counts
        zw = zcall[2].args[0] if zcall[2].args else None
        zsrc = [a.value for a in _assigned(f.node, zw.id)] if isinstance(zw, ast.Name) else ([zw] if zw is not None else [])
        okw = any(isinstance(x, ast.Attribute) and x.attr == "num_qubits" for sv in zsrc for x in ast.walk(sv)) or any(isinstance(sv, ast.Call) and isinstance(sv.func, ast.Name) and sv.func.id == "len" for sv in zsrc)
        ew = ecall[2].args[0] if ecall[2].args else None
        esrc = [a.value for a in _assigned(f.node, ew.id)] if isinstance(ew, ast.Name) else ([ew] if ew is not None else [])
        parser_cls = A_COUNTS_PARSER.split(".")[1]
        okc = any(isinstance(sv, ast.Call) and isinstance(sv.func, ast.Name) and sv.func.id == parser_cls for sv in esrc)
        # only an EVIDENTLY different role is a finding: a value arriving as a parameter or out of a helper call is judged
        # where it is produced
        def role(srcs, depth=0):
            rs = set()
            for sv in srcs:
                if isinstance(sv, ast.Name) and depth < 3:
                    inner = [a.value for a in _assigned(f.node, sv.id) if not any(isinstance(x, ast.Name) and x.id == sv.id for x in ast.walk(a.value))]
                    rs |= role(inner, depth + 1) if inner else {"unknown"}
                    continue
                txt = ast.unparse(sv)
                if "get_counts" in txt:
                    rs.add("counts")
                elif isinstance(sv, ast.Call) and isinstance(sv.func, ast.Name) and sv.func.id == parser_cls:
                    rs.add("parsed")
                elif isinstance(sv, ast.Attribute) and sv.attr == "num_qubits" or (isinstance(sv, ast.Call) and isinstance(sv.func, ast.Name) and sv.func.id == "len"):
                    rs.add("width")
                elif isinstance(sv, ast.Attribute) and sv.attr in ("qubits", "measured_qubits"):
                    rs.add("qubits")
                elif isinstance(sv, ast.Attribute) and sv.attr == "circuit" or (isinstance(sv, ast.Call) and isinstance(sv.func, ast.Attribute) and sv.func.attr in ("inverse", "evolve", "copy")):
                    rs.add("circuit-or-pauli")
                elif isinstance(sv, (ast.Dict, ast.List, ast.Constant)) or (isinstance(sv, ast.Call) and isinstance(sv.func, ast.Name) and sv.func.id in ("Pauli", "dict", "list")):
                    rs.add("literal")
                elif isinstance(sv, ast.Subscript):
                    rs |= role([sv.value], depth + 1)
                else:
                    rs.add("unknown")
            return rs
        zr, er = role(zsrc), role(esrc)
        okw = not zsrc or (isinstance(zw, ast.Name) and zw.id in f.params) or bool(zr & {"width", "unknown"})
        okc = not esrc or (isinstance(ew, ast.Name) and ew.id in f.params) or bool(er & {"parsed", "unknown"})
        if okz and oke and not okw:
            rep.finding("W5", f"{A_FITTER}:width", f"{pyfacts.where(f, zcall[2])}: the Z-mask constructor is given `{ast.unparse(zw) if zw is not None else '?'}` as number of qubits; it must be the width of the readout circuit [{pyfacts.norm_stmt(zcall[2])}]")
        elif okz and oke and not okc:
            rep.finding("W5", f"{A_FITTER}:estimator-input", f"{pyfacts.where(f, ecall[2])}: the estimator is given `{ast.unparse(ew) if ew is not None else '?'}`, which is not the parsed counts ({parser_cls}(...)) [{pyfacts.norm_stmt(ecall[2])}]")
        elif okz and oke:
            rep.ok("W5", 1, nontrivial="mask", sample=f"{zname}(.., {lv}) and {ename}(.., {lv})")
        else:
            rep.finding("W5", f"{A_FITTER}:mask", f"{pyfacts.where(f, ecall[2])}: the Z-mask constructor gets `{ast.unparse(zcall[2].args[1]) if len(zcall[2].args)>1 else '?'}` but the estimator gets `{ast.unparse(ecall[2].args[1]) if len(ecall[2].args)>1 else '?'}`; both must be the loop value `{lv}`")
    if "W7" in R:
        key = store[1]
        if not isinstance(key, ast.Name):
            raise AnalysisError(f"{A_FITTER}: dictionary key is not a plain variable")
        kv = key.id
        last_asg = max([i for i, st in enumerate(body) if isinstance(st, ast.Assign) and isinstance(st.targets[0], ast.Name) and st.targets[0].id == kv and i < store[0]], default=None)
        if last_asg is None:
            raise AnalysisError(f"{A_FITTER}: key variable {kv} is not assigned in the loop")
        resets = [i for i in phase_reset.get(kv, []) if last_asg < i < store[0]]
        asg = body[last_asg]
        rebuilt = isinstance(asg.value, ast.Call) and isinstance(asg.value.func, ast.Name) and asg.value.func.id == "Pauli"
        from_evolve = any(isinstance(c, ast.Call) and isinstance(c.func, ast.Attribute) and c.func.attr == "evolve" for c in ast.walk(asg.value))
        if resets or (rebuilt and not from_evolve):
            rep.ok("W7", 1, nontrivial="key", sample=f"`{kv}.phase = 0` between `{pyfacts.norm_stmt(asg)[:50]}` and the store")
        else:
            rep.finding("W7", f"{A_FITTER}:signed-key", f"{pyfacts.where(f, store[3])}: the dictionary key `{kv}` comes out of evolve() and is stored without resetting its phase: keys are signed Paulis [{pyfacts.norm_stmt(store[3])}]")
    if "S1" in R:
        signvar = t2
        ce = consteval.CE(flow.prog)
        evar = ecall[1].targets[0].id if isinstance(ecall[1], ast.Assign) and isinstance(ecall[1].targets[0], ast.Name) else None
        table = {}
        # local definitions the stored value goes through (e.g. `sign = -1 if p.phase == 2 else 1`), in statement order
        chain = [st for i, st in enumerate(body) if i2 < i < store[0] and st is not ecall[1] and
                 ((isinstance(st, ast.Assign) and isinstance(st.targets[0], ast.Name) and any(isinstance(x, ast.Attribute) and x.attr == "phase" for x in ast.walk(st.value)))
                  or (isinstance(st, ast.Assert) and any(isinstance(x, ast.Attribute) and x.attr == "phase" for x in ast.walk(st.test))))]
        probe = 0.25           # an estimate that is not an integer: `*` and `//` differ on it
        for ph in (0, 2):
            inst = consteval.Instance(flow.prog.cls("tomography.ReadoutInfo"))
            inst.attrs["phase"] = ph
            env = {signvar: inst}
            if evar:
                env[evar] = probe
            try:
                for st in chain:
                    if isinstance(st, ast.Assert):
                        if not ce.truth(ce.ev(st.test, env, f)):
                            raise consteval.CERaise("AssertionError", f"`{ast.unparse(st.test)}` is false for the legitimate phase {ph}")
                        continue
                    env[st.targets[0].id] = ce.ev(st.value, env, f)
                v = ce.ev(store[2], env, f)
                table[ph] = (v / probe) if isinstance(v, (int, float)) and evar else v
            except consteval.CERaise as ex:
                table[ph] = f"raise {ex.etype}: {ex.msg[:60]}"
        if table == {0: 1, 2: -1}:
            rep.ok("S1", 1, nontrivial="sign", sample=f"multiplier table over the asserted phase domain: {table}")
        else:
            rep.finding("S1", f"{A_FITTER}:sign-table", f"{pyfacts.where(f, store[3])}: multiplier as a function of the pushed-forward phase is {table}, required {{0: +1, 2: -1}} [{pyfacts.norm_stmt(store[3])}]")
    if "W6" in R:
        it = loop.iter
        if not (isinstance(it, ast.Call) and isinstance(it.func, ast.Name) and it.func.id == "range"):
            raise AnalysisError(f"{A_FITTER}: mask loop is not over a range")
        ce = consteval.CE(flow.prog)
        nq = None
        for name in {n.id for n in ast.walk(it) if isinstance(n, ast.Name)} - {"range"}:
            nq = name
        bad = None
        for n in range(2, 7):
            dom = set(ce.ev(it, {nq: n} if nq else {}, f))
            if not set(range(1, 2 ** n)) <= dom or not dom <= set(range(0, 2 ** n)):
                bad = (n, sorted(set(range(1, 2 ** n)) - dom)[:4], sorted(dom - set(range(0, 2 ** n)))[:4])
                break
        if bad:
            rep.finding("W6", f"{A_FITTER}:domain", f"{pyfacts.where(f, loop)}: for n = {bad[0]} the mask loop `{ast.unparse(it)}` misses {bad[1]} / exceeds with {bad[2]}; it must cover 1..2^n-1")
        else:
            rep.ok("W6", 1, nontrivial="domain", sample=f"`{ast.unparse(it)}` covers 1..2^n-1 for n=2..6")
        # identity entry stored at the top level of the function, before the first return
        dict_name = store[3].targets[0].value.id
        ident = None
        for st in f.node.body:
            if isinstance(st, ast.Return) or (isinstance(st, ast.If) and any(isinstance(x, ast.Return) for x in ast.walk(st))):
                break
            if isinstance(st, ast.Assign) and isinstance(st.targets[0], ast.Subscript) and isinstance(st.targets[0].value, ast.Name) and st.targets[0].value.id == dict_name:
                k = st.targets[0].slice
                if isinstance(k, ast.Call) and isinstance(k.func, ast.Name) and k.func.id == "Pauli" and k.args:
                    try:
                        lab = ce.ev(k.args[0], {nq: 3} if nq else {}, f)
                    except Exception:
                        lab = None
                    if lab == "III" and isinstance(st.value, ast.Constant) and st.value.value in (1, 1.0):
                        ident = st
        zero_in = all(0 in set(ce.ev(it, {nq: n} if nq else {}, f)) for n in range(2, 7))
        if ident is not None or zero_in:
            rep.ok("W6", 1, nontrivial="identity", sample=f"identity entry: {pyfacts.norm_stmt(ident) if ident is not None else 'mask 0 is in the loop domain'}")
        else:
            rep.finding("W6", f"{A_FITTER}:identity", f"{f.module.rel} {f.qualname}: no identity entry (Pauli('I'*n) -> 1.0) is stored before the first return and mask 0 is not in the loop domain: 2^n-1 entries instead of 2^n")


def W14_returns(rep, flow: Flow):
    """the fitter family hands its result out on every path: no `return None` / bare return in a function whose
    annotation promises a dictionary or a matrix"""
    rep.rule("W14", "every fitter function that is annotated to return a dictionary / matrix returns a value on each of its return statements (no bare `return`, no `return None`)", floor=4)
    m = flow.prog.modules.get(TOMO)
    if m is None:
        raise AnalysisError("module tomography vanished")
    for f in m.all_funcs:
        ann = ast.unparse(f.node.returns) if f.node.returns is not None else ""
        if not any(k in ann for k in ("Dict", "dict", "ndarray", "List", "QuantumCircuit", "Pauli")) or "Optional" in ann or "None" in ann:
            continue
        own = []
        todo = list(f.node.body)
        while todo:
            n = todo.pop()
            if isinstance(n, (ast.FunctionDef, ast.AsyncFunctionDef, ast.Lambda, ast.ClassDef)):
                continue
            if isinstance(n, ast.Return):
                own.append(n)
            todo.extend(ast.iter_child_nodes(n))
        bad = [r for r in own if r.value is None or (isinstance(r.value, ast.Constant) and r.value.value is None)]
        if bad:
            rep.finding("W14", f"{f.fq}:return-none", f"{pyfacts.where(f, bad[0])}: {f.qualname} is annotated `-> {ann}` but returns None here: the computed result is lost [{pyfacts.norm_stmt(bad[0])}]")
        elif own:
            rep.ok("W14", 1, nontrivial=f.fq, sample=f"{f.qualname} -> {ann}: {len(own)} return statement(s), all with a value")


def W3_indexing(rep, flow: Flow):
    rep.rule("W3", "the k-th tomography circuit is fitted with result_index = its own position, and the fitter indexes the list of counts with that stored index", floor=2)
    f = flow.prog.func(A_FULL_FITTER)
    cls_name = A_FITTER.split(".")[1]
    done = False
    for loop in [n for n in ast.walk(f.node) if isinstance(n, ast.For)]:
        it = loop.iter
        calls = [c for c in ast.walk(loop) if isinstance(c, ast.Call) and isinstance(c.func, ast.Name) and c.func.id == cls_name]
        if not calls:
            continue
        done = True
        if not (isinstance(it, ast.Call) and isinstance(it.func, ast.Name) and it.func.id == "enumerate" and isinstance(loop.target, ast.Tuple)):
            raise AnalysisError(f"{A_FULL_FITTER}: the loop constructing per-circuit fitters is not an enumerate loop")
        iv, cv = loop.target.elts[0].id, loop.target.elts[1].id
        init = flow.prog.func(A_FITTER_INIT)
        for c in calls:
            b = {}
            ps = init.params[1:]
            for i, a in enumerate(c.args):
                if i < len(ps):
                    b[ps[i]] = a
            for k in c.keywords:
                b[k.arg] = k.value
            ri = b.get("result_index")
            ci = b.get("circuit")
            if isinstance(ri, ast.Name) and ri.id == iv and isinstance(ci, ast.Name) and ci.id == cv:
                rep.ok("W3", 1, nontrivial="ctor", sample=f"{pyfacts.norm_stmt(c)}")
            else:
                rep.finding("W3", f"{A_FULL_FITTER}:result_index", f"{pyfacts.where(f, c)}: per-circuit fitter built with circuit=`{ast.unparse(ci) if ci is not None else 'absent'}`, result_index=`{ast.unparse(ri) if ri is not None else 'absent (default 0)'}`; both must be the enumerate pair (`{cv}`, `{iv}`) [{pyfacts.norm_stmt(c)}]")
    if not done:
        raise AnalysisError(f"{A_FULL_FITTER}: no loop constructing {cls_name} found")
    # every per-circuit result is merged into the dictionary that is returned
    rets = [n for n in ast.walk(f.node) if isinstance(n, ast.Return) and isinstance(n.value, ast.Name)]
    if rets:
        rv = rets[-1].value.id
        merged = False
        for loop in [n for n in ast.walk(f.node) if isinstance(n, ast.For)]:
            if not any(isinstance(c, ast.Call) and isinstance(c.func, ast.Name) and c.func.id == cls_name for c in ast.walk(loop)):
                continue
            for n in ast.walk(loop):
                if isinstance(n, ast.Call) and isinstance(n.func, ast.Attribute) and n.func.attr == "update" and isinstance(n.func.value, ast.Name) and n.func.value.id == rv:
                    merged = True
                if isinstance(n, ast.Assign) and isinstance(n.targets[0], ast.Subscript) and isinstance(n.targets[0].value, ast.Name) and n.targets[0].value.id == rv:
                    merged = True
                if isinstance(n, (ast.Assign, ast.AugAssign)) and isinstance(getattr(n, "target", n.targets[0] if isinstance(n, ast.Assign) else None), ast.Name) \
                        and getattr(n, "target", n.targets[0] if isinstance(n, ast.Assign) else None).id == rv and isinstance(n, ast.AugAssign):
                    merged = True
        if not merged:
            # the returned dictionary handed to the per-circuit fitter as an accumulator: merged by the callee, if the callee
            # (a method of the tomography module with a parameter of that name) stores into it or hands it on
            for loop in [n for n in ast.walk(f.node) if isinstance(n, ast.For)]:
                for c in [x for x in ast.walk(loop) if isinstance(x, ast.Call)]:
                    for k in c.keywords:
                        if k.arg is not None and isinstance(k.value, ast.Name) and k.value.id == rv and isinstance(c.func, ast.Attribute):
                            cands = [g for g in flow.prog.modules[TOMO].all_funcs if g.name == c.func.attr and k.arg in g.params]
                            for g in cands:
                                writes = any((isinstance(n, ast.Assign) and any(isinstance(t, ast.Subscript) and isinstance(t.value, ast.Name) and t.value.id == k.arg for t in n.targets)) or
                                             (isinstance(n, ast.Call) and isinstance(n.func, ast.Attribute) and isinstance(n.func.value, ast.Name) and n.func.value.id == k.arg and n.func.attr in ("update", "setdefault")) or
                                             (isinstance(n, ast.Call) and any(kk.arg is not None and isinstance(kk.value, ast.Name) and kk.value.id == k.arg for kk in n.keywords))
                                             for n in ast.walk(g.node))
                                if writes:
                                    merged = True
                            if cands and not merged:
                                raise AnalysisError(f"{pyfacts.where(f, c)}: the returned dictionary `{rv}` is handed to `{c.func.attr}` as `{k.arg}=`: whether the callee fills it is not decidable here")
        if merged:
            rep.ok("W3", 1, nontrivial="merge", sample=f"per-circuit expectation values are merged into `{rv}`")
        else:
            rep.finding("W3", f"{A_FULL_FITTER}:merge", f"{f.module.rel} {f.qualname}: the per-circuit fitter's expectation values are never merged into the returned dictionary `{rv}`")
    # the stored index is what indexes the counts list
    init = flow.prog.func(A_FITTER_INIT)
    stored = [n for n in ast.walk(init.node) if isinstance(n, ast.Assign) and isinstance(n.targets[0], ast.Attribute) and isinstance(n.value, ast.Name) and n.value.id == "result_index"]
    fit = flow.prog.func(A_FITTER)
    attr = stored[0].targets[0].attr if stored else None
    # anywhere in the fitter class (the selection may live in a helper method)
    nodes = [fit.node] + ([mm.node for mm in fit.cls.methods.values()] if fit.cls is not None else [])
    used = [n for nd in nodes for n in ast.walk(nd) if isinstance(n, ast.Subscript) and isinstance(n.slice, ast.Attribute) and n.slice.attr == attr]
    gc = [n for nd in nodes for n in ast.walk(nd) if isinstance(n, ast.Call) and isinstance(n.func, ast.Attribute) and n.func.attr == "get_counts"]
    def is_index(e):
        return isinstance(e, ast.Attribute) and e.attr == attr
    # the selection may live in a module-level helper that receives the stored index as an argument
    if attr and not used:
        for nd in nodes:
            for c in [x for x in ast.walk(nd) if isinstance(x, ast.Call) and isinstance(x.func, ast.Name)]:
                pos = [i for i, a in enumerate(c.args) if is_index(a)]
                kws = [k.arg for k in c.keywords if k.arg is not None and is_index(k.value)]
                if not pos and not kws:
                    continue
                helper = next((g for g in flow.prog.modules[TOMO].all_funcs if g.name == c.func.id and g.cls is None), None)
                if helper is None:
                    raise AnalysisError(f"{pyfacts.where(fit, c)}: the stored result index is handed to `{c.func.id}`, which is not a function of the tomography module: how the counts are selected is not decidable here")
                pnames = [helper.params[i] for i in pos if i < len(helper.params)] + kws
                if any(isinstance(n, ast.Subscript) and isinstance(n.slice, ast.Name) and n.slice.id in pnames for n in ast.walk(helper.node)):
                    used = [c]
                else:
                    raise AnalysisError(f"{pyfacts.where(fit, c)}: the stored result index is handed to `{c.func.id}`, which does not index with it directly: how the counts are selected is not decidable here")
    by_index = [n for n in gc if any(is_index(a) for a in n.args) or any(is_index(k.value) for k in n.keywords)]
    by_other = [n for n in gc if (n.args or n.keywords) and n not in by_index]
    if attr and by_other and not used and not by_index:
        # get_counts(<circuit>) selects the experiment by the circuit's NAME: right only if the builder names its circuits apart
        full = flow.prog.func("tomography.full_state_tomography_circuits")
        names_set = any(isinstance(n, ast.Attribute) and n.attr == "name" and isinstance(n.ctx, ast.Store) for n in ast.walk(full.node))
        n0 = by_other[0]
        if names_set:
            raise AnalysisError(f"{pyfacts.where(fit, n0)}: the counts are selected by `{ast.unparse(n0)}` (experiment looked up by circuit name) and the builder assigns names: whether they are unique is not decidable here")
        rep.finding("W3", f"{A_FITTER}:index-use", f"{pyfacts.where(fit, n0)}: the counts are selected by `{ast.unparse(n0)}`; the result object looks an experiment up by the circuit's NAME, and the tomography builder gives every circuit the name of the preparation circuit (compose keeps it, no name is assigned): every basis is evaluated with the first experiment's counts; the stored index `{attr}` is not used")
    elif attr and (used or by_index):
        rep.ok("W3", 1, nontrivial="use", sample=f"counts[self.{attr}]")
    else:
        rep.finding("W3", f"{A_FITTER}:index-use", f"{fit.module.rel} {fit.qualname}: the stored result index is not used to select the counts of this circuit")


def _is_odd_test(test, mask, outcome_attr):
    """True if `test` is truthy exactly when popcount(mask & outcome) is odd; False if exactly when even; None unknown"""
    def popcount_of_and(e):
        # (A & B).bit_count()  |  bin(A & B).count('1')
        inner = None
        if isinstance(e, ast.Call) and isinstance(e.func, ast.Attribute) and e.func.attr == "bit_count":
            inner = e.func.value
        elif isinstance(e, ast.Call) and isinstance(e.func, ast.Attribute) and e.func.attr == "count" and isinstance(e.func.value, ast.Call) and \
                isinstance(e.func.value.func, ast.Name) and e.func.value.func.id == "bin" and e.args and isinstance(e.args[0], ast.Constant) and e.args[0].value == "1":
            inner = e.func.value.args[0]
        if inner is None:
            return None
        if isinstance(inner, ast.BinOp):
            ops = {ast.unparse(inner.left), ast.unparse(inner.right)}
            names_ok = any(o == mask for o in ops) and any(o.endswith("." + outcome_attr) for o in ops)
            if not names_ok:
                return "operands"
            return "and" if isinstance(inner.op, ast.BitAnd) else "op:" + type(inner.op).__name__
        return None
    def parity_expr(e):
        # X & 1, X % 2
        if isinstance(e, ast.BinOp) and isinstance(e.right, ast.Constant):
            if (isinstance(e.op, ast.BitAnd) and e.right.value == 1) or (isinstance(e.op, ast.Mod) and e.right.value == 2):
                return popcount_of_and(e.left)
        return None
    p = parity_expr(test)
    if p is not None:
        return (True, p)
    # the popcount itself as a truth value, or compared with a constant: that is "some overlap" / "exactly k ones", not the parity
    bare = popcount_of_and(test)
    if bare is not None:
        return (True, "notparity:truth value of the popcount (true for every non-empty overlap, not only odd ones)")
    if isinstance(test, ast.Compare) and len(test.ops) == 1 and isinstance(test.comparators[0], ast.Constant) and popcount_of_and(test.left) is not None:
        return (True, f"notparity:popcount compared with {test.comparators[0].value} (wrong for overlaps of 3, 5, ... ones)")
    if isinstance(test, ast.Compare) and len(test.ops) == 1 and isinstance(test.comparators[0], ast.Constant):
        p = parity_expr(test.left)
        v = test.comparators[0].value
        if p is not None and isinstance(test.ops[0], (ast.Eq, ast.NotEq)) and v in (0, 1):
            odd = (v == 1) == isinstance(test.ops[0], ast.Eq)
            return (odd, p)
    if isinstance(test, ast.UnaryOp) and isinstance(test.op, ast.Not):
        r = _is_odd_test(test.operand, mask, outcome_attr)
        if r is not None:
            return (not r[0], r[1])
    return None


def _S2_evaluate(rep, flow, why):
    """an estimator whose parity test is written in a form the recognised idioms do not cover: evaluated on its whole domain
    of (mask, outcome) pairs for registers of up to 6 bits with single-outcome results (the value must be +1 for even and
    -1 for odd overlap), and on mixed results with unequal counts (the value must be the count-weighted mean)"""
    f = flow.prog.func(A_ESTIMATOR)
    m = f.module
    rc, bc = m.classes.get("CircuitResult"), m.classes.get("BinaryResult")
    if rc is None or bc is None:
        return False
    ce = consteval.CE(flow.prog, max_steps=200_000_000)

    def result_of(pairs):
        cr = consteval.Instance(rc)
        rs = []
        for o, c in pairs:
            b = consteval.Instance(bc)
            b.attrs.update({"bitstring": o, "count": c})
            rs.append(b)
        cr.attrs.update({"results": rs, "num_qubits": 6})
        return cr

    def sign(mask, o):
        return -1 if bin(mask & o).count("1") & 1 else 1
    n_ok = 0
    try:
        for mask in range(64):
            for o in range(64):
                got = ce.call_func(f, [result_of([(o, 1)]), mask], {})
                if not isinstance(got, (int, float)) or abs(got - sign(mask, o)) > 1e-12:
                    rep.finding("S2", f"{A_ESTIMATOR}:evaluated", f"{f.module.rel} {f.qualname}: for the mask {mask:06b} and the single outcome {o:06b} (overlap {bin(mask & o).count('1')} bit(s)) the estimate is {got!r}, required {sign(mask, o)} (+1 for an even, -1 for an odd number of outcome bits under the mask)")
                    return True
                n_ok += 1
        for mask, o1, o2 in ((0b000011, 0b000001, 0b000011), (0b110000, 0b010000, 0b100001), (0b101010, 0b111111, 0b000000), (0b011110, 0b000010, 0b010000)):
            got = ce.call_func(f, [result_of([(o1, 3), (o2, 5)]), mask], {})
            want = (3 * sign(mask, o1) + 5 * sign(mask, o2)) / 8
            if not isinstance(got, (int, float)) or abs(got - want) > 1e-12:
                rep.finding("S2", f"{A_ESTIMATOR}:evaluated-mixed", f"{f.module.rel} {f.qualname}: for the mask {mask:06b} and counts {{{o1:06b}: 3, {o2:06b}: 5}} the estimate is {got!r}, required the count-weighted mean {want}")
                return True
            n_ok += 1
    except consteval.CERaise as ex:
        rep.finding("S2", f"{A_ESTIMATOR}:raise", f"{ex.where or f.module.rel}: the estimator raises {ex.etype} ({ex.msg[:60]}) on a probe result")
        return True
    except AnalysisError:
        return False
    rep.ok("S2", 3, nontrivial="evaluated", sample=f"estimator outside the recognised idioms ({why[:80]}); evaluated on all {64 * 64} (mask, outcome) pairs of 6-bit registers and on mixed results: +1 / -1 by parity, count-weighted mean")
    return True


def S2_estimator(rep, flow: Flow):
    try:
        _S2_structural(rep, flow)
    except AnalysisError as ex:
        if not _S2_evaluate(rep, flow, str(ex)):
            raise


def _S2_structural(rep, flow: Flow):
    rep.rule("S2", "estimator: every loop path adds the count to the total exactly once and adds it to (even parity of popcount(mask & outcome)) or subtracts it from (odd) the estimate exactly once; the result is estimate / total", floor=3)
    from .paths import enumerate_paths
    f = flow.prog.func(A_ESTIMATOR)
    mask = f.params[1]
    loops = [n for n in f.node.body if isinstance(n, ast.For)]
    if len(loops) != 1:
        raise AnalysisError(f"{A_ESTIMATOR}: expected one loop over the results")
    loop = loops[0]
    rets = [n for n in f.node.body if isinstance(n, ast.Return)]
    if len(rets) == 1 and isinstance(rets[0].value, ast.BinOp) and isinstance(rets[0].value.op, (ast.FloorDiv, ast.Mod, ast.Mult)):
        rep.finding("S2", f"{A_ESTIMATOR}:quotient", f"{pyfacts.where(f, rets[0])}: the estimate is `{ast.unparse(rets[0].value)}`; it must be the true quotient estimate / total (floor division rounds every expectation value to -1, 0 or 1) [{pyfacts.norm_stmt(rets[0])}]")
        return
    if len(rets) != 1 or not (isinstance(rets[0].value, ast.BinOp) and isinstance(rets[0].value.op, ast.Div)):
        raise AnalysisError(f"{A_ESTIMATOR}: return is not a quotient")
    est, tot = ast.unparse(rets[0].value.left), ast.unparse(rets[0].value.right)
    lvar = loop.target.id if isinstance(loop.target, ast.Name) else None
    for p in enumerate_paths(loop.body):
        e_ops, t_ops = [], []
        for st in p.stmts:
            if isinstance(st, ast.AugAssign) and isinstance(st.target, ast.Name):
                val = ast.unparse(st.value)
                if st.target.id == est:
                    e_ops.append((type(st.op).__name__, val))
                elif st.target.id == tot:
                    t_ops.append((type(st.op).__name__, val))
        parity = None
        for (test, truth) in p.conds:
            r = _is_odd_test(test, mask, "bitstring")
            if r is None:
                raise AnalysisError(f"{pyfacts.where(f, test)}: parity test outside the recognised idioms [{ast.unparse(test)}]")
            odd_when_true, how = r
            if how.startswith("notparity:"):
                rep.finding("S2", f"{A_ESTIMATOR}:parity-form", f"{pyfacts.where(f, test)}: `{ast.unparse(test)}` is not the parity of popcount(mask & outcome): {how[10:]}")
                parity = "bad"
            elif how != "and":
                rep.finding("S2", f"{A_ESTIMATOR}:parity-operands:{truth}", f"{pyfacts.where(f, test)}: the parity is taken of `{ast.unparse(test)}` - it must be popcount(mask & outcome) ({how})")
                parity = "bad"
            else:
                parity = "odd" if odd_when_true == truth else "even"
        count_expr = f"{lvar}.count"
        ok_t = t_ops == [("Add", count_expr)]
        want = {"odd": [("Sub", count_expr)], "even": [("Add", count_expr)]}.get(parity)
        if parity == "bad":
            continue
        if parity is None:
            raise AnalysisError(f"{A_ESTIMATOR}: a loop path has no parity test")
        if not ok_t:
            rep.finding("S2", f"{A_ESTIMATOR}:total:{parity}", f"{f.module.rel} {f.qualname}: on the {parity}-parity path the total is updated by {t_ops}, required exactly one `+= {count_expr}`")
        elif e_ops != want:
            rep.finding("S2", f"{A_ESTIMATOR}:estimate:{parity}", f"{f.module.rel} {f.qualname}: on the {parity}-parity path the estimate is updated by {e_ops}, required {want}")
        else:
            rep.ok("S2", 1, nontrivial=parity, sample=f"{parity} parity: estimate {e_ops[0][0]} count, total += count")
    rep.ok("S2", 1, nontrivial="quotient", sample=f"return {est} / {tot}")


def S3_normalisation(rep, flow: Flow):
    rep.rule("S3", "linear inversion: the matrix accumulates +<P>*P for every entry and is scaled by 2^-n (n = key length), evaluated for n = 2..6", floor=2)
    f = flow.prog.func(A_DENSITY)
    ce = consteval.CE(flow.prog)
    acc = None
    for n in ast.walk(f.node):
        if isinstance(n, ast.AugAssign) and isinstance(n.target, ast.Name) and any(isinstance(c, ast.Call) and isinstance(c.func, ast.Attribute) and c.func.attr == "to_matrix" for c in ast.walk(n.value)):
            acc = n
    if acc is None:
        raise AnalysisError(f"{A_DENSITY}: no accumulation of P.to_matrix() found")
    if isinstance(acc.op, ast.Add) and isinstance(acc.value, ast.BinOp) and isinstance(acc.value.op, ast.Mult):
        rep.ok("S3", 1, nontrivial="accumulate", sample=pyfacts.norm_stmt(acc))
    else:
        rep.finding("S3", f"{A_DENSITY}:accumulate", f"{pyfacts.where(f, acc)}: the matrix is not accumulated as += P * <P> [{pyfacts.norm_stmt(acc)}]")
    mat = acc.target.id
    # the sum starts from nothing: the accumulator's initial value is an all-zero array (or the number 0)
    inits = [st for st in f.node.body if isinstance(st, (ast.Assign, ast.AnnAssign)) and isinstance(getattr(st, "target", None) or st.targets[0], ast.Name)
             and (getattr(st, "target", None) or st.targets[0]).id == mat]
    if len(inits) == 1 and inits[0].value is not None:
        iv = inits[0].value
        zero = (isinstance(iv, ast.Call) and ast.unparse(iv.func).split(".")[-1] in ("zeros", "zeros_like")) or (isinstance(iv, ast.Constant) and iv.value in (0, 0.0, 0j))
        nonzero = isinstance(iv, ast.Call) and ast.unparse(iv.func).split(".")[-1] in ("ones", "ones_like", "eye", "identity", "full", "empty", "empty_like")
        if zero:
            rep.ok("S3", 1, nontrivial="init", sample=pyfacts.norm_stmt(inits[0])[:80])
        elif nonzero:
            rep.finding("S3", f"{A_DENSITY}:init", f"{pyfacts.where(f, inits[0])}: the accumulated matrix does not start at zero [{pyfacts.norm_stmt(inits[0])[:100]}]: the result is the sum of <P>*P plus whatever the initial array holds")
        else:
            raise AnalysisError(f"{pyfacts.where(f, inits[0])}: initial value of the accumulated matrix is outside S3's vocabulary [{pyfacts.norm_stmt(inits[0])[:80]}]")
    nqs = [n for n in ast.walk(f.node) if isinstance(n, ast.Assign) and isinstance(n.targets[0], ast.Name) and isinstance(n.value, ast.Call) and isinstance(n.value.func, ast.Name) and n.value.func.id == "len"]
    nq = nqs[0].targets[0].id if nqs else None
    factor_nodes = []
    for st in f.node.body:
        if isinstance(st, ast.AugAssign) and isinstance(st.target, ast.Name) and st.target.id == mat and isinstance(st.op, (ast.Mult, ast.Div)):
            factor_nodes.append((st, st.op, st.value))
        if isinstance(st, ast.Return) and isinstance(st.value, ast.BinOp) and isinstance(st.value.left, ast.Name) and st.value.left.id == mat and isinstance(st.value.op, (ast.Mult, ast.Div)):
            factor_nodes.append((st, st.value.op, st.value.right))
    # what is returned is the accumulated matrix itself (possibly scaled in the return): any other expression over it
    # (a transpose, a "symmetrisation", a slice) is not modelled
    for rt in [st for st in ast.walk(f.node) if isinstance(st, ast.Return) and st.value is not None]:
        v = rt.value
        plain = isinstance(v, ast.Name) and v.id == mat
        scaled = isinstance(v, ast.BinOp) and isinstance(v.op, (ast.Mult, ast.Div)) and isinstance(v.left, ast.Name) and v.left.id == mat and not any(isinstance(x, ast.Name) and x.id == mat for x in ast.walk(v.right))
        if not (plain or scaled):
            uses_T = any(isinstance(x, ast.Attribute) and x.attr == "T" for x in ast.walk(v)) and not any(isinstance(x, ast.Attribute) and x.attr in ("conj", "conjugate", "H") or (isinstance(x, ast.Call) and ast.unparse(x.func).endswith(("conj", "conjugate"))) for x in ast.walk(v))
            if uses_T:
                rep.finding("S3", f"{A_DENSITY}:return-transpose", f"{pyfacts.where(f, rt)}: the returned matrix mixes the accumulated sum with its plain transpose (no complex conjugation): the imaginary part of the density matrix (every component with an odd number of Y) is lost [{pyfacts.norm_stmt(rt)}]")
                return
            raise AnalysisError(f"{pyfacts.where(f, rt)}: the density matrix is post-processed before it is returned (`{ast.unparse(v)[:80]}`): outside S3's vocabulary")
    bad = None
    simple = [st for st in f.node.body if isinstance(st, ast.Assign) and isinstance(st.targets[0], ast.Name) and st not in nqs
              and all(isinstance(x, (ast.BinOp, ast.Constant, ast.Name, ast.operator, ast.Load, ast.UnaryOp, ast.unaryop)) for x in ast.walk(st.value))]
    for n in range(2, 7):
        fac = 1.0
        env = {nq: n} if nq else {}
        for st in simple:
            try:
                env[st.targets[0].id] = ce.ev(st.value, env, f)
            except (AnalysisError, consteval.CERaise, KeyError):
                pass
        for (st, op, val) in factor_nodes:
            v = ce.ev(val, env, f)
            fac = fac * v if isinstance(op, ast.Mult) else fac / v
        if abs(fac - 2.0 ** (-n)) > 1e-15:
            bad = (n, fac)
            break
    if bad:
        rep.finding("S3", f"{A_DENSITY}:scale", f"{f.module.rel} {f.qualname}: for n = {bad[0]} the sum of <P>*P is scaled by {bad[1]}, required 2^-n = {2.0 ** -bad[0]}")
    else:
        rep.ok("S3", 1, nontrivial="scale", sample=f"scale factor = 2^-n for n=2..6 ({'; '.join(pyfacts.norm_stmt(s[0]) for s in factor_nodes)})")


# =============================================================================================
# builders: W1 (ReadoutInfo fields), W2 (stored readout is the composed object)

BUILDERS = ["tomography.stabilizer_measurement_circuit", "tomography.full_state_tomography_circuits"]


def W1_W2_builders(rep, flow: Flow, want=("W1", "W2"), builders=None):
    if "W1" in want:
        rep.rule("W1", "the readout record stored with each measurement circuit carries the caller's measured-qubit list (same order) and the full register width", floor=len(builders or BUILDERS))
    if "W2" in want:
        rep.rule("W2", "the readout circuit stored in the metadata of a measurement circuit is the very object that was composed into that circuit", floor=len(builders or BUILDERS))
    for fq in (builders or BUILDERS):
        f = flow.prog.func(fq)
        rets = [r for r in flow.paths(fq) if r.kind == "return"]
        if not rets:
            raise AnalysisError(f"{fq}: no return path")
        for pi, r in enumerate(rets):
            v = r.value
            o = r.heap.get(v.oid) if isinstance(v, Ref) else None
            circs = []
            if o is not None and o.kind == "circuit":
                circs = [o]
            elif o is not None and o.kind == "list" and isinstance(o.elem, Ref):
                circs = [r.heap[o.elem.oid]]
            if not circs:
                raise AnalysisError(f"{fq}: result is not a circuit or list of circuits")
            for c in circs:
                # every measurement circuit ends in a measurement of the register (the fitter reads counts of it)
                if "W2" in rep.rules or "W1" in rep.rules:
                    rid0 = "W2" if "W2" in rep.rules else "W1"
                    term = c.term
                    last = term[1][-1] if term[0] == "seq" and term[1] else term
                    n_meas = sum(1 for (leaf, *_x) in t_leaves(term) if leaf[0] == "measure")
                    unk = [leaf for (leaf, *_x) in t_leaves(term) if leaf[0] == "unknown"] + ([last] if last[0] == "unknown" else [])
                    if unk and any("measure_active" in str(u[1]) for u in unk):
                        rep.finding(rid0, f"{fq}:measurement", f"{f.module.rel} {f.qualname} return path #{pi}: the circuit is measured with measure_active(), which gives a classical bit only to qubits some gate acts on: a qubit that preparation and readout leave idle is not measured, the count keys get shorter and the bits above it move down - the fitter reads key position j as register qubit j ({unk[0][1][:100]})")
                        continue
                    elif unk and not (last[0] == "measure" and n_meas == 1):
                        raise AnalysisError(f"{f.module.rel} {f.qualname} return path #{pi}: the returned circuit is changed by an operation the interpreter does not model ({unk[0][1][:120]}): whether it ends in one measurement of the whole register cannot be decided")
                    elif not (last[0] == "measure" and n_meas == 1):
                        rep.finding(rid0, f"{fq}:measurement", f"{f.module.rel} {f.qualname} return path #{pi}: the returned circuit " + ("is not measured at all" if n_meas == 0 else "does not end in exactly one final measurement") + " (circuit term: preparation, readout, then measure_all is required)")
                        continue
                md = c.meta.get("metadata")
                mdo = r.heap.get(md.oid) if isinstance(md, Ref) else None
                if mdo is not None and o is not None and o.kind == "list" and mdo.loop_depth < c.loop_depth:
                    # the dictionary was created once, outside the loop that builds the circuits: all of them share it and
                    # carry the record written last
                    rid0 = "W2" if "W2" in rep.rules else "W1"
                    rep.finding(rid0, f"{fq}:shared-metadata", f"{f.module.rel} {f.qualname} return path #{pi}: one metadata dictionary (allocated at {mdo.site}) is assigned to every circuit of the list: the readout records overwrite each other and every circuit ends up with the last one")
                    continue
                recs = [val for (k, val, w) in (mdo.meta.get("stores", []) if mdo else []) if isinstance(val, Ref) and r.heap[val.oid].kind == "record"]
                if not recs:
                    for rid in ("W2", "W1"):
                        if rid in rep.rules:
                            rep.finding(rid, f"{fq}:no-record", f"{f.module.rel} {f.qualname} return path #{pi}: no readout record is stored in the metadata of the returned circuit (or it is stored in a dictionary shared with another circuit)")
                            break
                    continue
                rec = r.heap[recs[-1].oid]
                comp = [ev for ev in r.events if ev[0] == "compose" and ev[4] == c.oid]
                if not comp:
                    raise AnalysisError(f"{fq}: the returned circuit is not the result of a compose (vocabulary)")
                _, _, other_oid, qkey, _, cwhere = comp[-1]
                if other_oid is None:
                    raise AnalysisError(f"{fq}: the value composed into the circuit at {cwhere} is not a circuit the interpreter can model (unknown producer): W1/W2 cannot be decided")
                circ_field = [val for val in rec.fields.values() if isinstance(val, Ref) and r.heap[val.oid].kind == "circuit"]
                # the record's attributes are read by name in the fitter: a value under the attribute of another role
                # (constructor arguments in the wrong order) is as good as absent
                misplaced = [(k, "a circuit") for k, val in rec.fields.items() if isinstance(val, Ref) and r.heap[val.oid].kind == "circuit" and "circ" not in k.lower()
                             and any("circ" in k2.lower() for k2 in rec.fields)]
                misplaced += [(k, "not a circuit") for k, val in rec.fields.items() if "circ" in k.lower() and not (isinstance(val, Ref) and r.heap[val.oid].kind == "circuit")]
                if misplaced and "W2" in rep.rules:
                    rep.finding("W2", f"{fq}:attribute-roles", f"{f.module.rel} {f.qualname} return path #{pi}: the readout record's attribute `.{misplaced[0][0]}` holds {misplaced[0][1]} (fields: { {k: (r.heap[v.oid].kind if isinstance(v, Ref) else fmt(vkey(v))[:30]) for k, v in rec.fields.items()} }): the record's constructor arguments are not in the order of its parameters")
                    continue
                if "W2" in rep.rules:
                    if len(circ_field) == 1 and circ_field[0].oid == other_oid:
                        rep.ok("W2", 1, nontrivial=(fq, pi), sample=f"{f.qualname} path #{pi}: metadata record holds the object composed at {cwhere}")
                    else:
                        what = "a different circuit object" if circ_field else "no circuit"
                        rep.finding("W2", f"{fq}:stored-readout", f"{f.module.rel} {f.qualname} return path #{pi}: the metadata record holds {what} than the readout composed into the circuit at {cwhere}: the fitter would pull the outcomes back through the wrong circuit")
                if "W1" in rep.rules:
                    lp = "measured_qubits"
                    given = r.decisions.get(("isnone", ("param", lp)))
                    others = {k: val for k, val in rec.fields.items() if not (isinstance(val, Ref) and r.heap[val.oid].kind == "circuit")}
                    qfield = None
                    for k, val in others.items():
                        if isinstance(val, Ref) and r.heap[val.oid].kind in ("tuple", "list"):
                            ic = r.heap[val.oid].meta.get("identity_conv_of")
                            qfield = ("list", vkey(ic) if ic is not None else None, k)
                        elif isinstance(val, Const) and val.v is None:
                            qfield = qfield or ("none", None, k)
                        elif isinstance(val, Sym) and val.tag == "param" and val.args[0] == lp:
                            qfield = ("list", vkey(val), k)
                    widths = [k for k, val in others.items() if vkey(val) == ("attr", ("param", "preparation_circuit"), "num_qubits")]
                    if given is True:
                        okq = qfield is not None and qfield[0] == "none"
                    else:
                        okq = qfield is not None and qfield[0] == "list" and qfield[1] == ("param", lp)
                    if not okq:
                        rep.finding("W1", f"{fq}:qubits:{'none' if given else 'given'}", f"{f.module.rel} {f.qualname} return path #{pi} (`{lp}` {'is None' if given else 'given'}): the readout record's qubit field is {qfield}; it must be {'None' if given else 'the caller list in order'}")
                    elif widths and qfield is not None and (("qubits" not in qfield[2].lower() or "num" in qfield[2].lower()) and any("qubits" in k2.lower() and "num" not in k2.lower() for k2 in rec.fields)):
                        rep.finding("W1", f"{fq}:attribute-roles", f"{f.module.rel} {f.qualname} return path #{pi}: the measured-qubit list is stored under `.{qfield[2]}` and the register width under `.{widths[0]}`: the record's constructor arguments are not in the order of its parameters")
                    elif not widths:
                        rep.finding("W1", f"{fq}:width", f"{f.module.rel} {f.qualname} return path #{pi}: the readout record does not carry the full register width preparation_circuit.num_qubits")
                    else:
                        rep.ok("W1", 1, nontrivial=(fq, pi), sample=f"{f.qualname} path #{pi}: .{qfield[2]} = {'None' if given else lp}, .{widths[0]} = preparation_circuit.num_qubits")


def A8_snapshot(rep, flow: Flow, builders=None):
    """the readout record travels with the returned circuit: the measured-qubit list it holds must be the library's own
    snapshot (tuple(...) / list(...) of the argument), not the caller's list object - otherwise a caller who reuses or edits
    the list afterwards changes circuits that were returned earlier"""
    rep.rule("A8", "the readout record stored with a returned measurement circuit holds a snapshot (tuple / list copy) of the caller's measured-qubit list, never the caller's own list object", floor=len(builders or BUILDERS))
    for fq in (builders or BUILDERS):
        f = flow.prog.func(fq)
        n = 0
        for pi, r in enumerate(flow.paths(fq)):
            if r.kind != "return" or r.decisions.get(("isnone", ("param", "measured_qubits"))) is True:
                continue
            # a path taken only when the caller's object IS a tuple (`type(x) is tuple`, exact type: no mutable subclass)
            # may keep the object itself: nothing can be edited afterwards
            is_exact_tuple = any(v is True and isinstance(k, tuple) and len(k) == 2 and k[0] == "truth" and isinstance(k[1], tuple) and k[1][:1] == ("is",)
                                 and ("type", ("param", "measured_qubits")) in k[1][1:] and any(isinstance(x, tuple) and x[:1] == ("ext",) and x[1].endswith("tuple") for x in k[1][1:])
                                 for k, v in r.decisions.items())
            for o in r.heap.values():
                if not (o.kind == "record" and o.cls is not None and o.cls.name == "ReadoutInfo"):
                    continue
                for k, val in o.fields.items():
                    ho = r.heap.get(val.oid) if isinstance(val, Ref) else None
                    if is_exact_tuple and ((ho is not None and ho.origin[0] == "param" and ho.origin[1] == "measured_qubits") or (isinstance(val, Sym) and val.tag == "param" and val.args and val.args[0] == "measured_qubits")):
                        rep.ok("A8", 1, nontrivial=(fq, pi, k, "tuple"), sample=f"{f.qualname} path #{pi}: .{k} is the caller's object on a path taken only for an exact tuple (immutable)")
                        n += 1
                    elif ho is not None and ho.origin[0] == "param" and ho.origin[1] == "measured_qubits":
                        rep.finding("A8", f"{fq}:{k}", f"{f.module.rel} {f.qualname} return path #{pi}: the readout record's `.{k}` is the caller's own `measured_qubits` object: editing or reusing that list later changes the circuit that was returned")
                        n += 1
                    elif isinstance(val, Sym) and val.tag == "param" and val.args and val.args[0] == "measured_qubits":
                        rep.finding("A8", f"{fq}:{k}", f"{f.module.rel} {f.qualname} return path #{pi}: the readout record's `.{k}` is the caller's own `measured_qubits` object: editing or reusing that list later changes the circuit that was returned")
                        n += 1
                    elif ho is not None and ho.kind in ("tuple", "list") and (ho.meta.get("identity_conv_of") is not None or ho.origin[0] == "fresh"):
                        rep.ok("A8", 1, nontrivial=(fq, pi, k), sample=f"{f.qualname} path #{pi}: .{k} is a {ho.kind} allocated in the call")
                        n += 1
        if n == 0:
            raise AnalysisError(f"{fq}: no readout record with a qubit list found on a path with measured_qubits given (anchor vanished)")


def W11_fitter_uses_list(rep, flow: Flow):
    rep.rule("W11", "the fitter marginalises the counts onto the qubit list stored by the builder: the counts parser is constructed with the record's qubit field (not None, not another list)", floor=1)
    parser_cls = A_COUNTS_PARSER.split(".")[1]
    cands = _find_in_tomo(flow, lambda g: any(isinstance(c, ast.Call) and isinstance(c.func, ast.Name) and c.func.id == parser_cls for c in ast.walk(g.node)))
    if not cands:
        raise AnalysisError(f"{TOMO}: the counts parser {parser_cls} is constructed nowhere (anchor vanished)")
    f = cands[0]
    init = flow.prog.func(A_COUNTS_PARSER)
    lists = [a.arg for a in init.node.args.args if (a.annotation is not None and "Sequence" in ast.unparse(a.annotation)) or a.arg == "qubits"]
    lp = lists[0] if lists else None
    calls = [c for c in ast.walk(f.node) if isinstance(c, ast.Call) and isinstance(c.func, ast.Name) and c.func.id == parser_cls]
    if not calls or lp is None:
        raise AnalysisError(f"{A_FITTER}: the counts parser {parser_cls} is not constructed here (anchor vanished)")
    rec_fields = set()
    for fq in BUILDERS:
        for r in flow.paths(fq):
            for o in r.heap.values():
                if o.kind == "record" and o.cls is not None and o.cls.name == "ReadoutInfo":
                    for k, v in o.fields.items():
                        ho = r.heap.get(v.oid) if isinstance(v, Ref) else None
                        if (ho is not None and ho.kind in ("tuple", "list")) or (isinstance(v, Const) and v.v is None):
                            rec_fields.add(k)
    for c in calls:
        ps = init.params[1:]
        b = {}
        for i, a in enumerate(c.args):
            if i < len(ps):
                b[ps[i]] = a
        for k in c.keywords:
            b[k.arg] = k.value
        arg = b.get(lp)
        src = arg
        if isinstance(arg, ast.Name):
            asg = _assigned(f.node, arg.id)
            src = asg[-1].value if len(asg) == 1 else None
        okk = isinstance(src, ast.Attribute) and src.attr in rec_fields and "readout_info" in ast.unparse(src)
        # the other argument: the counts of this circuit, i.e. a value that comes out of get_counts()
        others = [v for k, v in b.items() if k != lp]
        if others:
            cnt = others[0]
            csrcs = [cnt]
            if isinstance(cnt, ast.Name):
                csrcs = [a.value for a in _assigned(f.node, cnt.id)]
            from_param = isinstance(cnt, ast.Name) and (cnt.id in f.params or not csrcs)
            # a value produced by a helper call (self._circuit_counts(), a function of the module) is judged where it is produced
            from_helper = any(isinstance(sv, ast.Call) and not (isinstance(sv.func, ast.Name) and sv.func.id in ("dict", "list", "tuple")) and "get_counts" not in ast.unparse(sv)
                              and not any(isinstance(x, ast.Attribute) and x.attr in ("qubits", "circuit") for x in ast.walk(sv)) for sv in csrcs) and \
                not any(isinstance(sv, (ast.Name, ast.Attribute)) for sv in csrcs)
            # `self.<name>` where <name> is a property (or method) of the class: the value is produced there
            from_property = False
            for sv in csrcs:
                if isinstance(sv, ast.Attribute) and isinstance(sv.value, ast.Name) and sv.value.id == "self" and f.cls is not None:
                    pg = flow.prog.find_property(f.cls, sv.attr)
                    if pg is not None:
                        if any(isinstance(x, ast.Call) and isinstance(x.func, ast.Attribute) and x.func.attr == "get_counts" for x in ast.walk(pg.node)):
                            from_property = True
                        else:
                            raise AnalysisError(f"{pyfacts.where(f, c)}: the counts parser is given the property `self.{sv.attr}`, whose getter does not call get_counts() itself: where the counts come from is not decidable here")
            if not from_param and not from_helper and not from_property and not any(isinstance(x, ast.Call) and isinstance(x.func, ast.Attribute) and x.func.attr == "get_counts" for sv in csrcs for x in ast.walk(sv)):
                rep.finding("W11", f"{A_FITTER}:parser-counts", f"{pyfacts.where(f, c)}: the counts parser is given `{ast.unparse(cnt)}`, which does not come from get_counts(): the fitter does not evaluate the measured counts [{pyfacts.norm_stmt(c)}]")
                continue
        if okk:
            rep.ok("W11", 1, nontrivial=pyfacts.norm_stmt(c), sample=f"{pyfacts.norm_stmt(c)} with {ast.unparse(arg)} = {ast.unparse(src)}")
        else:
            rep.finding("W11", f"{A_FITTER}:parser-list", f"{pyfacts.where(f, c)}: the counts are parsed with qubit list `{ast.unparse(arg) if arg is not None else 'absent (None)'}`{'' if src is None or src is arg else ' = ' + ast.unparse(src)}; it must be the list the builder stored in the readout record (fields {sorted(rec_fields)}): otherwise the full-register outcomes are read as if they were the subset's [{pyfacts.norm_stmt(c)}]")


# =============================================================================================
def H1_histogram_accumulates(rep, flow: Flow):
    """marginalised outcomes collide: the counts parser keeps one entry per count key, so after selecting a subset of
    qubits several entries can carry the same outcome integer.  Any outcome-indexed histogram must therefore ADD the
    counts of equal outcomes."""
    rep.rule("H1", "an outcome-indexed histogram adds up the counts of equal outcomes: no plain store `h[outcome] = count`, and no numpy fancy-index `h[outcomes] += counts` (which does not accumulate repeated indices); scalar `+=` in a loop, np.add.at and np.bincount are the accumulating forms", floor=0)
    prog = flow.prog
    m = prog.modules.get(TOMO)
    if m is None:
        raise AnalysisError("module tomography vanished")
    # precondition: duplicates are possible (entries appended per key in the subset branch)
    parser = prog.func(A_COUNTS_PARSER)
    merges = any(isinstance(n, ast.Call) and ast.unparse(n.func).endswith(("marginal_counts", "Counter", "defaultdict")) for n in ast.walk(parser.node))
    appends = any(isinstance(n, ast.Call) and isinstance(n.func, ast.Attribute) and n.func.attr == "append" for n in ast.walk(parser.node))
    # a parser that collects the marginal keys in a dictionary of its own must ADD the counts of equal keys: a plain store
    # keyed by the (marginalised) key inside the key loop keeps the last one only
    for loop in [x for x in ast.walk(parser.node) if isinstance(x, ast.For)]:
        tnames = {x.id for x in ast.walk(loop.target) if isinstance(x, ast.Name)}
        for st in ast.walk(loop):
            if isinstance(st, ast.Assign) and len(st.targets) == 1 and isinstance(st.targets[0], ast.Subscript) and isinstance(st.targets[0].value, ast.Name) \
                    and isinstance(st.targets[0].slice, ast.Name) and st.targets[0].slice.id in tnames | {"key"}:
                dname = st.targets[0].value.id
                reads_self = any(isinstance(x, ast.Name) and x.id == dname for x in ast.walk(st.value))
                rebuilt_key = any(isinstance(a, ast.Assign) and isinstance(a.targets[0], ast.Name) and a.targets[0].id == st.targets[0].slice.id for a in ast.walk(loop))
                if rebuilt_key and not reads_self:
                    rep.finding("H1", f"{parser.fq}:{pyfacts.norm_stmt(st)}", f"{pyfacts.where(parser, st)}: `{pyfacts.norm_stmt(st)}` stores the count under the marginalised key without adding to what is already there: count keys that agree on the measured qubits overwrite each other")
    if merges or not appends:
        rep.note("H1: the counts parser merges equal outcomes itself; histogram stores cannot collide")
        return
    n_sites = 0
    for f in m.all_funcs:
        # names bound to arrays of outcome integers
        outcome_arrays = set()
        for n in ast.walk(f.node):
            if isinstance(n, ast.Assign) and len(n.targets) == 1 and isinstance(n.targets[0], ast.Name):
                if any(isinstance(x, ast.Attribute) and x.attr == "bitstring" for x in ast.walk(n.value)) and \
                        any(isinstance(x, (ast.ListComp, ast.GeneratorExp)) for x in ast.walk(n.value)):
                    outcome_arrays.add(n.targets[0].id)
        for n in ast.walk(f.node):
            if not isinstance(n, (ast.Assign, ast.AugAssign)):
                continue
            for t in (n.targets if isinstance(n, ast.Assign) else [n.target]):
                if not isinstance(t, ast.Subscript):
                    continue
                idx = t.slice
                scalar_outcome = isinstance(idx, ast.Attribute) and idx.attr == "bitstring"
                array_outcome = isinstance(idx, ast.Name) and idx.id in outcome_arrays
                if not (scalar_outcome or array_outcome):
                    continue
                n_sites += 1
                if isinstance(n, ast.Assign):
                    rep.finding("H1", f"{f.fq}:{pyfacts.norm_stmt(n)}", f"{pyfacts.where(f, n)}: `{pyfacts.norm_stmt(n)}` overwrites the histogram entry of an outcome: when a subset of the qubits is measured several count keys marginalise to the same outcome and all but the last are lost")
                elif array_outcome:
                    rep.finding("H1", f"{f.fq}:{pyfacts.norm_stmt(n)}", f"{pyfacts.where(f, n)}: `{pyfacts.norm_stmt(n)}` is a numpy fancy-index in-place add: repeated indices are NOT accumulated (use np.add.at / np.bincount); marginalised outcomes collide when a subset of the qubits is measured")
                else:
                    rep.ok("H1", 1, nontrivial=pyfacts.norm_stmt(n), sample=pyfacts.norm_stmt(n))
    rep.analysed["H1 outcome-indexed stores"] = n_sites
