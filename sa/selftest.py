"""Seeded-edit self-test of the checker (DESIGN.md section 6 / Appendix C).

Every entry is applied as an in-memory overlay (nothing is copied to disk) and the rules of the
named properties are run on the overlaid tree.  MUST-FIRE entries have to produce a new finding of
one of the expected rules for each listed property; MUST-STAY-SILENT entries (behaviour
preserved) must produce no new finding (an ANALYSIS-ERROR is tolerated only where marked).
An entry whose anchor text does not occur in the current tree is skipped (the tree has moved on).
"""
from __future__ import annotations
import concurrent.futures
import os
import re
import sys

from .report import AnalysisError
from .vfs import Tree

S = "src/htstabilizer/"
D = "src/htstabilizer/data/"


def rep1(rel, old, new, count=1):
    """replace exactly `count` occurrence(s) of old by new in file rel"""
    def edit(tree):
        t = tree.read(rel)
        if t.count(old) < 1 or (count and t.count(old) != count):
            return None
        return {rel: t.replace(old, new)}
    return edit


def on_seed(sid, *edits):
    """a seeded change of the corpus (seeded/<sid>/patch.diff, typically a behaviour-preserving refactoring) followed by
    further edits: 'the refactored code, broken' / 'the refactored code, varied'"""
    def edit(tree):
        from .udiff import apply_patch
        p = os.path.join(os.path.dirname(os.path.dirname(os.path.abspath(__file__))), "seeded", sid, "patch.diff")
        if not os.path.exists(p):
            return None
        out = apply_patch(tree, open(p).read())
        if out is None:
            return None
        for e in edits:
            r = e(tree.with_overlay(out))
            if r is None:
                return None
            out.update(r)
        return out
    return edit


def multi(*edits):
    def edit(tree):
        out = {}
        for e in edits:
            r = e(tree.with_overlay(out))
            if r is None:
                return None
            out.update(r)
        return out
    return edit


def table_line(rel, index, fn, header=False):
    """rewrite the index-th non-empty (body) line of a table with fn(line) -> new line"""
    def edit(tree):
        if not tree.exists(rel):
            return None
        lines = tree.read(rel).split("\n")
        k = -1
        for i, l in enumerate(lines):
            if header and i == 0:
                continue
            if l == "":
                continue
            k += 1
            if k == index:
                new = fn(l, tree)
                if new is None or new == l:
                    return None
                lines[i] = new
                return {rel: "\n".join(lines)}
        return None
    return edit


def table_first(rel, fn):
    """rewrite the first body line for which fn gives a new line"""
    def edit(tree):
        if not tree.exists(rel):
            return None
        lines = tree.read(rel).split("\n")
        for i, l in enumerate(lines):
            if l == "":
                continue
            new = fn(l, tree)
            if new is not None and new != l:
                lines[i] = new
                return {rel: "\n".join(lines)}
        return None
    return edit


def line_of(tree, rel, index):
    ls = [l for l in tree.read(rel).split("\n") if l != ""]
    return ls[index] if index < len(ls) else None


def delete(rel):
    def edit(tree):
        return {rel: None} if tree.exists(rel) else None
    return edit


def bump_field(pos, delta):
    def fn(line, tree):
        c = line.split(":")
        if len(c) != 4 or int(c[pos]) + delta < 0:
            return None
        c[pos] = str(int(c[pos]) + delta)
        return ":".join(c)
    return fn


def _prepend_cz_on_fresh_pair(line, tree):
    c = line.split(":")
    toks = [t for t in c[3].split(" ") if t]
    # the first two-qubit token's pair, prepended as a cz while both qubits are still |0>
    for t in toks:
        m = re.match(r"^(?:cx|cz)(\d+),(\d+)$", t)
        if m:
            return f"{c[0]}:{int(c[1]) + 1}:{int(c[2]) + 1}:cz{m.group(1)},{m.group(2)} " + c[3]
    return None


def _reformat(tree):
    """s01: comments, blank lines and a docstring added to every module (behaviour preserved)"""
    out = {}
    for rel in tree.glob("src/htstabilizer", "*.py"):
        t = tree.read(rel)
        if not t.strip():
            continue
        out[rel] = "# reformatted by the self-test\n\n\n" + t.replace("\n\ndef ", "\n\n\n# a comment\ndef ") + "\n\n# trailing comment\n"
    return out


MUST_FIRE = [
    # id, properties, expected rules, edit, note
    ("m01", ["C02"], ["G3"], rep1(S + "connectivity_support.py", "graph.add_edge(num_qubits - 1, num_qubits - 4)", "graph.add_edge(num_qubits - 1, num_qubits - 3)"), "Q branch edge"),
    ("m02", ["C02"], ["G3"], rep1(S + "graph.py", "def star(num_vertices: int, center: int = 0):", "def star(num_vertices: int, center: int = 1):"), "star centre default"),
    ("m03", ["C02"], ["G3"], rep1(S + "graph.py", "graph.add_edge(0, num_vertices - 1)", "graph.add_edge(0, num_vertices - 2)"), "cycle closing edge"),
    ("m04", ["C02"], ["G3"], rep1(S + "connectivity_support.py", "graph.add_path([3, 0, 1, 2, 5])", "graph.add_path([3, 0, 1, 2, 4])"), "E path"),
    ("m05", ["C02"], ["T4"], table_line(D + "stabilizer6-linear.txt", 700, lambda l, t: line_of(t, D + "stabilizer6-all.txt", 700)), "line pasted from a denser connectivity"),
    ("m06", ["C02", "C09"], ["T4"], rep1(D + "mub5-star.txt", "cz0,3", "cz1,3", count=0), "mub token off the star"),
    ("m07", ["C02"], ["P1"], rep1(S + "stabilizer_circuits.py", "circuit_lookup.stabilizer_circuit_lookup(stabilizer.num_qubits, connectivity, lc_class_id)", "circuit_lookup.stabilizer_circuit_lookup(stabilizer.num_qubits, \"all\", lc_class_id)"), "literal connectivity"),
    ("m08", ["C02"], ["P1"], rep1(S + "stabilizer_circuits.py", "    lc_class_id = lc_classes.determine_lc_class(stabilizer).id()\n", "    lc_class_id = lc_classes.determine_lc_class(stabilizer).id()\n    if connectivity == \"ladder\":\n        connectivity = \"all\"\n"), "connectivity rewritten for one name"),
    ("m09", ["C02"], ["P1"], rep1(S + "mub_circuits.py", "return circuit_lookup.mub_circuit_lookup(num_qubits, connectivity).circuits", "return circuit_lookup.mub_circuit_lookup(num_qubits, \"all\").circuits"), "literal connectivity in mub"),
    ("m10", ["C02"], ["P1"], rep1(S + "circuit_lookup.py", 'filename = f"stabilizer{num_qubits}-{connectivity}.txt"', 'filename = f"stabilizer{num_qubits}-all.txt"'), "file name without connectivity"),
    ("m11", ["C02", "C11"], ["P3"], rep1(S + "tomography.py", "circuit: QuantumCircuit = preparation_circuit.compose(readout_circuit, qubits=measured_qubits)  # type: ignore\n    circuit.measure_all()\n\n    if measured_qubits is not None:", "circuit: QuantumCircuit = preparation_circuit.compose(readout_circuit)  # type: ignore\n    circuit.measure_all()\n\n    if measured_qubits is not None:"), "qubits= dropped"),
    ("m12", ["C02", "C11"], ["P3"], rep1(S + "tomography.py", "        circuit: QuantumCircuit = preparation_circuit.compose(readout_circuit, qubits=measured_qubits)  # type: ignore\n        circuit.measure_all()", "        circuit: QuantumCircuit = preparation_circuit.compose(readout_circuit, qubits=sorted(measured_qubits) if measured_qubits is not None else None)  # type: ignore\n        circuit.measure_all()"), "qubits sorted"),
    ("m13", ["C02", "C04"], ["P2", "P1", "P6"], rep1(S + "find_local_clifford_layer.py", "        elif c == [1, 0, 1, 1]:  # S\n            qc.s(i)", "        elif c == [1, 0, 1, 1]:  # S\n            qc.s(i)\n            qc.cz(i, (i + 1) % n)\n            qc.cz(i, (i + 1) % n)"), "two-qubit gate emitted by glue"),
    ("m14", ["C03", "C12"], ["P4"], rep1(S + "stabilizer_circuits.py", "return _get_preparation_circuit_modulo_phase(stabilizer, connectivity).inverse()", "return _get_preparation_circuit_modulo_phase(stabilizer, connectivity)"), "inverse deleted"),
    ("m15", ["C03"], ["P4"], rep1(S + "stabilizer_circuits.py", "return _get_preparation_circuit_modulo_phase(stabilizer, connectivity).inverse()", "return _get_preparation_circuit_modulo_phase(stabilizer, connectivity).inverse().inverse()"), "inverse doubled"),
    ("m16", ["C03"], ["NI1", "P4"], rep1(S + "stabilizer_circuits.py", "return _get_preparation_circuit_modulo_phase(stabilizer, connectivity).inverse()", "return get_preparation_circuit(stabilizer, connectivity).inverse()"), "readout from the signed preparation"),
    ("m17", ["C03", "C04"], ["NI1"], rep1(S + "lc_classes.py", "    num_qubits = stabilizer.num_qubits\n    assert 2 <= num_qubits <= 6, \"LC class determination is only supported for up to 6 qubits\"", "    num_qubits = stabilizer.num_qubits\n    if stabilizer.phases.any() and num_qubits == 6:\n        stabilizer = Stabilizer((stabilizer.R.copy(), stabilizer.S.copy()))\n    assert 2 <= num_qubits <= 6, \"LC class determination is only supported for up to 6 qubits\""), "branch on the signs"),
    ("m18", ["C03"], ["P5"], multi(rep1(S + "stabilizer_circuits.py", "from qiskit.circuit.library import HGate", "from qiskit.circuit.library import HGate, SGate"), rep1(S + "stabilizer_circuits.py", "InverseCancellation([HGate()])", "InverseCancellation([HGate(), SGate()])")), "SGate in the cancellation list"),
    ("m19", ["C04", "C17"], ["T5"], table_line(D + "stabilizer5-T.txt", 40, bump_field(1, +1)), "cost column +1"),
    ("m20", ["C04", "C17"], ["T6"], table_line(D + "stabilizer6-H.txt", 300, bump_field(2, -1)), "depth column -1"),
    ("m21", ["C04"], ["K2"], multi(rep1(S + "circuit_lookup.py", "self.cost = int(components[1])", "self.cost = int(components[2])"), rep1(S + "circuit_lookup.py", "self.depth = int(components[2])", "self.depth = int(components[1])")), "cost/depth fields swapped"),
    ("m22", ["C04"], ["K2"], rep1(S + "circuit_lookup.py", "self.cost = int(components[1])", "self.cost = int(components[1]) - 1"), "cost off by one"),
    ("m23", ["C02", "C04", "C07"], ["P1", "P6", "P2"], rep1(S + "rotate_stabilizer_into_state.py", "    result = circuit.compose(pauli_layer, front=True, inplace=inplace)\n    # if inplace is False, compose() returns None\n    return circuit if result is None else result\n\n    \"\"\"\n    XX,YY", "    result = circuit.compose(target, front=True, inplace=inplace)\n    # if inplace is False, compose() returns None\n    return circuit if result is None else result\n\n    \"\"\"\n    XX,YY"), "reference circuit composed instead of the X layer"),
    ("m24", ["C05"], ["L2"], table_line(D + "stabilizer5-all.txt", 60, lambda l, t: line_of(t, D + "stabilizer5-linear.txt", 60)), "longer sparse line pasted into the dense table"),
    ("m25", ["C05"], ["L1"], table_line(D + "stabilizer5-cycle.txt", 50, _prepend_cz_on_fresh_pair), "redundant cz prepended, cost/depth adjusted"),
    ("m26", ["C05"], ["L3", "L1"], table_line(D + "stabilizer3-all.txt", 0, lambda l, t: "0:1:1:h0 cz0,1 h1 h2"), "product-state line with a gate"),
    ("m27", ["C07", "C13"], ["A4", "P1", "P6"], rep1(S + "stabilizer_circuits.py", "return rotate_stabilizer_into_state(optimized_circuit, circuit, inplace=True)", "return rotate_stabilizer_into_state(circuit, optimized_circuit, inplace=True)"), "arguments of the sign repair swapped"),
    ("m28", ["C13"], ["A4"], rep1(S + "tomography.py", "    circuit: QuantumCircuit = preparation_circuit.compose(readout_circuit, qubits=measured_qubits)  # type: ignore\n    circuit.measure_all()\n\n    if measured_qubits is not None:", "    preparation_circuit.compose(readout_circuit, qubits=measured_qubits, inplace=True)\n    circuit: QuantumCircuit = preparation_circuit  # type: ignore\n    circuit.measure_all()\n\n    if measured_qubits is not None:"), "compose in place on the caller's circuit"),
    ("m29", ["C08"], ["G2"], multi(rep1(S + "stabilizer_circuits.py", "    assert_connectivity_is_supported(stabilizer.num_qubits, connectivity)\n\n    lc_class_id", "\n    lc_class_id"), rep1(S + "stabilizer_circuits.py", "    assert_connectivity_is_supported(stabilizer.num_qubits, connectivity)\n    return _get_preparation_circuit_modulo_phase(stabilizer, connectivity).inverse()", "    return _get_preparation_circuit_modulo_phase(stabilizer, connectivity).inverse()")), "gate removed from the stabilizer path"),
    ("m30", ["C08"], ["G1"], rep1(S + "connectivity_support.py", '(num_qubits == 6 and connectivity in ["all", "linear", "star", "ladder", "E", "H", "Q"])', '(num_qubits == 6 and connectivity in ["all", "linear", "star", "cycle", "ladder", "E", "H", "Q"])'), "extra pair accepted by the predicate only"),
    ("m31", ["C08"], ["G1"], rep1(S + "connectivity_support.py", '        (6, "Q"),\n', ""), "advertised list loses a pair"),
    ("m32", ["C08"], ["G1"], delete(D + "mub6-H.txt"), "missing MUB file"),
    ("m33", ["C08"], ["G4"], rep1(S + "rotate_stabilizer_into_state.py", "target = synth_circuit_from_stabilizers(target.to_list(qiskit_convention=True))", "target = synth_circuit_from_stabilizers(target.to_list(qiskit_convention=True), allow_redundant=True, allow_underconstrained=True)"), "underconstrained input allowed"),
    ("m34", ["C08"], ["G1"], rep1(S + "connectivity_support.py", "    assert_connectivity_is_supported(num_qubits, connectivity)\n\n    if connectivity == \"all\":", "    if connectivity == \"all\":"), "gate removed from the graph builder"),
    ("m35", ["C09"], ["T8"], rep1(D + "mub4-cycle.txt", "41:3:3\n", "41:3:2\n"), "header depth"),
    ("m36", ["C09"], ["W8"], multi(rep1(S + "mub_circuits.py", 'info["max two-qubit count"] = mub_info.max_cost', 'info["max two-qubit count"] = mub_info.max_depth'), rep1(S + "mub_circuits.py", 'info["max two-qubit depth"] = mub_info.max_depth', 'info["max two-qubit depth"] = mub_info.max_cost')), "info fields exchanged"),
    ("m37", ["C09"], ["W8"], rep1(S + "mub_circuits.py", '2**mub_info.num_qubits + 1', '2**mub_info.num_qubits'), "num circuits"),
    ("m38", ["C09"], ["W9"], rep1(S + "mub_circuits.py", "return circuit_lookup.mub_circuit_lookup(num_qubits, connectivity).mubs", "return circuit_lookup.mub_circuit_lookup(num_qubits, connectivity).mubs[::-1]"), "bases returned reversed"),
    ("m39", ["C09"], ["W9"], rep1(S + "circuit_lookup.py", "            self.circuits.append(parse_circuit(num_qubits, circuit_string))\n", "            if len(circuit_string.strip()) != 0:\n                self.circuits.append(parse_circuit(num_qubits, circuit_string))\n"), "circuits appended only when non-empty"),
    ("m40", ["C10", "C12"], ["B1"], rep1(S + "tomography.py", 'BinaryResult(Bitstring(int(key.replace(" ", ""), 2)), value)', 'BinaryResult(Bitstring(int(key.replace(" ", "")[::-1], 2)), value)'), "full-register key reversed"),
    ("m41", ["C10"], ["W3"], rep1(S + "tomography.py", "StabilizerMeasurementFitter(self.result, circuit, result_index=index)", "StabilizerMeasurementFitter(self.result, circuit)"), "result_index dropped"),
    ("m42", ["C10", "C12"], ["W4"], multi(rep1(S + "tomography.py", 'pauli = z_pauli.evolve(inverse_circuit, frame="s")', 'pauli = z_pauli.evolve(readout_circuit, frame="s")'), rep1(S + "tomography.py", 'z_pauli = pauli.evolve(readout_circuit, frame="s")', 'z_pauli = pauli.evolve(inverse_circuit, frame="s")')), "evolve circuits exchanged"),
    ("m43", ["C10", "C12"], ["W5"], rep1(S + "tomography.py", "_compute_expectation_value(circuit_result, Bitstring(i))", "_compute_expectation_value(circuit_result, Bitstring(i + 1))"), "mask offset"),
    ("m44", ["C10", "C12"], ["S1"], rep1(S + "tomography.py", "(1 if z_pauli.phase == 0 else -1)", "(1 if z_pauli.phase == 2 else -1)"), "sign table inverted"),
    ("m45", ["C10", "C12"], ["S2"], multi(rep1(S + "tomography.py", "            expectation_value -= result.count", "            expectation_value += result.count  # swapped"), rep1(S + "tomography.py", "        else:\n            expectation_value += result.count\n", "        else:\n            expectation_value -= result.count\n")), "+=/-= exchanged"),
    ("m46", ["C10", "C12"], ["S2"], rep1(S + "tomography.py", "(s & result.bitstring).bit_count() & 1", "(s | result.bitstring).bit_count() & 1"), "or instead of and"),
    ("m47", ["C10"], ["S3"], rep1(S + "tomography.py", "    density_matrix *= (1. / 2**num_qubits)\n", ""), "normalisation removed"),
    ("m48", ["C12"], ["W7"], rep1(S + "tomography.py", "            pauli.phase = 0\n", ""), "phase reset deleted"),
    ("m49", ["C12"], ["W6"], rep1(S + "tomography.py", "for i in range(1, 2**num_qubits):", "for i in range(1, 2**num_qubits - 1):"), "loop misses the last mask"),
    ("m50", ["C11"], ["B2"], rep1(S + "tomography.py", 'key = "".join(key[-1 - index] for index in reversed(qubits))', 'key = "".join(key[index] for index in qubits)'), "repaired marginalisation reverted (F2)"),
    ("m51", ["C11"], ["B3"], rep1(S + "tomography.py", "new_key[qubit] = key[index]", "new_key[index] = key[qubit]"), "re-embedding roles swapped"),
    ("m52", ["C11"], ["W1"], rep1(S + "tomography.py", "ReadoutInfo(readout_circuit, preparation_circuit.num_qubits, measured_qubits)\n    return circuit", "ReadoutInfo(readout_circuit, preparation_circuit.num_qubits, None)\n    return circuit"), "fitter told that all qubits were measured"),
    ("m53", ["C13"], ["A3"], rep1(S + "circuit_lookup.py", "    return mubInfo.copy()", "    return mubInfo"), "cached record returned as is"),
    ("m54", ["C13"], ["A3"], rep1(S + "circuit_lookup.py", "        result.mubs = [list(mub) for mub in self.mubs]\n", ""), "repaired copy reverted (F1)"),
    ("m55", ["C13"], ["A3", "A5"], multi(rep1(S + "circuit_lookup.py", "        self.circuit_string = components[3]\n", "        self.circuit_string = components[3]\n        self._circuit = None\n"), rep1(S + "circuit_lookup.py", "        return parse_circuit(self.num_qubits, self.circuit_string)\n", "        if self._circuit is None:\n            self._circuit = parse_circuit(self.num_qubits, self.circuit_string)\n        return self._circuit\n")), "parsed circuit memoised on the cached record"),
    ("m56", ["C13"], ["A3", "A5"], rep1(S + "mub_circuits.py", "def get_mubs(\n        num_qubits: int,\n        connectivity: Literal[\"all\", \"linear\", \"star\", \"cycle\", \"T\",  \"Q\"]\n) -> List[List[str]]:", "def get_mubs(\n        num_qubits: int,\n        connectivity: Literal[\"all\", \"linear\", \"star\", \"cycle\", \"T\",  \"Q\"],\n        _seen=[]\n) -> List[List[str]]:") if False else
        multi(rep1(S + "mub_circuits.py", "    assert_connectivity_is_supported(num_qubits, connectivity)\n    return circuit_lookup.mub_circuit_lookup(num_qubits, connectivity).mubs", "    assert_connectivity_is_supported(num_qubits, connectivity)\n    _history.append((num_qubits, connectivity))\n    return circuit_lookup.mub_circuit_lookup(num_qubits, connectivity).mubs"),
              rep1(S + "mub_circuits.py", "def get_mubs(", "_history = []\n\n\ndef get_mubs(")), "module-level list mutated by an API call"),
    ("m57", ["C14"], ["B4"], rep1(S + "stabilizer.py", 'return [phs[self.phases[j]] + "".join(chs[2*self.S[i][j] + self.R[i][j]] for i in qubit_range) for j in range(self.num_qubits)]', 'strings = [phs[self.phases[j]] + "".join(chs[2*self.S[i][j] + self.R[i][j]] for i in range(self.num_qubits)) for j in range(self.num_qubits)]\n        return [s[::-1] for s in strings] if qiskit_convention else strings'), "sign mirrored together with the characters"),
    ("m58", ["C14"], ["E2"], rep1(S + "graph.py", "        for vertex1, vertex2 in self.get_edges():\n            qc.cz(vertex1, vertex2)\n", "        qc.cz(*zip(*self.get_edges()))\n"), "repaired to_circuit reverted (F5)"),
    ("m59", ["C16"], ["K6"], rep1(S + "find_local_clifford_layer.py", "cs = [c_i, c_hs, c_h, c_s]", "cs = [c_i, c_h, c_s, c_hs]"), "basis order changed without the filter"),
    ("m60", ["C16"], ["K7"], rep1(S + "find_local_clifford_layer.py", "        elif c == [1, 1, 1, 0]:  # HS\n            qc.s(i)\n            qc.h(i)", "        elif c == [1, 1, 1, 0]:  # HS\n            qc.h(i)\n            qc.s(i)"), "gate order in the HS branch"),
    ("m61", ["C16"], ["K9"], rep1(S + "find_local_clifford_layer.py", "itertools.product([0, 1], repeat=rank)", "itertools.product([0, 1], repeat=max(rank - 1, 0))"), "span truncated"),
    ("m62", ["C16", "C18"], ["E1"], rep1(S + "f2_algebra.py", "    return np.array(out, dtype=np.int8).reshape((len(out), cols))\n", "    return np.array(out)\n"), "repaired kernel dtype reverted (F3)"),
    ("m62b", ["C16"], ["E1"], rep1(S + "find_local_clifford_layer.py", "repeat=rank)], dtype=np.int8)", "repeat=rank)])"), "repaired candidate dtype reverted (F4)"),
    ("m63a", ["C17"], ["T2"], table_first(D + "stabilizer4-star.txt", lambda l, t: l.replace("cz0,1", "cy0,1", 1) if "cz0,1" in l else None), "unknown gate"),
    ("m63b", ["C17"], ["T3"], table_first(D + "stabilizer4-star.txt", lambda l, t: l.replace("h1", "h4", 1) if "h1" in l else None), "index out of range"),
    ("m63c", ["C17"], ["T1"], rep1(D + "stabilizer4-star.txt", "\n", "\n0:0:0:h0 h1 h2 h3\n", count=0) if False else (lambda tree: {D + "stabilizer4-star.txt": tree.read(D + "stabilizer4-star.txt").rstrip("\n") + "\n0:0:0:h0 h1 h2 h3\n"}), "extra line"),
    ("m64", ["C19"], ["K10"], rep1(S + "graph.py", "                if id & (1 << index):\n                    graph.add_edge(i, j)\n                index += 1", "                if id & (1 << index):\n                    graph.add_edge(i, j)\n                    index += 1"), "counter moved under the if"),
    ("m65", ["C19"], ["K11", "K10"], rep1(S + "graph.py", "        self.adjacency_matrix[vertex1, vertex2] = 1\n        self.adjacency_matrix[vertex2, vertex1] = 1\n", "        self.adjacency_matrix[vertex1, vertex2] = 1\n"), "symmetric store removed"),
    ("m66", ["C17"], ["K3", "T1"], rep1(S + "lc_classes.py", "_start_indices = [0, 1, 4, 5]", "_start_indices = [0, 1, 4, 6]"), "class count in the code"),
    ("m67", ["C13"], ["A7"], rep1(S + "stabilizer_circuits.py", "    lc_class_id = lc_classes.determine_lc_class(stabilizer).id()\n", "    lc_class_id = lc_classes.determine_lc_class(stabilizer).id()\n    import random\n    if random.random() < 0.0:\n        lc_class_id = 0\n"), "nondeterminism source"),
    ("m68", ["C13"], ["A4"], rep1(S + "stabilizer.py", "        n = self.num_qubits\n        RS = np.concatenate([self.R, self.S])\n        rank = f2.rank(RS)", "        n = self.num_qubits\n        self.R %= 2\n        RS = np.concatenate([self.R, self.S])\n        rank = f2.rank(RS)") if False else
        rep1(S + "f2_algebra.py", "    m, n = A.shape  # m: rows, n: cols\n    A = A % 2\n", "    m, n = A.shape  # m: rows, n: cols\n    A %= 2\n"), "rref reduces its argument in place"),
]

MUST_FIRE += [
    ("m69", ["C08"], ["G2"], rep1(S + "stabilizer_circuits.py", "    assert_connectivity_is_supported(stabilizer.num_qubits, connectivity)\n\n    lc_class_id", "    try:\n        assert_connectivity_is_supported(stabilizer.num_qubits, connectivity)\n    except AssertionError:\n        pass\n\n    lc_class_id") if False else
        multi(rep1(S + "stabilizer_circuits.py", "    assert_connectivity_is_supported(stabilizer.num_qubits, connectivity)\n\n    lc_class_id", "    try:\n        assert_connectivity_is_supported(stabilizer.num_qubits, connectivity)\n    except AssertionError:\n        pass\n\n    lc_class_id"),
              rep1(S + "stabilizer_circuits.py", "    assert_connectivity_is_supported(stabilizer.num_qubits, connectivity)\n    return _get_preparation_circuit_modulo_phase(stabilizer, connectivity).inverse()", "    return _get_preparation_circuit_modulo_phase(stabilizer, connectivity).inverse()")), "gate's exception swallowed"),
    ("m70", ["C13"], ["A3"], rep1(S + "circuit_lookup.py", "result.circuits = [circuit.copy() for circuit in self.circuits]", "result.circuits = [copy.copy(circuit) for circuit in self.circuits]"), "shallow copies of the cached circuits"),
    ("m71", ["C09"], ["W9"], rep1(S + "mub_circuits.py", "return circuit_lookup.mub_circuit_lookup(num_qubits, connectivity).circuits", "return [c for c in circuit_lookup.mub_circuit_lookup(num_qubits, connectivity).circuits if len(c.data) > 0]"), "identity circuit filtered out of the list"),
    ("m73", ["C13"], ["A3", "A5"], multi(rep1(S + "circuit_lookup.py", "def parse_circuit(num_qubits: int, circuit_string: str) -> QuantumCircuit:", "@functools.lru_cache(maxsize=None)\ndef parse_circuit(num_qubits: int, circuit_string: str) -> QuantumCircuit:"), rep1(S + "circuit_lookup.py", "import copy\n", "import copy\nimport functools\n")), "loader memoised with lru_cache, result handed out uncopied"),
    ("m74", ["C13"], ["A3"], multi(rep1(S + "mub_circuits.py", "    mub_info = circuit_lookup.mub_circuit_lookup(num_qubits, connectivity)\n    info = {}", "    if (num_qubits, connectivity) in _info_memo:\n        return _info_memo[(num_qubits, connectivity)]\n    mub_info = circuit_lookup.mub_circuit_lookup(num_qubits, connectivity)\n    info = {}"),
                                         rep1(S + "mub_circuits.py", "    info[\"average two-qubit count\"] = mub_info.total_cost / info[\"num circuits\"]\n    return info", "    info[\"average two-qubit count\"] = mub_info.total_cost / info[\"num circuits\"]\n    _info_memo[(num_qubits, connectivity)] = info\n    return dict(info)"),
                                         rep1(S + "mub_circuits.py", "def get_mub_info(", "_info_memo = {}\n\n\ndef get_mub_info(")), "memo: first call returns a copy, later calls the cached dictionary itself"),
    ("m75", ["C13"], ["A2"], multi(rep1(S + "mub_circuits.py", "    mub_info = circuit_lookup.mub_circuit_lookup(num_qubits, connectivity)\n    info = {}", "    if num_qubits in _info_memo:\n        return dict(_info_memo[num_qubits])\n    mub_info = circuit_lookup.mub_circuit_lookup(num_qubits, connectivity)\n    info = {}"),
                                         rep1(S + "mub_circuits.py", "    info[\"average two-qubit count\"] = mub_info.total_cost / info[\"num circuits\"]\n    return info", "    info[\"average two-qubit count\"] = mub_info.total_cost / info[\"num circuits\"]\n    _info_memo[num_qubits] = info\n    return dict(info)"),
                                         rep1(S + "mub_circuits.py", "def get_mub_info(", "_info_memo = {}\n\n\ndef get_mub_info(")), "memo keyed without the connectivity"),
    ("m76", ["C13"], ["A2"], multi(rep1(S + "stabilizer_circuits.py", "    lc_class_id = lc_classes.determine_lc_class(stabilizer).id()\n", "    key = (stabilizer.num_qubits, stabilizer.R.tobytes(), stabilizer.S.tobytes())\n    cached_circuit = _circuit_cache.get(key)\n    if cached_circuit is not None:\n        return cached_circuit.copy()\n    lc_class_id = lc_classes.determine_lc_class(stabilizer).id()\n"),
                                         rep1(S + "stabilizer_circuits.py", "    return single_qubit_gate_canceller.run(circuit) # type: ignore\n", "    circuit = single_qubit_gate_canceller.run(circuit) # type: ignore\n    _circuit_cache[key] = circuit\n    return circuit.copy()\n"),
                                         rep1(S + "stabilizer_circuits.py", "def _get_preparation_circuit_modulo_phase(", "_circuit_cache = {}\n\n\ndef _get_preparation_circuit_modulo_phase(")), "circuit cache keyed without the connectivity (dict.get idiom)"),
    ("m77", ["C09"], ["W8"], multi(rep1(S + "circuit_lookup.py", "        header = lines[0]\n        info = header.split(\":\")\n        assert len(info) == 3, \"Invalid MUB file\"\n        self.total_cost = int(info[0])\n        self.max_cost = int(info[1])\n        self.max_depth = int(info[2])\n", "        header = MUBHeader.parse(lines[0])\n        self.total_cost = header.total_cost\n        self.max_cost = header.max_cost\n        self.max_depth = header.max_depth\n"),
                                         rep1(S + "circuit_lookup.py", "class MUBInfo:", "class MUBHeader(NamedTuple):\n    total_cost: int\n    max_depth: int\n    max_cost: int\n\n    @classmethod\n    def parse(cls, line: str) -> \"MUBHeader\":\n        fields = line.split(\":\")\n        assert len(fields) == len(cls._fields), \"Invalid MUB file\"\n        return cls(*(int(field) for field in fields))\n\n\nclass MUBInfo:"),
                                         rep1(S + "circuit_lookup.py", "from typing import List\n", "from typing import List, NamedTuple\n")), "header parsed into a NamedTuple whose field order differs from the file format"),
    ("m78", ["C04", "C07"], ["P6"], multi(rep1(S + "stabilizer_circuits.py", "    lc_class_id = lc_classes.determine_lc_class(stabilizer).id()\n", "    lc_class_id = lc_classes.determine_lc_class(stabilizer).id()\n    if lc_class_id == 1:\n        return _product_circuit(stabilizer)\n"),
                                         rep1(S + "stabilizer_circuits.py", "def _get_preparation_circuit_modulo_phase(", "def _product_circuit(stabilizer):\n    qc = QuantumCircuit(stabilizer.num_qubits)\n    for q in range(stabilizer.num_qubits):\n        if stabilizer.R[q, q]:\n            qc.h(q)\n    return qc\n\n\ndef _get_preparation_circuit_modulo_phase(")), "table bypassed for a class whose cost is not 0"),
    ("m79", ["C13"], ["A1"], multi(rep1(S + "graph.py", "    @staticmethod\n    def decompress(num_vertices: int, id: int) -> \"Graph\":", "    @staticmethod\n    @functools.lru_cache(maxsize=None)\n    def decompress(num_vertices: int, id: int) -> \"Graph\":"), rep1(S + "graph.py", "import numpy as np\n", "import numpy as np\nimport functools\n")), "public factory memoised: callers share one mutable graph"),
    ("m80", ["C13"], ["A1"], multi(rep1(S + "stabilizer.py", "            self.R = np.zeros((self.num_qubits, self.num_qubits), dtype=np.int8)\n            self.S = np.zeros((self.num_qubits, self.num_qubits), dtype=np.int8)\n", "            self.R, self.S = _zero_blocks(self.num_qubits)\n"),
                                         rep1(S + "stabilizer.py", "class Stabilizer:", "@functools.lru_cache(maxsize=None)\ndef _zero_blocks(n):\n    return np.zeros((n, n), dtype=np.int8), np.zeros((n, n), dtype=np.int8)\n\n\nclass Stabilizer:"),
                                         rep1(S + "stabilizer.py", "import numpy as np\n", "import numpy as np\nimport functools\n")), "memoised arrays stored in the object without a copy"),
    ("m81", ["C19"], ["K12"], rep1(S + "graph.py", "        result = self.copy()\n        result.local_complementation(vertex)\n        return result", "        nb = self.adjacency_matrix[vertex]\n        return Graph(self.adjacency_matrix ^ np.outer(nb, nb))"), "copying local complementation without clearing the diagonal"),
    ("m82", ["C11"], ["W1"], rep1(S + "tomography.py", "        self.qubits = measured_qubits\n", "        self.qubits = tuple(sorted(measured_qubits)) if measured_qubits is not None else None\n"), "fitter stores the measured qubits sorted"),
    ("m83", ["C11"], ["B2"], multi(rep1(S + "tomography.py", "            for key, value in counts.items():\n                key = key.replace(\" \", \"\")  # might contain spaces to separate registers\n", "            for key, value in marginal_counts(counts, list(qubits)).items():\n"),
                                         rep1(S + "tomography.py", "                # keys are little-endian (qubit q is at position -1-q) and so is the stored bitstring\n                key = \"\".join(key[-1 - index] for index in reversed(qubits))\n", ""),
                                         rep1(S + "tomography.py", "from qiskit.result import Result\n", "from qiskit.result import Result, marginal_counts\n")), "marginalisation delegated to marginal_counts (sorts the indices)"),
    ("m84", ["C08"], ["NI2"], rep1(S + "stabilizer.py", "        RS = np.concatenate([self.R, self.S])\n        rank = f2.rank(RS)", "        RS = np.concatenate([self.R, self.S])\n        rank = f2.rank(np.concatenate([self.R, self.S, self.phases.reshape(1, n)]))"), "rank of the validity check taken over signs as well"),
    ("m85", ["C16"], ["K7"], rep1(S + "find_local_clifford_layer.py", "        elif c == [0, 1, 1, 0]:  # H\n            qc.h(i)", "        elif c == [0, 1, 1, 0]:  # H\n            qc.h(0)"), "gate of qubit i lands on qubit 0"),
    ("m86", ["C16"], ["K6"], rep1(S + "find_local_clifford_layer.py", "c2 = row[i*4+2] | row[i*4+3]", "c2 = row[2] | row[3]"), "filter looks at qubit 0's coefficients for every qubit"),
    ("m87", ["C11"], ["W11"], rep1(S + "tomography.py", "circuit_result = CircuitResult(counts, qubits)  # type: ignore", "circuit_result = CircuitResult(counts)  # type: ignore"), "marginalisation skipped in the fitter"),
    ("m88", ["C13"], ["A4"], rep1(S + "stabilizer.py", "            if self.R.dtype != np.int8:\n                self.R = self.R.astype(np.int8)\n            if self.S.dtype != np.int8:\n                self.S = self.S.astype(np.int8)\n        elif isinstance(data, list):", "            if self.R.dtype != np.int8:\n                self.R = self.R.astype(np.int8)\n            if self.S.dtype != np.int8:\n                self.S = self.S.astype(np.int8)\n            self.R &= 1\n            self.S &= 1\n        elif isinstance(data, list):"), "matrix branch of the constructor reduces the caller's int8 arrays in place"),
    ("m89", ["C08"], ["G6"], multi(rep1(S + "tomography.py", "    num_qubits = preparation_circuit.num_qubits if measured_qubits is None else len(measured_qubits)\n", "    _check_connectivity_name(connectivity)\n    num_qubits = preparation_circuit.num_qubits if measured_qubits is None else len(measured_qubits)\n"), rep1(S + "tomography.py", "Bitstring = np.int64\n", "Bitstring = np.int64\nConnectivity = Literal[\"all\", \"linear\", \"star\", \"cycle\", \"T\", \"Q\"]\n\n\ndef _check_connectivity_name(connectivity: str):\n    if connectivity not in get_args(Connectivity):\n        raise ValueError(f\"Unknown connectivity '{connectivity}'\")\n"), rep1(S + "tomography.py", "from typing import Dict, List, Literal, Optional, Sequence, Tuple, Union\n", "from typing import Dict, List, Literal, Optional, Sequence, Tuple, Union, get_args\n")), "early name check against a Literal that lacks the 6-qubit connectivities"),
    ("m90", ["C08"], ["G6"], rep1(S + "tomography.py", "    num_qubits = preparation_circuit.num_qubits if measured_qubits is None else len(measured_qubits)\n", "    if not is_connectivity_supported(preparation_circuit.num_qubits, connectivity):\n        raise ValueError(\"unsupported\")\n    num_qubits = preparation_circuit.num_qubits if measured_qubits is None else len(measured_qubits)\n") if False else
        multi(rep1(S + "tomography.py", "    num_qubits = preparation_circuit.num_qubits if measured_qubits is None else len(measured_qubits)\n", "    if not is_connectivity_supported(preparation_circuit.num_qubits, connectivity):\n        raise ValueError(\"unsupported\")\n    num_qubits = preparation_circuit.num_qubits if measured_qubits is None else len(measured_qubits)\n"),
              rep1(S + "tomography.py", "from .mub_circuits import get_mub_circuits\n", "from .mub_circuits import get_mub_circuits\nfrom .connectivity_support import is_connectivity_supported\n")), "early validation on the register size instead of the number of measured qubits"),
    ("m91", ["C11"], ["H1"], multi(rep1(S + "tomography.py", "    expectation_value: int = 0\n    total_count: int = 0\n    for result in circuit_result.results:", "    histogram = np.zeros(2**circuit_result.num_qubits)\n    for result in circuit_result.results:\n        histogram[result.bitstring] = result.count\n    expectation_value: int = 0\n    total_count: int = 0\n    for result in circuit_result.results:")), "outcome histogram filled by overwriting"),
    ("m92", ["C10", "C12"], ["W4"], rep1(S + "tomography.py", "            pauli = z_pauli.evolve(inverse_circuit, frame=\"s\") # evolve backwards through circuit\n            pauli.phase = 0\n\n            z_pauli = pauli.evolve(readout_circuit, frame=\"s\") # evolve back to get sign\n            assert z_pauli.phase == 2 or z_pauli.phase == 0\n\n            expectation_value = _compute_expectation_value(circuit_result, Bitstring(i))\n            expectation_values[pauli] = expectation_value * (1 if z_pauli.phase == 0 else -1)\n", "            pauli = z_pauli.evolve(inverse_circuit, frame=\"s\")\n            pauli.phase = 0\n            sign = 1 if pauli.phase == 0 else -1\n            expectation_value = _compute_expectation_value(circuit_result, Bitstring(i))\n            expectation_values[pauli] = expectation_value * sign\n"), "single-evolve form that reads the sign after the phase was reset"),
    ("m93", ["C16"], ["K6"], on_seed("R7-c", rep1(S + "find_local_clifford_layer.py", "        if from_first_pair ^ from_second_pair == 0:", "        if from_first_pair | from_second_pair == 0:")), "helper-based search (R7-c) whose validity predicate accepts a selection from both pairs"),
    ("m94", ["C16"], ["K6", "K9"], on_seed("R7-c", rep1(S + "find_local_clifford_layer.py", "    for coefficients in itertools.product([0, 1], repeat=basis.shape[0]):", "    for coefficients in list(itertools.product([0, 1], repeat=basis.shape[0]))[:-1]:")), "helper-based search (R7-c) whose span generator leaves out the sum of all kernel rows"),
    ("m96", ["C16"], ["K9"], on_seed("R7-c", rep1(S + "find_local_clifford_layer.py", "    for coefficients in itertools.product([0, 1], repeat=basis.shape[0]):\n", "    for coefficients in itertools.product([0, 1], repeat=basis.shape[0]):\n        if len(coefficients) > 1 and all(coefficients):\n            continue\n")), "helper-based search (R7-c) whose span generator skips the sum of ALL kernel rows when there are several"),
    ("m97", ["C08"], ["G6"], rep1(S + "mub_circuits.py", "    assert_connectivity_is_supported(num_qubits, connectivity)\n    return circuit_lookup.mub_circuit_lookup(num_qubits, connectivity).circuits", "    assert_connectivity_is_supported(connectivity, num_qubits)\n    return circuit_lookup.mub_circuit_lookup(num_qubits, connectivity).circuits"), "support gate asked with its arguments swapped: every valid request is refused"),
    ("m98", ["C09"], ["W10"], rep1(S + "mub_circuits.py", "    return circuit_lookup.mub_circuit_lookup(num_qubits, connectivity).mubs", "    return circuit_lookup.mub_circuit_lookup(connectivity, num_qubits).mubs"), "get_mubs asks the table accessor with its arguments swapped (every valid request dies with FileNotFoundError; no passing test calls get_mubs)"),
    ("m99", ["C16"], ["K6"], rep1(S + "find_local_clifford_layer.py", "    m = R.shape[1]", "    m = R.shape[0]"), "number of operators read from the wrong axis: right for full stabilizers, raises for fewer operators than qubits"),
    ("m100", ["C03", "C09"], ["K1"], rep1(S + "circuit_lookup.py", "                qc.cx(qubits[0], qubits[1])", "                qc.cx(qubits[1], qubits[0])"), "loader swaps control and target of cx"),
    ("m101", ["C11"], ["B3"], rep1(S + "tomography.py", "        if qubits is None or not full_hilbert_space:", "        if not (qubits is None or not full_hilbert_space):"), "early return of the m-qubit result inverted"),
    ("m102", ["C11"], ["B3"], rep1(S + "tomography.py", "            new_key: Pauli = full_identity.copy()", "            new_key: Pauli = full_identity"), "full-register keys all write into the shared template"),
    ("m103", ["C11"], ["B3"], rep1(S + "tomography.py", 'full_identity = Pauli("I" * self.readout_info.total_num_qubits)', 'full_identity = Pauli("I" * num_qubits)'), "identity template of the measured size instead of the register size"),
    ("m104", ["C10", "C12"], ["S1"], rep1(S + "tomography.py", "expectation_value * (1 if z_pauli.phase == 0 else -1)", "expectation_value // (1 if z_pauli.phase == 0 else -1)"), "estimate floor-divided by the sign instead of multiplied"),
    ("m105", ["C10", "C12"], ["S1"], rep1(S + "tomography.py", "            assert z_pauli.phase == 2 or z_pauli.phase == 0", "            assert z_pauli.phase == 2 or z_pauli.phase != 0"), "phase assertion rejects the + sign"),
    ("m106", ["C10"], ["W3"], rep1(S + "tomography.py", "            expectation_values.update(stabilizer_fitter.expectation_values(full_hilbert_space=full_hilbert_space))", "            stabilizer_fitter.expectation_values(full_hilbert_space=full_hilbert_space)"), "per-circuit expectation values computed but never merged"),
    ("m107", ["C14"], ["K13"], rep1(S + "stabilizer.py", "            ZX, ZZ = data[0], data[1]", "            ZX, ZZ = data[1], data[0]"), "matrix form: X and Z parts exchanged"),
    ("m108", ["C08"], ["G4"], rep1(S + "rotate_stabilizer_into_state.py", "    if used < num_qubits and not allow_underconstrained:", "    if used < num_qubits and allow_underconstrained:"), "underconstrained check inverted inside the synthesis: by default nothing is rejected"),
    ("m109", ["C08"], ["G4"], rep1(S + "rotate_stabilizer_into_state.py", "            if curr_stab.z.any() and not allow_redundant:", "            if False and curr_stab.z.any() and not allow_redundant:"), "redundancy check switched off"),
    ("m110", ["C10"], ["W2"], rep1(S + "tomography.py", '        circuit.metadata["readout info"] = ReadoutInfo(readout_circuit, preparation_circuit.num_qubits, measured_qubits)', '        circuit.metadata["readout info"] = ReadoutInfo(preparation_circuit.num_qubits, readout_circuit, measured_qubits)'), "readout record built with circuit and register width exchanged"),
    ("m111", ["C10", "C11"], ["W2", "W1"], rep1(S + "tomography.py", "        circuit.measure_all()\n        if circuit.metadata is None:", "        if circuit.metadata is None:"), "tomography circuits are never measured"),
    ("m112", ["C11"], ["W11"], rep1(S + "tomography.py", "        circuit_result = CircuitResult(counts, qubits)  # type: ignore", "        circuit_result = CircuitResult(qubits, qubits)  # type: ignore"), "counts parser fed with the qubit list instead of the counts"),
    ("m113", ["C10", "C12"], ["W5"], rep1(S + "tomography.py", "            z_pauli = z_pauli_from_bitstring(num_qubits, i)", "            z_pauli = z_pauli_from_bitstring(counts, i)"), "Z mask built with the counts dictionary as width"),
    ("m114", ["C10", "C12"], ["W14"], rep1(S + "tomography.py", "        return full_expectation_values", "        return None"), "embedded expectation values computed but not returned"),
    ("m115", ["C11"], ["B3"], rep1(S + "tomography.py", "            for index, qubit in enumerate(qubits):\n                new_key[qubit] = key[index]\n", "            new_key.z[list(qubits)] = key.z\n            new_key.x[list(qubits)] = key.x\n"), "re-embedding through the z/x arrays only: the phase unit of every Y factor is lost"),
    ("m116", ["C04", "C17"], ["K2"], rep1(S + "circuit_lookup.py", "        self.depth = int(components[2])", "        self.depth = int(min(components[1:3]))"), "depth clamped by a string comparison of the two columns"),
    ("m117", ["C18"], ["K17b"], rep1(S + "f2_algebra.py", "    return len(rref(A)[1])", "    return int(np.trace(rref(A)[0]))"), "rank read off the diagonal of the reduced matrix"),
    ("m118", ["C18"], ["K18"], rep1(S + "f2_algebra.py", "    return len(rref(A)[1])", "    return int(np.argmin(rref(A)[0].any(axis=1)))"), "rank as index of the first zero row: 0 when there is none"),
    ("m119", ["C18"], ["K18"], rep1(S + "f2_algebra.py", "    cols = A.shape[1]\n\n    out = []", "    cols = A.shape[1]\n    if len(pivot_cols) in (0, cols):\n        return np.zeros((0, cols), dtype=np.int8)\n    out = []"), "empty kernel basis also for the zero matrix"),
    ("m120", ["C16"], ["K6"], rep1(S + "find_local_clifford_layer.py", "    assert gamma.shape[0] == gamma.shape[1] and R.shape == S.shape and R.shape[0] == gamma.shape[0]", "    assert R.shape == S.shape == gamma.shape"), "shape assertion demands as many operators as qubits"),
    ("m121", ["C14"], ["E2"], rep1(S + "graph.py", "        for vertex1, vertex2 in self.get_edges():\n            qc.cz(vertex1, vertex2)", "        for vertex1, vertex2 in np.argwhere(self.adjacency_matrix):\n            qc.cz(vertex1, vertex2)"), "every cz of the graph-state circuit emitted twice (both orientations of the symmetric matrix)"),
    ("m122", ["C07"], ["B5"], rep1(S + "rotate_stabilizer_into_state.py", "target = synth_circuit_from_stabilizers(target.to_list(qiskit_convention=True))", "target = synth_circuit_from_stabilizers(target.to_list())"), "strict synthesis fed with library-order strings"),
    ("m123", ["C07"], ["A9"], rep1(S + "stabilizer_circuits.py", "    optimized_circuit = _get_preparation_circuit_modulo_phase(Stabilizer(circuit), connectivity)", "    if not circuit:\n        raise ValueError(\"no circuit\")\n    optimized_circuit = _get_preparation_circuit_modulo_phase(Stabilizer(circuit), connectivity)"), "zero-gate circuit rejected by a truth-value test"),
    ("m124", ["C18"], ["K19"], rep1(S + "f2_algebra.py", "                A[i, :] = (A[i, :] + A[i, k]*A[h, :]) % 2", "                A[i, :] = A[i, :] + A[i, k]*A[h, :]"), "row update without the reduction modulo 2"),
    ("m125", ["C09"], ["W9"], rep1(S + "mub_circuits.py", "    return circuit_lookup.mub_circuit_lookup(num_qubits, connectivity).mubs", "    return circuit_lookup.mub_circuit_lookup(num_qubits, connectivity).circuits"), "get_mubs hands out the circuits"),
    ("m126", ["C09"], ["K20"], rep1(S + "circuit_lookup.py", "        for line in lines[1:]:\n            if len(line) == 0:", "        for line in lines[2:]:\n            if len(line) == 0:"), "MUB record skips the first basis line"),
    ("m127", ["C10"], ["S3"], rep1(S + "tomography.py", "    density_matrix = np.zeros(shape=[2**num_qubits, 2**num_qubits], dtype=np.complex128)", "    density_matrix = np.ones(shape=[2**num_qubits, 2**num_qubits], dtype=np.complex128)"), "density matrix accumulated on top of an all-ones array"),
    ("m128", ["C10"], ["U1"], rep1(S + "tomography.py", "        for index, circuit in enumerate(self.circuits):", "        for index, circuit in enumerate(self.mubs):"), "fitter reads an attribute nobody defines"),
    ("m129", ["C18"], ["K18"], rep1(S + "f2_algebra.py", "    for i in range(cols):\n        if i not in pivot_cols:", "    for i in range(1, cols):\n        if i not in pivot_cols:"), "column 0 never considered as a free column"),
    ("m130", ["C12"], ["B1"], rep1(S + "tomography.py", "    return Pauli((np.array([bool(int(x)) for x in l]), np.zeros(num_qubits, dtype=bool)))", "    return Pauli((np.array([bool((bitstring >> (num_qubits - 1 - j)) & 1) for j in range(num_qubits)]), np.zeros(num_qubits, dtype=bool)))"), "mask bits taken from the other end (shift form)"),
    ("m131", ["C09"], ["W9"], rep1(S + "circuit_lookup.py", "        result.mubs = [list(mub) for mub in self.mubs]", "        result.mubs = (list(mub) for mub in self.mubs)"), "bases handed out as a one-shot generator"),
    ("m132", ["C10"], ["W3"], rep1(S + "tomography.py", "        counts = self.result.get_counts()\n        if isinstance(counts, list):\n            counts = counts[self.result_index]", "        counts = self.result.get_counts(circuit)"), "counts looked up by circuit name instead of by the stored index"),
    ("m133", ["C10"], ["W2", "W1"], rep1(S + "tomography.py", "        circuit: QuantumCircuit = preparation_circuit.compose(readout_circuit, qubits=measured_qubits)  # type: ignore\n        circuit.measure_all()\n        if circuit.metadata is None:\n            circuit.metadata = {}\n        circuit.metadata[\"readout info\"] = ReadoutInfo(readout_circuit, preparation_circuit.num_qubits, measured_qubits)\n\n        circuits.append(circuit)", "        circuit: QuantumCircuit = preparation_circuit.compose(readout_circuit, qubits=measured_qubits)  # type: ignore\n        circuit.measure_active()\n        if circuit.metadata is None:\n            circuit.metadata = {}\n        circuit.metadata[\"readout info\"] = ReadoutInfo(readout_circuit, preparation_circuit.num_qubits, measured_qubits)\n\n        circuits.append(circuit)"), "tomography circuits measured with measure_active"),
    ("m134", ["C16"], ["K9"], rep1(S + "find_local_clifford_layer.py", "    combinations = np.arange(2**rank)\n", "    combinations = np.arange(2**rank, dtype=np.uint16)\n"), "16-bit counter for up to 2^24 combinations"),
    ("m135", ["C13"], ["A10"], rep1(S + "graph.py", "    def compress(self) -> int:", "    def compress(self) -> int:\n        if getattr(self, \"_id\", None) is not None:\n            return self._id\n        self._id = self._compress()\n        return self._id\n\n    def _compress(self) -> int:"), "graph id remembered on the instance, never reset (static form of m95)"),
    ("m136", ["C10", "C12"], ["S2"], rep1(S + "tomography.py", "        if (s & result.bitstring).bit_count() & 1:", "        overlap = int(s & result.bitstring)\n        overlap ^= overlap >> 2\n        overlap ^= overlap >> 1\n        if overlap & 1:"), "parity by xor-folding that forgets bits 4 and 5"),
    ("m137", ["C11"], ["W15"], rep1(S + "tomography.py", "            expectation_values.update(stabilizer_fitter.expectation_values(full_hilbert_space=full_hilbert_space))", "            expectation_values.update(stabilizer_fitter.expectation_values())"), "mode flag not handed on to the per-circuit fitter"),
    ("m138", ["C11"], ["B3"], rep1(S + "tomography.py", "        if qubits is None or not full_hilbert_space:\n            return expectation_values", "        if qubits is None or not full_hilbert_space or len(qubits) == self.readout_info.total_num_qubits:\n            return expectation_values"), "embedding skipped for a permuted full-length qubit list"),
    ("m139", ["C14"], ["K4"], rep1(S + "stabilizer.py", "        content = \"','\".join(self.to_list())", "        content = \"','\".join(pauli.lstrip(\"+-\") for pauli in self.to_list())"), "printed form drops the signs"),
    ("m140", ["C16"], ["E1"], rep1(S + "find_local_clifford_layer.py", "    combinations = np.array([i for i in itertools.product([0, 1], repeat=rank)], dtype=np.int8)", "    combinations = np.array(list(itertools.product([0, 1], repeat=rank)))"), "untyped combination table: float64 when the kernel is empty"),
    ("m141", ["C02", "C07"], ["W16"], rep1(S + "stabilizer_circuits.py", "def compress_preparation_circuit(\n        circuit: QuantumCircuit,\n        connectivity:", "def compress_preparation_circuit(\n        circuit: QuantumCircuit,\n        validate: bool = False,\n        connectivity:"), "parameter inserted in front of connectivity: documented positional calls bind elsewhere"),
    ("m142", ["C13"], ["A1"], multi(rep1(S + "mub_circuits.py", "        connectivity: Literal[\"all\", \"linear\", \"star\", \"cycle\", \"T\",  \"Q\"]\n) -> dict:", "        connectivity: Literal[\"all\", \"linear\", \"star\", \"cycle\", \"T\",  \"Q\"],\n        info: dict = {}\n) -> dict:"), rep1(S + "mub_circuits.py", "    info = {}\n", "")), "result dictionary is a mutable default argument"),
    ("m143", ["C10", "C11"], ["B3"], rep1(S + "tomography.py", "            new_key: Pauli = full_identity.copy()", "            new_key = Pauli(full_identity)"), "every key adopts the arrays of the template Pauli"),
    ("m144", ["C11"], ["B3"], rep1(S + "tomography.py", "                new_key[qubit] = key[index]", "                new_key[qubit] = key.to_label()[index]"), "factor read from the label (highest qubit first) at the list position"),
    ("m145", ["C19"], ["K11"], rep1(S + "graph.py", "        if vertex1 == vertex2:", "        if vertex1 is vertex2:"), "self-loop guard by object identity"),
    ("m146", ["C18"], ["K19b"], rep1(S + "f2_algebra.py", "        result = (A % 2).astype(np.int8)", "        result = (A % 2).view(np.int8)"), "bytes re-read as int8 instead of converted"),
    ("m95", ["C19"], ["K12"], rep1(S + "graph.py", "    def compress(self) -> int:", "    def compress(self) -> int:\n        if getattr(self, \"_id\", None) is not None:\n            return self._id\n        self._id = self._compress()\n        return self._id\n\n    def _compress(self) -> int:"), "graph id remembered by the object and never invalidated"),
    ("m72", ["C13"], ["A3"], rep1(S + "circuit_lookup.py", "result.circuits = [circuit.copy() for circuit in self.circuits]", "result.circuits = list(self.circuits)"), "fresh list of the cached circuits"),
]

MUST_STAY_SILENT = [
    # id, properties to run, edit, exit 2 tolerated?, note
    ("s37", ["C10", "C12"], rep1(S + "tomography.py", "        if (s & result.bitstring).bit_count() & 1:", "        overlap = int(s & result.bitstring)\n        overlap ^= overlap >> 4\n        overlap ^= overlap >> 2\n        overlap ^= overlap >> 1\n        if overlap & 1:"), False, "parity by complete xor-folding of a 6-bit overlap"),
    ("s36", ["C10", "C12"], rep1(S + "tomography.py", "    return Pauli((np.array([bool(int(x)) for x in l]), np.zeros(num_qubits, dtype=bool)))", "    return Pauli((np.array([bool((bitstring >> j) & 1) for j in range(num_qubits)]), np.zeros(num_qubits, dtype=bool)))"), False, "mask bits by shifting: position j = bit j"),
    ("s35", ["C18"], rep1(S + "f2_algebra.py", "    cols = A.shape[1]\n\n    out = []", "    cols = A.shape[1]\n    if not pivot_cols:\n        return np.identity(cols, dtype=np.int8)\n    out = []"), False, "zero matrix: the whole space, handed out early"),
    ("s34", ["C18"], rep1(S + "f2_algebra.py", "    return len(rref(A)[1])", "    return int(np.count_nonzero(rref(A)[0].any(axis=1)))"), False, "rank as the number of non-zero rows of the reduced matrix"),
    ("s33", ["C18"], rep1(S + "f2_algebra.py", "    cols = A.shape[1]\n\n    out = []", "    cols = A.shape[1]\n    if len(pivot_cols) == cols:\n        return np.zeros((0, cols), dtype=np.int8)\n    out = []"), False, "early empty basis exactly when every column is a pivot column"),
    ("s32", ["C04", "C17"], rep1(S + "circuit_lookup.py", "        self.depth = int(components[2])", "        self.depth = min(int(components[2]), max(int(components[1]), int(components[2])))"), False, "depth computed, equal to its column on every shipped line"),
    ("s31", ["C18"], rep1(S + "f2_algebra.py", "    while h < m and k < n:\n        found = False\n        i = h\n        while not found and i < m:\n            if A[i, k] == 1:", "    while h <= m - 1 and k < n:\n        found = False\n        i = h\n        while not found and i < m:\n            if A[i, k] == 1:"), False, "cursor bound written as h <= m - 1: the same bound"),
    ("s29", ["C02", "C03", "C04", "C09", "C17"], rep1(S + "circuit_lookup.py", "                qc.cz(qubits[0], qubits[1])", "                qc.cz(qubits[1], qubits[0])"), False, "operands of the symmetric cz given in the other order: the same gate"),
    ("s30", ["C02", "C04"], rep1(S + "circuit_lookup.py", "                qc.cx(qubits[0], qubits[1])", "                qc.cx(qubits[1], qubits[0])"), False, "cx direction swapped: breaks the state (C03/C09: m100), not coupling or cost"),
    ("s01", ["C02", "C03", "C04", "C08", "C09", "C10", "C11", "C12", "C13", "C14", "C16", "C18", "C19"], _reformat, False, "comments / blank lines added everywhere"),
    ("s02", ["C02", "C03", "C04", "C07"], multi(rep1(S + "stabilizer_circuits.py", "    circuit = _get_preparation_circuit_modulo_phase(stabilizer, connectivity)\n    return rotate_stabilizer_into_state(circuit, stabilizer, inplace=True)", "    qc_mod_phase = _get_preparation_circuit_modulo_phase(stabilizer, connectivity)\n    return rotate_stabilizer_into_state(qc_mod_phase, stabilizer, inplace=True)")), False, "local renamed"),
    ("s03", ["C13", "C02", "C04"], rep1(S + "circuit_lookup.py", "    try:\n        circuitInfos = stabilizer_file_cache[filename]\n    except KeyError:\n        lines = pkg_resources.read_text(data, filename).split(\"\\n\")\n        circuitInfos = [StabilizerCircuitInfo(num_qubits, line) for line in filter(lambda x: len(x) != 0, lines)]\n        stabilizer_file_cache[filename] = circuitInfos\n", "    if filename not in stabilizer_file_cache:\n        lines = pkg_resources.read_text(data, filename).split(\"\\n\")\n        stabilizer_file_cache[filename] = [StabilizerCircuitInfo(num_qubits, line) for line in filter(lambda x: len(x) != 0, lines)]\n    circuitInfos = stabilizer_file_cache[filename]\n"), True, "cache idiom as membership test"),
    ("s05", ["C02", "C03", "C04", "C13"], rep1(S + "stabilizer_circuits.py", "return rotate_stabilizer_into_state(circuit, stabilizer, inplace=True)", "return rotate_stabilizer_into_state(circuit, stabilizer, inplace=False)"), False, "inplace False: two return objects"),
    ("s06", ["C14"], rep1(S + "graph.py", "        for vertex1, vertex2 in self.get_edges():\n            qc.cz(vertex1, vertex2)\n", "        edges = self.get_edges()\n        if len(edges) > 0:\n            qc.cz(*zip(*edges))\n"), False, "guarded zip"),
    ("s07", ["C11"], rep1(S + "tomography.py", 'key = "".join(key[-1 - index] for index in reversed(qubits))', 'key = "".join(key[::-1][q] for q in qubits[::-1])'), False, "alternative correct spelling"),
    ("s08", ["C02", "C08"], rep1(S + "connectivity_support.py", "        graph.add_path([0, 1, 2])\n        graph.add_path([3, 4, 5])\n", "        graph.add_edge(0, 1)\n        graph.add_edge(1, 2)\n        graph.add_edge(3, 4)\n        graph.add_edge(5, 4)\n"), False, "H built with add_edge"),
    ("s09", ["C10", "C12"], multi(rep1(S + "tomography.py", 'pauli = z_pauli.evolve(inverse_circuit, frame="s")', 'pauli = z_pauli.evolve(readout_circuit, frame="h")'), rep1(S + "tomography.py", 'z_pauli = pauli.evolve(readout_circuit, frame="s")', 'z_pauli = pauli.evolve(inverse_circuit, frame="h")')), False, "Heisenberg spelling of the same conjugations"),
    ("s10", ["C08", "C09"], rep1(S + "mub_circuits.py", "    assert_connectivity_is_supported(num_qubits, connectivity)\n    return circuit_lookup.mub_circuit_lookup(num_qubits, connectivity).mubs", "    return circuit_lookup.mub_circuit_lookup(num_qubits, connectivity).mubs"), False, "gate removed from get_mubs only (no stray MUB file)"),
    ("s11", ["C08"], rep1(S + "rotate_stabilizer_into_state.py", "target = synth_circuit_from_stabilizers(target.to_list(qiskit_convention=True))", "target = synth_circuit_from_stabilizers(target.to_list(qiskit_convention=True), allow_redundant=True)"), False, "allow_redundant alone"),
    ("s12", ["C03", "C04"], multi(rep1(S + "stabilizer_circuits.py", "    lc_class_id = lc_classes.determine_lc_class(stabilizer).id()\n", "    lc_class_id = lc_classes.determine_lc_class(stabilizer).id()\n    logging.debug(\"%s %s\", stabilizer.phases, lc_class_id)\n"), rep1(S + "stabilizer_circuits.py", "from typing import Literal\n", "from typing import Literal\nimport logging\n")), False, "debug line reading the signs"),
    ("s13", ["C02", "C04", "C17", "C05"], (lambda tree: {D + "stabilizer3-linear.txt": tree.read(D + "stabilizer3-linear.txt").replace(" h", "  h", 3).rstrip("\n") + "\n\n"}), False, "doubled spaces and blank line at the end"),
    ("s14", ["C16", "C18"], rep1(S + "f2_algebra.py", "    return np.array(out, dtype=np.int8).reshape((len(out), cols))\n", "    if len(out) == 0:\n        return np.zeros((0, cols), dtype=np.int8)\n    return np.array(out)\n"), False, "explicit typed guard"),
    ("s04", ["C13", "C02", "C09"], multi(rep1(S + "circuit_lookup.py", "        mubInfo = MUBInfo(num_qubits, lines)\n", "        mubInfo = _load_mub(num_qubits, filename)\n"), rep1(S + "circuit_lookup.py", "mub_file_cache = {}\n", "mub_file_cache = {}\n\n\n@functools.lru_cache(maxsize=None)\ndef _load_mub(num_qubits, filename):\n    return MUBInfo(num_qubits, pkg_resources.read_text(data, filename).split(\"\\n\"))\n"), rep1(S + "circuit_lookup.py", "import copy\n", "import copy\nimport functools\n")), False, "loader behind lru_cache, callers still copy"),
    ("s17", ["C13", "C09"], multi(rep1(S + "mub_circuits.py", "    mub_info = circuit_lookup.mub_circuit_lookup(num_qubits, connectivity)\n    info = {}", "    if (num_qubits, connectivity) in _info_memo:\n        return dict(_info_memo[(num_qubits, connectivity)])\n    mub_info = circuit_lookup.mub_circuit_lookup(num_qubits, connectivity)\n    info = {}"),
                                         rep1(S + "mub_circuits.py", "    info[\"average two-qubit count\"] = mub_info.total_cost / info[\"num circuits\"]\n    return info", "    info[\"average two-qubit count\"] = mub_info.total_cost / info[\"num circuits\"]\n    _info_memo[(num_qubits, connectivity)] = info\n    return dict(info)"),
                                         rep1(S + "mub_circuits.py", "def get_mub_info(", "_info_memo = {}\n\n\ndef get_mub_info(")), False, "correct memo: complete key, copies on both paths"),
    ("s18", ["C13", "C02", "C04"], multi(rep1(S + "stabilizer_circuits.py", "    lc_class_id = lc_classes.determine_lc_class(stabilizer).id()\n", "    key = (stabilizer.num_qubits, connectivity, stabilizer.R.tobytes(), stabilizer.S.tobytes())\n    cached_circuit = _circuit_cache.get(key)\n    if cached_circuit is not None:\n        return cached_circuit.copy()\n    lc_class_id = lc_classes.determine_lc_class(stabilizer).id()\n"),
                                         rep1(S + "stabilizer_circuits.py", "    return single_qubit_gate_canceller.run(circuit) # type: ignore\n", "    circuit = single_qubit_gate_canceller.run(circuit) # type: ignore\n    _circuit_cache[key] = circuit\n    return circuit.copy()\n"),
                                         rep1(S + "stabilizer_circuits.py", "def _get_preparation_circuit_modulo_phase(", "_circuit_cache = {}\n\n\ndef _get_preparation_circuit_modulo_phase(")), False, "correct circuit cache: complete key, copies on both paths"),
    ("s19", ["C09", "C13"], multi(rep1(S + "circuit_lookup.py", "        header = lines[0]\n        info = header.split(\":\")\n        assert len(info) == 3, \"Invalid MUB file\"\n        self.total_cost = int(info[0])\n        self.max_cost = int(info[1])\n        self.max_depth = int(info[2])\n", "        header = MUBHeader.parse(lines[0])\n        self.total_cost = header.total_cost\n        self.max_cost = header.max_cost\n        self.max_depth = header.max_depth\n"),
                                         rep1(S + "circuit_lookup.py", "class MUBInfo:", "class MUBHeader(NamedTuple):\n    total_cost: int\n    max_cost: int\n    max_depth: int\n\n    @classmethod\n    def parse(cls, line: str) -> \"MUBHeader\":\n        fields = line.split(\":\")\n        assert len(fields) == len(cls._fields), \"Invalid MUB file\"\n        return cls(*(int(field) for field in fields))\n\n\nclass MUBInfo:"),
                                         rep1(S + "circuit_lookup.py", "from typing import List\n", "from typing import List, NamedTuple\n")), False, "header parsed into a correctly ordered NamedTuple"),
    ("s20", ["C04", "C07", "C02"], multi(rep1(S + "stabilizer_circuits.py", "    lc_class_id = lc_classes.determine_lc_class(stabilizer).id()\n", "    lc_class_id = lc_classes.determine_lc_class(stabilizer).id()\n    if lc_class_id == 0:\n        return _product_circuit(stabilizer)\n"),
                                         rep1(S + "stabilizer_circuits.py", "def _get_preparation_circuit_modulo_phase(", "def _product_circuit(stabilizer):\n    qc = QuantumCircuit(stabilizer.num_qubits)\n    for q in range(stabilizer.num_qubits):\n        if stabilizer.R[q, q]:\n            qc.h(q)\n    return qc\n\n\ndef _get_preparation_circuit_modulo_phase(")), False, "class-0 fast path: cost and connectivity unaffected (state correctness is not C04/C02)"),
    ("s21", ["C13"], multi(rep1(S + "lc_classes.py", "def index_of_first_set_bit(bitstring: int):", "@functools.lru_cache(maxsize=None)\ndef index_of_first_set_bit(bitstring: int) -> int:"), rep1(S + "lc_classes.py", "import itertools\n", "import itertools\nimport functools\n")), False, "memoised pure function returning an int"),
    ("s24", ["C02", "C04", "C07"], rep1(S + "circuit_lookup.py", "            if instruction[1] == 'x':\n                qc.cx(qubits[0], qubits[1])\n            elif instruction[1] == 'z':\n                qc.cz(qubits[0], qubits[1])\n            else:\n                assert False, \"Invalid instruction name\"", "            assert instruction[1] in 'xz', \"Invalid instruction name\"\n            getattr(qc, instruction[:2])(qubits[0], qubits[1])"), True, "loader dispatches through getattr: outside the vocabulary, must end in exit 2, never in an alarm"),
    ("s25", ["C07"], rep1(S + "stabilizer.py", "            if self.R.dtype != np.int8:\n                self.R = self.R.astype(np.int8)\n            if self.S.dtype != np.int8:\n                self.S = self.S.astype(np.int8)\n        elif isinstance(data, list):", "            if self.R.dtype != np.int8:\n                self.R = self.R.astype(np.int8)\n            if self.S.dtype != np.int8:\n                self.S = self.S.astype(np.int8)\n            self.R &= 1\n            self.S &= 1\n        elif isinstance(data, list):"), False, "the in-place reduction happens only in the tuple branch: a circuit passed to compress is not touched (C07 holds, C13 does not)"),
    ("s26", ["C08", "C02"], multi(rep1(S + "tomography.py", "    num_qubits = preparation_circuit.num_qubits if measured_qubits is None else len(measured_qubits)\n", "    _check_connectivity_name(connectivity)\n    num_qubits = preparation_circuit.num_qubits if measured_qubits is None else len(measured_qubits)\n"), rep1(S + "tomography.py", "Bitstring = np.int64\n", "Bitstring = np.int64\nConnectivity = Literal[\"all\", \"linear\", \"star\", \"cycle\", \"T\", \"Q\", \"E\", \"H\", \"ladder\"]\n\n\ndef _check_connectivity_name(connectivity: str):\n    if connectivity not in get_args(Connectivity):\n        raise ValueError(f\"Unknown connectivity '{connectivity}'\")\n"), rep1(S + "tomography.py", "from typing import Dict, List, Literal, Optional, Sequence, Tuple, Union\n", "from typing import Dict, List, Literal, Optional, Sequence, Tuple, Union, get_args\n")), False, "early name check against the complete list of names"),
    ("s27", ["C11", "C10"], multi(rep1(S + "tomography.py", "    expectation_value: int = 0\n    total_count: int = 0\n    for result in circuit_result.results:", "    histogram = np.zeros(2**circuit_result.num_qubits)\n    for result in circuit_result.results:\n        histogram[result.bitstring] += result.count\n    expectation_value: int = 0\n    total_count: int = 0\n    for result in circuit_result.results:")), True, "outcome histogram filled by scalar += (accumulates); the extra loop is outside S2's vocabulary (exit 2 tolerated), H1 must stay silent"),
    ("s28", ["C10", "C12"], rep1(S + "tomography.py", "            pauli = z_pauli.evolve(inverse_circuit, frame=\"s\") # evolve backwards through circuit\n            pauli.phase = 0\n\n            z_pauli = pauli.evolve(readout_circuit, frame=\"s\") # evolve back to get sign\n            assert z_pauli.phase == 2 or z_pauli.phase == 0\n\n            expectation_value = _compute_expectation_value(circuit_result, Bitstring(i))\n            expectation_values[pauli] = expectation_value * (1 if z_pauli.phase == 0 else -1)\n", "            pauli = z_pauli.evolve(inverse_circuit, frame=\"s\")\n            sign = 1 if pauli.phase == 0 else -1\n            pauli.phase = 0\n            expectation_value = _compute_expectation_value(circuit_result, Bitstring(i))\n            expectation_values[pauli] = expectation_value * sign\n"), False, "single-evolve form: sign = phase of the pulled-back Pauli, read before the reset"),
    ("s16", ["C09", "C13", "C02"], rep1(S + "mub_circuits.py", "return circuit_lookup.mub_circuit_lookup(num_qubits, connectivity).circuits", "return [c for c in circuit_lookup.mub_circuit_lookup(num_qubits, connectivity).circuits]"), False, "identity comprehension"),
    ("s15", ["C13"], rep1(S + "graph.py", "    def copy(self):\n        result = Graph(self.num_vertices)", "    def copy(self):\n        # fresh object\n        result = Graph(self.num_vertices)"), False, "comment"),
]


def _run_one(args):
    kind, mid, pid, root = args
    from .main import run_property
    from .report import AnalysisError as AE
    entry = next(e for e in (MUST_FIRE if kind == "fire" else MUST_STAY_SILENT) if e[0] == mid)
    edit = entry[3] if kind == "fire" else entry[2]
    base = Tree(root)
    try:
        ov = edit(base)
    except FileNotFoundError:
        ov = None
    if ov is None:
        return (kind, mid, pid, "skipped", "anchor text not present in this tree")
    try:
        rep, _ = run_property(pid, "quick", root, overlay=ov, quiet=True)
        new = rep.new_findings()
        if not new and rep.below_floor():
            raise AE(f"rule {rep.below_floor()[0]} below floor")
    except AE as e:
        if kind == "fire":
            return (kind, mid, pid, "error", f"ANALYSIS-ERROR {str(e)[:200]}")
        return (kind, mid, pid, "error-tolerated" if entry[3] else "error", f"ANALYSIS-ERROR {str(e)[:200]}")
    except Exception as e:   # noqa
        import traceback
        return (kind, mid, pid, "error", "internal: " + traceback.format_exc()[-400:])
    if kind == "fire":
        want = set(entry[2])
        got = [f for f in new if f.rule in want]
        if got:
            return (kind, mid, pid, "detected", f"{got[0].rule}: {got[0].what[:160]}")
        return (kind, mid, pid, "missed", f"expected one of {sorted(want)}, new findings: {[(f.rule, f.key) for f in new][:4]}")
    if new:
        return (kind, mid, pid, "false-alarm", f"{[(f.rule, f.key) for f in new][:4]}")
    return (kind, mid, pid, "silent", "")


def seeded_expectations():
    """seeded/EXPECTED.json: {seed id: {property: 'violation' | 'pass' | 'refused'}} - the outcome each check is
    pinned to on each independently seeded change (reviewed by hand; regenerated with tools/seed_expect.py)"""
    import json
    p = os.path.join(os.path.dirname(os.path.dirname(os.path.abspath(__file__))), "seeded", "EXPECTED.json")
    if not os.path.exists(p):
        return {}
    return json.load(open(p))


def _run_seed(args):
    sid, pid, root, want = args
    from .main import run_property
    from .report import AnalysisError as AE
    from .udiff import apply_patch
    base = os.path.join(os.path.dirname(os.path.dirname(os.path.abspath(__file__))), "seeded", sid, "patch.diff")
    ov = apply_patch(Tree(root), open(base).read())
    if ov is None:
        return ("seed", sid, pid, "skipped", "patch does not apply to this tree")
    try:
        rep, _ = run_property(pid, "quick", root, overlay=ov, quiet=True)
        new = rep.new_findings()
        if not new and rep.below_floor():
            raise AE(f"rule {rep.below_floor()[0]} below floor")
        got = "violation" if new else "pass"
        msg = f"{new[0].rule}: {new[0].what[:150]}" if new else ""
    except AE as e:
        got, msg = "refused", f"ANALYSIS-ERROR {str(e)[:160]}"
    except Exception:
        import traceback
        return ("seed", sid, pid, "error", "internal: " + traceback.format_exc()[-300:])
    if sid.startswith("R") and got == "violation":
        return ("seed", sid, pid, "false-alarm", f"behaviour-preserving refactoring reported as a violation: {msg}")
    if want is None:
        return ("seed", sid, pid, "observed:" + got, msg)
    if got == want:
        return ("seed", sid, pid, "detected" if got == "violation" else "silent", f"[{got}] {msg}")
    return ("seed", sid, pid, "missed" if want == "violation" else "false-alarm" if got == "violation" else "changed", f"pinned outcome {want}, got {got}: {msg}")


def jobs_for(pid=None):
    js = []
    for e in MUST_FIRE:
        for p in e[1]:
            if pid is None or p == pid:
                js.append(("fire", e[0], p))
    for e in MUST_STAY_SILENT:
        for p in e[1]:
            if pid is None or p == pid:
                js.append(("silent", e[0], p))
    return js


def seed_jobs(pid=None, root="/repo"):
    out = []
    for sid, per in sorted(seeded_expectations().items()):
        for p, want in sorted(per.items()):
            if pid is None or p == pid:
                out.append((sid, p, root, want))
    return out


def run_jobs(js, root, seeds=()):
    import shutil
    import tempfile
    # scratch directory for the evaluation memo (rules_k._memo), shared by the workers of this run only
    cache = tempfile.mkdtemp(prefix="sa-eval-cache-")
    old = {k: os.environ.get(k) for k in ("SA_EVAL_CACHE", "SA_NO_POOL")}
    os.environ["SA_EVAL_CACHE"] = cache
    os.environ["SA_NO_POOL"] = "1"
    try:
        with concurrent.futures.ProcessPoolExecutor(max_workers=min(16, os.cpu_count() or 4)) as ex:
            a = list(ex.map(_run_one, [j + (root,) for j in js]))
            b = list(ex.map(_run_seed, list(seeds)))
    finally:
        for k, v in old.items():
            if v is None:
                os.environ.pop(k, None)
            else:
                os.environ[k] = v
        shutil.rmtree(cache, ignore_errors=True)
    return a + b


def summarise(results):
    out = {"ran": len(results), "detected": 0, "silent": 0, "skipped": [], "missed": [], "details": []}
    for (kind, mid, pid, status, msg) in results:
        out["details"].append({"id": mid, "kind": kind, "property": pid, "status": status, "message": msg})
        if status == "detected":
            out["detected"] += 1
        elif status in ("silent", "error-tolerated") or status.startswith("observed:"):
            out["silent"] += 1
        elif status == "skipped":
            out["skipped"].append(f"{mid}/{pid}")
        else:
            out["missed"].append(f"{mid}/{pid}: {status}: {msg}")
    return out


def run_for_property(pid, root):
    return summarise(run_jobs(jobs_for(pid), root, seed_jobs(pid, root)))


def main(root):
    res = run_jobs(jobs_for(None), root, seed_jobs(None, root))
    s = summarise(res)
    for d in s["details"]:
        print(f"{d['status']:>16}  {d['id']:<5} {d['property']}  {d['message'][:170]}")
    print(f"ran {s['ran']}: detected {s['detected']}, silent {s['silent']}, skipped {len(s['skipped'])}, problems {len(s['missed'])}")
    return 2 if s["missed"] else 0
