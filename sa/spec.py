"""Specification tables transcribed ONCE from the property statements (properties.jsonl),
never derived from the code under analysis."""
from __future__ import annotations

ADVERTISED = [
    (2, "all"),
    (3, "all"), (3, "linear"),
    (4, "all"), (4, "linear"), (4, "star"), (4, "cycle"),
    (5, "all"), (5, "linear"), (5, "star"), (5, "cycle"), (5, "T"), (5, "Q"),
    (6, "all"), (6, "linear"), (6, "star"), (6, "ladder"), (6, "E"), (6, "H"), (6, "Q"),
]
assert len(ADVERTISED) == 20 and len(set(ADVERTISED)) == 20

CLASS_COUNT = {2: 2, 3: 5, 4: 18, 5: 93, 6: 760}

CONNECTIVITY_NAMES = ["all", "linear", "star", "cycle", "T", "Q", "E", "H", "ladder"]


def _e(*pairs):
    return frozenset(frozenset(p) for p in pairs)


def edges(n: int, c: str) -> frozenset:
    """Documented coupling graph of C02's statement as a set of 2-element frozensets."""
    chain = [(i, i + 1) for i in range(n - 1)]
    if c == "all":
        return _e(*[(i, j) for i in range(n) for j in range(i + 1, n)])
    if c == "linear":                       # chain 0-1-..-(n-1)
        return _e(*chain)
    if c == "star":                         # centred on qubit 0
        return _e(*[(0, i) for i in range(1, n)])
    if c == "cycle":
        return _e(*chain, (n - 1, 0))
    if c == "T":                            # 4-3-0-{1,2}
        return _e((4, 3), (3, 0), (0, 1), (0, 2))
    if c == "Q":                            # chain plus edge (n-1, n-4)
        return _e(*chain, (n - 1, n - 4))
    if c == "ladder":                       # 6-cycle plus (1,4)
        return _e(*chain, (n - 1, 0), (1, 4))
    if c == "E":                            # 3-0-1-2-5 plus (1,4)
        return _e((3, 0), (0, 1), (1, 2), (2, 5), (1, 4))
    if c == "H":                            # 0-1-2 and 3-4-5 plus (1,4)
        return _e((0, 1), (1, 2), (3, 4), (4, 5), (1, 4))
    raise KeyError((n, c))


def fmt_edges(es) -> str:
    return " ".join("%d-%d" % tuple(sorted(e)) for e in sorted(es, key=lambda e: tuple(sorted(e))))


# documented graph-id bit layout (5x5 example of the file format specification / compress docstring)
DOC_LAYOUT_5 = {(0, 1): 0, (0, 2): 1, (0, 3): 2, (0, 4): 3, (1, 2): 4, (1, 3): 5, (1, 4): 6, (2, 3): 7, (2, 4): 8, (3, 4): 9}


def bit_of_edge(n: int, i: int, j: int) -> int:
    """rank of (i,j), i<j, in row-major upper-triangular order"""
    return i * n - i * (i + 1) // 2 + (j - i - 1)


TWO_QUBIT = {"cx", "cz", "swap"}
ONE_QUBIT = {"h", "s", "sdg"}
GATE_COST = {"cx": 1, "cz": 1, "swap": 3}
