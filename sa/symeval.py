"""Concrete evaluation of the interpreter's symbolic condition keys under an assignment of the
request parameters (used by G6: can a raise path be taken by a VALID request for an advertised pair?)."""
from __future__ import annotations
from . import consteval


class Unknown(Exception):
    pass


class WouldRaise(Exception):
    """evaluating the condition on these concrete request values raises (e.g. '<' between str and int)"""


CMP = {"cmpEq": lambda a, b: a == b, "cmpNotEq": lambda a, b: a != b, "cmpLt": lambda a, b: a < b, "cmpLtE": lambda a, b: a <= b,
       "cmpGt": lambda a, b: a > b, "cmpGtE": lambda a, b: a >= b, "cmpIn": lambda a, b: a in b, "cmpNotIn": lambda a, b: a not in b}
BIN = {"binAdd": lambda a, b: a + b, "binSub": lambda a, b: a - b, "binMult": lambda a, b: a * b, "binPow": lambda a, b: a ** b,
       "binFloorDiv": lambda a, b: a // b, "binMod": lambda a, b: a % b}


def concretize(k, env, ce: consteval.CE):
    """value of key k; env maps exact keys to values; raises Unknown"""
    if k in env:
        return env[k]
    if not isinstance(k, tuple) or not k:
        if isinstance(k, (int, str, bool, float, type(None))):
            return k
        raise Unknown(repr(k))
    h = k[0]
    if h == "const":
        return k[2]
    if h in CMP and len(k) == 3:
        a, b = concretize(k[1], env, ce), concretize(k[2], env, ce)
        try:
            return CMP[h](a, b)
        except TypeError as ex:
            if all(isinstance(x, (int, str, bool, float, tuple, list)) for x in (a, b)):
                raise WouldRaise(f"TypeError: {ex}")
            raise Unknown("uncomparable")
    if h in BIN and len(k) == 3:
        return BIN[h](concretize(k[1], env, ce), concretize(k[2], env, ce))
    if h == "not":
        return not concretize(k[1], env, ce)
    if h == "and":
        return all(concretize(x, env, ce) for x in k[1:])
    if h == "or":
        return any(concretize(x, env, ce) for x in k[1:])
    if h == "is":
        return concretize(k[1], env, ce) is concretize(k[2], env, ce)
    if h == "isnot":
        return concretize(k[1], env, ce) is not concretize(k[2], env, ce)
    if h == "literal":
        return tuple(concretize(x, env, ce) for x in k[1:])
    if h == "tuple":
        return tuple(concretize(x, env, ce) for x in k[1:])
    if h == "ext:typing.get_args":
        return concretize(k[1], env, ce)
    if h == "len":
        v = concretize(k[1], env, ce)
        try:
            return len(v)
        except TypeError:
            raise Unknown("len")
    if h == "call" and isinstance(k[1], str):
        args = [concretize(x, env, ce) for x in k[2:]]
        try:
            return ce.call(k[1], *args)
        except consteval.CERaise as ex:
            return ("raises", ex.etype)
        except Exception as ex:       # Unsupported etc.
            raise Unknown(str(ex))
    raise Unknown(repr(k)[:80])


def decision_holds(dkey, val, env, ce):
    """does decision (dkey -> val) hold under env?  True / False / raises Unknown"""
    kind = dkey[0]
    if kind == "truth":
        v = concretize(dkey[1], env, ce)
        if isinstance(v, tuple) and v and v[0] == "raises":
            raise Unknown("condition raises")
        return bool(v) == val
    if kind == "isnone":
        v = concretize(dkey[1], env, ce)
        return (v is None) == val
    if kind == "cache-miss":
        return True        # either way is possible in some history
    raise Unknown(kind)
