"""Independent grammar and lints for the lookup-table files (generated source artifacts).

entry   := int ':' int ':' int ':' ops            (stabilizer files, one per class id)
header  := int ':' int ':' int                     (mub files, first line)
basis   := pauli (',' pauli)* ':' ops              (mub files)
ops     := (op | ' ')*
op      := ('h'|'s'|'sdg') digits | ('cx'|'cz'|'swap') digits ',' digits

The line/field splitting mirrors what the loader tolerates (split on '\n', empty lines skipped,
empty tokens between repeated spaces skipped); the token grammar is stricter than the loader
(which silently drops 'hs..' tokens and accepts 'swap1,2,3'): the property (C17) speaks about
the documented vocabulary, and K1 shows the loader agrees with this grammar on it.
No table circuit is ever simulated: the rules are counting, scheduling, membership, GF(2)
arithmetic on the basis literals, and a per-qubit abstract interpretation (L1).
"""
from __future__ import annotations
import re
from . import spec
from .report import AnalysisError

OP_RE = re.compile(r"^(?:(h|sdg|s)(\d+)|(cx|cz|swap)(\d+),(\d+))$")
FILE_RE = re.compile(r"^(stabilizer|mub)(\d+)-(.+)\.txt$")
INT_RE = re.compile(r"^\d+$")
PAULI_RE = re.compile(r"^[+-]?[IXYZ]+$")


class Op:
    __slots__ = ("name", "qubits", "idx", "text")

    def __init__(self, name, qubits, idx, text):
        self.name, self.qubits, self.idx, self.text = name, qubits, idx, text

    @property
    def two(self):
        return len(self.qubits) == 2


class Line:
    """One circuit-bearing line; `problems` lists grammar violations (rule, message)."""

    def __init__(self, file, lineno, index, raw):
        self.file, self.lineno, self.index, self.raw = file, lineno, index, raw
        self.problems: list[tuple[str, str]] = []
        self.ops: list[Op] = []
        self.graph_id = self.cost = self.depth = None
        self.paulis: list[str] | None = None

    def where(self):
        return f"{self.file}:{self.lineno}"


def parse_ops(line: Line, text: str, n: int):
    for idx, tok in enumerate(t for t in text.split(" ") if t != ""):
        m = OP_RE.match(tok)
        if not m:
            line.problems.append(("T2", f"token #{idx} '{tok}' is not in the documented gate vocabulary"))
            continue
        if m.group(1):
            op = Op(m.group(1), (int(m.group(2)),), idx, tok)
        else:
            op = Op(m.group(3), (int(m.group(4)), int(m.group(5))), idx, tok)
            if op.qubits[0] == op.qubits[1]:
                line.problems.append(("T2", f"token #{idx} '{tok}' has identical operands"))
        for q in op.qubits:
            if q >= n:
                line.problems.append(("T3", f"token #{idx} '{tok}' uses qubit index {q} >= n = {n}"))
        line.ops.append(op)


class TableFile:
    def __init__(self, rel, kind, n, conn, text):
        self.rel, self.kind, self.n, self.conn = rel, kind, n, conn
        self.name = rel.rsplit("/", 1)[-1]
        self.lines: list[Line] = []
        self.header = None
        self.header_problems: list[tuple[str, str]] = []
        raw_lines = text.split("\n")
        if kind == "stabilizer":
            idx = 0
            for ln, raw in enumerate(raw_lines, 1):
                if len(raw) == 0:
                    continue
                L = Line(self.name, ln, idx, raw)
                idx += 1
                comps = raw.split(":")
                if len(comps) != 4:
                    L.problems.append(("T3", f"{len(comps)} ':'-separated fields, 4 required (the loader asserts this)"))
                else:
                    ok = True
                    for k, nm in ((0, "graph id"), (1, "cost"), (2, "depth")):
                        if not INT_RE.match(comps[k]):
                            L.problems.append(("T3", f"{nm} field '{comps[k]}' is not a decimal integer"))
                            ok = False
                    if ok:
                        L.graph_id, L.cost, L.depth = int(comps[0]), int(comps[1]), int(comps[2])
                    parse_ops(L, comps[3], n)
                self.lines.append(L)
        else:
            hdr = raw_lines[0] if raw_lines else ""
            comps = hdr.split(":")
            if len(comps) != 3 or not all(INT_RE.match(c) for c in comps):
                self.header_problems.append(("T8", f"header '{hdr}' is not total:max:maxdepth"))
            else:
                self.header = tuple(int(c) for c in comps)
            idx = 0
            for ln, raw in enumerate(raw_lines[1:], 2):
                if len(raw) == 0:
                    continue
                L = Line(self.name, ln, idx, raw)
                idx += 1
                comps = raw.split(":")
                if len(comps) != 2:
                    L.problems.append(("T7", f"{len(comps)} ':'-separated fields, 2 required (the loader unpacks exactly two)"))
                else:
                    L.paulis = comps[0].split(",")
                    if len(L.paulis) != n:
                        L.problems.append(("T7", f"{len(L.paulis)} Pauli strings, n = {n} required"))
                    for p in L.paulis:
                        if not PAULI_RE.match(p) or len(p.lstrip("+-")) != n:
                            L.problems.append(("T7", f"'{p}' is not an optionally signed string of {n} characters over IXYZ"))
                    parse_ops(L, comps[1], n)
                self.lines.append(L)


def load_tables(tree) -> list[TableFile]:
    out = []
    for rel in tree.glob("src/htstabilizer/data", "*.txt"):
        m = FILE_RE.match(rel.rsplit("/", 1)[-1])
        if not m:
            continue
        out.append(TableFile(rel, m.group(1), int(m.group(2)), m.group(3), tree.read(rel)))
    if not out:
        raise AnalysisError("no table files found under src/htstabilizer/data (anchor vanished)")
    return out


# ---------------------------------------------------------------------------------------------
# counting rules


def counted_cost(ops) -> int:
    return sum(spec.GATE_COST[o.name] for o in ops if o.two)


def scheduled_depth(ops, n) -> int:
    """longest chain of two-qubit gates sharing a qubit, swap = 3; single-qubit gates neither
    count nor block"""
    level = {}
    for o in ops:
        if o.two:
            a, b = o.qubits
            lv = max(level.get(a, 0), level.get(b, 0)) + spec.GATE_COST[o.name]
            level[a] = level[b] = lv
    return max(level.values(), default=0)


def adjacent_cancellable(ops, names) -> list[tuple[Op, Op]]:
    """T10: pairs of identical two-qubit gates of a class in `names` adjacent on both operands
    (ordered operands for cx, unordered for cz/swap) with nothing in between on either qubit."""
    out = []
    last = {}
    for o in ops:
        if o.two and o.name in names:
            a, b = o.qubits
            pa, pb = last.get(a), last.get(b)
            if pa is not None and pa is pb and pa.two and pa.name == o.name:
                same = (pa.qubits == o.qubits) if o.name == "cx" else (set(pa.qubits) == set(o.qubits))
                if same:
                    out.append((pa, o))
        for q in o.qubits:
            last[q] = o
    return out


# ---------------------------------------------------------------------------------------------
# L1: per-qubit abstract interpretation from |0...0>
Z, X, Y, TOP = "Z", "X", "Y", "T"
_H = {Z: X, X: Z, Y: Y, TOP: TOP}
_S = {Z: Z, X: Y, Y: X, TOP: TOP}


def removable_gates(ops, n) -> list[tuple[Op, str]]:
    """Two-qubit gates that provably act on a product operand (hence replaceable by fewer
    two-qubit gates).  Domain per qubit: unentangled eigenstate of Z / X / Y, or TOP.
    Sound: the domain only loses information (any 2-qubit gate not flagged sends both
    operands to TOP)."""
    st = [Z] * n
    out = []
    for o in ops:
        if any(q >= n for q in o.qubits):
            continue
        if o.name == "h":
            st[o.qubits[0]] = _H[st[o.qubits[0]]]
        elif o.name in ("s", "sdg"):
            st[o.qubits[0]] = _S[st[o.qubits[0]]]
        elif o.name == "cz":
            a, b = o.qubits
            if st[a] == Z or st[b] == Z:
                which = a if st[a] == Z else b
                out.append((o, f"cz with qubit {which} still an unentangled Z eigenstate acts as identity or a local Z"))
            else:
                st[a] = st[b] = TOP
        elif o.name == "cx":
            c, t = o.qubits
            if st[c] == Z:
                out.append((o, f"cx whose control {c} is an unentangled Z eigenstate acts as identity or a local X"))
            elif st[t] == X:
                out.append((o, f"cx whose target {t} is an unentangled X eigenstate acts as identity or a local Z"))
            else:
                st[c] = st[t] = TOP
        elif o.name == "swap":
            a, b = o.qubits
            if st[a] != TOP or st[b] != TOP:
                which = a if st[a] != TOP else b
                out.append((o, f"swap with qubit {which} in a known product state needs at most 2 two-qubit gates, 3 are charged"))
            st[a], st[b] = st[b], st[a]
    return out


# ---------------------------------------------------------------------------------------------
# T9: GF(2) facts on the basis literals


def pauli_vec(p: str) -> int:
    """(x|z) bit vector of an optionally signed Pauli string, as one integer: bit i = x_i, bit n+i = z_i"""
    s = p.lstrip("+-")
    n = len(s)
    v = 0
    for i, ch in enumerate(s):
        if ch in "XY":
            v |= 1 << i
        if ch in "ZY":
            v |= 1 << (n + i)
    return v


def symplectic(a: int, b: int, n: int) -> int:
    mask = (1 << n) - 1
    ax, az, bx, bz = a & mask, a >> n, b & mask, b >> n
    return (bin(ax & bz).count("1") + bin(az & bx).count("1")) & 1


def span(vecs) -> set[int]:
    s = {0}
    for v in vecs:
        s |= {x ^ v for x in s}
    return s


def gf2_rank(vecs) -> int:
    basis = []
    for v in vecs:
        for b in basis:
            v = min(v, v ^ b)
        if v:
            basis.append(v)
    return len(basis)
