"""Minimal unified-diff applier working on a vfs.Tree (for running the seeded patches as in-memory overlays)."""
from __future__ import annotations
import re

HUNK = re.compile(r"^@@ -(\d+)(?:,(\d+))? \+(\d+)(?:,(\d+))? @@")


def apply_patch(tree, patch_text: str) -> dict | None:
    """returns overlay {rel: new text | None} or None if the patch does not apply to this tree"""
    files = []
    cur = None
    lines = patch_text.split("\n")
    i = 0
    while i < len(lines):
        l = lines[i]
        if l.startswith("--- "):
            old = l[4:].split("\t")[0]
            new = lines[i + 1][4:].split("\t")[0] if i + 1 < len(lines) and lines[i + 1].startswith("+++ ") else None
            cur = {"old": old, "new": new, "hunks": []}
            files.append(cur)
            i += 2
            continue
        m = HUNK.match(l)
        if m and cur is not None:
            h = {"start": int(m.group(1)), "lines": []}
            i += 1
            while i < len(lines) and not lines[i].startswith(("@@", "--- ", "diff ")):
                if lines[i].startswith("\\"):
                    h["lines"].append(("\\", lines[i]))
                elif lines[i] == "" and i == len(lines) - 1:
                    pass
                else:
                    h["lines"].append((lines[i][:1] or " ", lines[i][1:]))
                i += 1
            cur["hunks"].append(h)
            continue
        i += 1
    out = {}
    for f in files:
        rel_old = f["old"][2:] if f["old"].startswith(("a/", "b/")) else f["old"]
        rel_new = f["new"][2:] if f["new"] and f["new"].startswith(("a/", "b/")) else f["new"]
        if f["old"] == "/dev/null":
            src = []
        else:
            if not tree.exists(rel_old):
                return None
            src = tree.read(rel_old).split("\n")
        res = []
        pos = 0
        no_nl_end = False
        for h in f["hunks"]:
            body = [(tag, text) for (tag, text) in h["lines"] if tag != "\\"]
            if any(tag == "\\" for (tag, _t) in h["lines"]):
                no_nl_end = True
            oldblk = [text for (tag, text) in body if tag in (" ", "-")]
            want = max(h["start"] - 1, 0) if oldblk else max(h["start"], 0)
            # like patch(1): the hunk is looked for at its recorded place, then at growing offsets, then with up to two
            # leading / trailing context lines ignored (the tree may have moved on by a few lines since the patch was made)
            lead = 0
            while lead < len(body) and body[lead][0] == " ":
                lead += 1
            trail = 0
            while trail < len(body) - lead and body[len(body) - 1 - trail][0] == " ":
                trail += 1
            found = None
            for fuzz in range(0, 3):
                for fh in range(0, min(fuzz, lead) + 1):
                    ft = min(fuzz - fh, trail)
                    blk = oldblk[fh:len(oldblk) - ft] if ft else oldblk[fh:]
                    if not blk and oldblk:
                        continue
                    cands = sorted(range(pos, len(src) - len(blk) + 1), key=lambda q: abs(q - (want + fh)))
                    for q in cands:
                        if abs(q - (want + fh)) > 400:
                            break
                        if src[q:q + len(blk)] == blk:
                            found = (q - fh, fh, ft)
                            break
                    if found:
                        break
                if found:
                    break
            if found is None:
                return None
            start, fh, ft = found
            start = max(start, pos)
            res.extend(src[pos:start])
            pos = start
            n_body = len(body)
            for k, (tag, text) in enumerate(body):
                ignored = (k < fh) or (k >= n_body - ft)
                if tag == " ":
                    if pos < len(src) and (src[pos] == text or ignored):
                        res.append(src[pos])
                        pos += 1
                    elif ignored:
                        continue
                    else:
                        return None
                elif tag == "-":
                    if pos >= len(src) or src[pos] != text:
                        return None
                    pos += 1
                elif tag == "+":
                    res.append(text)
        res.extend(src[pos:])
        text = "\n".join(res)
        if f["old"] == "/dev/null" and not no_nl_end and res:
            text += "\n"
        if f["new"] == "/dev/null":
            out[rel_old] = None
        else:
            out[rel_new] = text
    return out
