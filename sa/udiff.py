"""Minimal unified-diff applier working on a vfs.Tree (for running the seeded patches as in-memory overlays)."""
from __future__ import annotations
import re

HUNK = re.compile(r"^@@ -(\d+)(?:,(\d+))? \+(\d+)(?:,(\d+))? @@")


def apply_patch(tree, patch_text: str) -> dict | None:
    """returns overlay {rel: new text | None} or None if the patch does not apply to this tree"""
    files = []
    cur = None
    lines = patch_text.split("\n")
    i = 0
    while i < len(lines):
        l = lines[i]
        if l.startswith("--- "):
            old = l[4:].split("\t")[0]
            new = lines[i + 1][4:].split("\t")[0] if i + 1 < len(lines) and lines[i + 1].startswith("+++ ") else None
            cur = {"old": old, "new": new, "hunks": []}
            files.append(cur)
            i += 2
            continue
        m = HUNK.match(l)
        if m and cur is not None:
            h = {"start": int(m.group(1)), "lines": []}
            i += 1
            while i < len(lines) and not lines[i].startswith(("@@", "--- ", "diff ")):
                if lines[i].startswith("\\"):
                    h["lines"].append(("\\", lines[i]))
                elif lines[i] == "" and i == len(lines) - 1:
                    pass
                else:
                    h["lines"].append((lines[i][:1] or " ", lines[i][1:]))
                i += 1
            cur["hunks"].append(h)
            continue
        i += 1
    out = {}
    for f in files:
        rel_old = f["old"][2:] if f["old"].startswith(("a/", "b/")) else f["old"]
        rel_new = f["new"][2:] if f["new"] and f["new"].startswith(("a/", "b/")) else f["new"]
        if f["old"] == "/dev/null":
            src = []
        else:
            if not tree.exists(rel_old):
                return None
            src = tree.read(rel_old).split("\n")
        res = []
        pos = 0
        no_nl_end = False
        for h in f["hunks"]:
            start = max(h["start"] - 1, 0)
            if start < pos:
                return None
            res.extend(src[pos:start])
            pos = start
            prev = None
            for (tag, text) in h["lines"]:
                if tag == " ":
                    if pos >= len(src) or src[pos] != text:
                        return None
                    res.append(text)
                    pos += 1
                elif tag == "-":
                    if pos >= len(src) or src[pos] != text:
                        return None
                    pos += 1
                elif tag == "+":
                    res.append(text)
                elif tag == "\\":
                    if prev == "+":
                        no_nl_end = True
                prev = tag if tag != "\\" else prev
        res.extend(src[pos:])
        text = "\n".join(res)
        if f["new"] == "/dev/null":
            out[rel_old] = None
        else:
            out[rel_new] = text
    return out
