"""Virtual view of the repository tree: files are read from --root (default /repo),
optionally overlaid in memory (mutant self-tests never copy the tree to disk)."""
from __future__ import annotations
import fnmatch
import hashlib
import os

PKG = "src/htstabilizer"
DATA = "src/htstabilizer/data"


class Tree:
    def __init__(self, root: str = "/repo", overlay: dict | None = None):
        self.root = root
        # overlay: relpath -> str (replacement text) | None (file deleted)
        self.overlay = dict(overlay or {})
        self.consulted: dict[str, str] = {}

    def with_overlay(self, overlay: dict) -> "Tree":
        o = dict(self.overlay)
        o.update(overlay)
        return Tree(self.root, o)

    def exists(self, rel: str) -> bool:
        if rel in self.overlay:
            return self.overlay[rel] is not None
        return os.path.isfile(os.path.join(self.root, rel))

    def read(self, rel: str) -> str:
        if rel in self.overlay:
            t = self.overlay[rel]
            if t is None:
                raise FileNotFoundError(rel)
        else:
            with open(os.path.join(self.root, rel), encoding="utf-8") as f:
                t = f.read()
        self.consulted[rel] = hashlib.sha256(t.encode()).hexdigest()[:16]
        return t

    def listdir(self, rel: str) -> list[str]:
        base = os.path.join(self.root, rel)
        names = set(os.listdir(base)) if os.path.isdir(base) else set()
        pre = rel.rstrip("/") + "/"
        for k, v in self.overlay.items():
            if k.startswith(pre) and "/" not in k[len(pre):]:
                if v is None:
                    names.discard(k[len(pre):])
                else:
                    names.add(k[len(pre):])
        return sorted(names)

    def glob(self, rel_dir: str, pattern: str) -> list[str]:
        return [rel_dir.rstrip("/") + "/" + n for n in self.listdir(rel_dir) if fnmatch.fnmatchcase(n, pattern)]

    def digest(self) -> str:
        h = hashlib.sha256()
        for k in sorted(self.consulted):
            h.update(k.encode())
            h.update(self.consulted[k].encode())
        return h.hexdigest()[:16]
