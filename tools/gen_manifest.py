#!/venv/bin/python
"""Regenerates /verif/MANIFEST.json from the claim table below (kept in one place so that the
manifest, the driver and DESIGN.md do not drift)."""
import json, os, sys
sys.path.insert(0, os.path.dirname(os.path.dirname(os.path.abspath(__file__))))
from sa import claims

V = os.path.dirname(os.path.dirname(os.path.abspath(__file__)))
checks = []
for pid, c in claims.CLAIMS.items():
    if not os.path.exists(os.path.join(V, "sa", "props", pid.lower() + ".py")):
        continue
    checks.append({
        "property_id": pid,
        "quick_cmd": f"./check {pid} --tier quick",
        "thorough_cmd": f"./check {pid} --tier thorough",
        "evidence_file": f"/verif/evidence/{pid}.json",
        "replay_cmd_template": "./check replay {path}",
        "engine": "sa",
        "level_claimed": {"category": "other", "text": c["text"], "design_ref": c["ref"]},
        "level_note": c["note"],
        "technique": c["technique"],
    })
claimed = {c["property_id"] for c in checks}
na = [{"property_id": p, "reason": r} for p, r in claims.NOT_APPLICABLE.items()]
for pid in claims.CLAIMS:
    if pid not in claimed:
        na.append({"property_id": pid, "reason": "planned in DESIGN.md but its check is not built yet in this commit; not claimed until it is"})
m = {
    "version": 1,
    "setup_cmd": "true",
    "hooks": {"guard": "MC_ZEN_HTSTABILIZER_VERIF", "enable": "none needed: static analysis reads the source tree, no instrumentation exists",
              "baseline_off_cmd": "cd /repo && /venv/bin/python -m pytest -ra -q -p no:cacheprovider --timeout=900 --continue-on-collection-errors",
              "source_commits": [], "add_only": True},
    "engines": [{"name": "sa", "path": "/verif/sa", "serves_properties": sorted(claimed),
                 "kind_free_text": "repository-specific static analysis (stdlib ast): table lints, resolved call graph + path rules, circuit-term abstract interpretation, alias/escape analysis, bit-order qualifiers, exact partial evaluation of closed fragments over enumerated finite domains"}],
    "checks": checks,
    "not_applicable": sorted(na, key=lambda d: d["property_id"]),
    "notes": claims.NOTES,
}
json.dump(m, open(os.path.join(V, "MANIFEST.json"), "w"), indent=1)
print("claimed", sorted(claimed)); print("not applicable", [d["property_id"] for d in m["not_applicable"]])
