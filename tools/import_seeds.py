#!/venv/bin/python
"""Copy confirmed seeded changes from the sub-agents' output directory into /verif/seeded/<id>/
(patch.diff, demo.py, notes.md, meta.json).  meta.json = property, what the change is, what it needs to
manifest, what was run to confirm it, and what each check said when the patch was applied to /repo."""
import json
import os
import shutil
import sys

V = os.path.dirname(os.path.dirname(os.path.abspath(__file__)))
SRC = sys.argv[1] if len(sys.argv) > 1 else "/tmp/seed/out"

# (one line: the change) , (what it needs in order to manifest)
INFO = {
 "C02-a": ("stabilizer6-E.txt class 436: cx0,3 replaced by cx4,3 (the matching row of the H table)", "connectivity E on 6 qubits and a stabilizer of LC class 436 (1 of 760 classes)"),
 "C02-b": ("compress_preparation_circuit returns circuit.copy() when the input has fewer two-qubit gates than the tailored result", "a short input circuit entangling qubits that are not adjacent in the requested connectivity (e.g. h0; cx0,3 on 4-linear)"),
 "C02-c": ("tomography builders normalise measured_qubits with Qubit._index (position inside the register, not the circuit)", "measured_qubits given as Qubit objects on a multi-register preparation circuit, a measured qubit outside the first register"),
 "C03-a": ("get_readout_circuit gets a pass stripping trailing diagonal gates that unpacks CX operands as (target, control)", "a connectivity whose table circuits contain CX (star, linear, T, E, H) and a layer ending in S on a qubit that is later only a CX target"),
 "C03-b": ("Graph.decompress memoised with functools.lru_cache", "a caller mutates the graph returned by the public Graph.decompress (e.g. local_complementation) and asks for a readout of the same class again"),
 "C04-a": ("stabilizer5-cycle.txt class 58: circuit replaced by the linear table's (contains a SWAP), cost/depth columns left at 6:3", "5 qubits, cycle, LC class 58: actual two-qubit depth 4 vs recorded 3"),
 "C04-b": ("compress_preparation_circuit returns the input copy if it is cheaper than the lookup circuit", "restricted connectivity and an input cheaper than the table entry because it ignores the connectivity"),
 "C04-c": ("single_qubit_gate_canceller switched to CommutativeInverseCancellation()", "6 qubits, linear, class 69 (`cz4,5 s5 cz4,5`): delivered cost 12 vs metadata 14"),
 "C05-a": ("stabilizer5-Q.txt class 68 replaced by the (correct, self-consistent, costlier) row of stabilizer5-linear.txt", "5 qubits, Q, LC class 68: 5 two-qubit gates where 4 suffice"),
 "C05-b": ("_get_preparation_circuit_modulo_phase caches its result keyed on (n, R bytes, S bytes) - without the connectivity", "the same stabilizer requested first on a sparse, later on a richer connectivity within one process"),
 "C07-a": ("_get_preparation_circuit_modulo_phase caches and returns the cached circuit object itself; callers then rotate it in place", "two calls in one process with the same R, S, connectivity and different signs while the first result is still held"),
 "C07-b": ("stabilizer6-E.txt class 369 replaced by the H table's row (same graph, cost; depth 4): contains cz3,4", "6 qubits, E, LC class 369"),
 "C08-a": ("Stabilizer.validate() takes the GF(2) rank of [R; S; phases] instead of [R; S]", "a redundant generator carrying an inconsistent sign, e.g. ['ZI','-ZI']"),
 "C08-b": ("assert_connectivity_is_supported moved from the shared builder into get_preparation_circuit only", "compress_preparation_circuit(<6-qubit circuit>, 'allx'): the stray table is served"),
 "C08-c": ("sign repair against a Stabilizer implemented as a direct GF(2) solve, no longer through the strict synthesis", "a commuting but dependent generator list passed to get_preparation_circuit"),
 "C09-a": ("mub5-T.txt: adjacent commuting cz gates sorted in four lines, header untouched", "(5, T): bases 10 and 17 now have two-qubit depth 5, header says 4"),
 "C09-b": ("mub_circuit_lookup(copy=False) used by get_mubs, which returns list(cached.mubs)", "a caller edits the inner lists of a get_mubs result in place; later get_mubs calls no longer line up with get_mub_circuits"),
 "C09-c": ("MUB header parsed into a NamedTuple whose fields are declared total, max_depth, max_cost", "get_mub_info in the 13 configurations where max count != max depth"),
 "C10-a": ("ReadoutInfo stores tuple(sorted(measured_qubits))", "measured_qubits given and not ascending, state not symmetric under the exchange"),
 "C10-b": ("MUBInfo.copy returns list(self.circuits) (cached circuit objects shared)", "a caller edits circuits from get_mub_circuits in place, then runs a tomography for the same configuration in the same process"),
 "C11-a": ("CircuitResult marginalisation delegated to qiskit.result.marginal_counts (sorts the indices)", "a measured_qubits list that is not ascending"),
 "C11-b": ("Pauli re-embedding replaced by a vectorised helper that gathers where it must scatter", "full_hilbert_space=True and a placement permutation that is not an involution, e.g. [1,2] of 3"),
 "C12-a": ("readout info written into preparation_circuit.metadata or {} and that dict assigned to the new circuit", "a preparation circuit with non-empty metadata and two measurement circuits built from it before the first is evaluated"),
 "C12-b": ("class-0 fast path _get_product_state_circuit reading qubit q's basis from R[q,q], S[q,q]", "a fully separable stabilizer whose generators are reordered or products, e.g. ['IY','XI']"),
 "C13-a": ("mub_circuit_lookup returns the freshly cached MUBInfo itself on a cache miss", "mutate the result of the FIRST call for a table, then call again"),
 "C13-b": ("supported configurations kept as {n: {names}}; get_available_connectivities iterates the sets", "two interpreters with different PYTHONHASHSEED: order of the returned list differs"),
 "C13-c": ("Stabilizer.__init__ matrix branch adds self.R &= 1; self.S &= 1", "caller's arrays already int8 and containing entries outside {0,1}"),
 "C14-a": ("Pauli-string branch of Stabilizer.__init__ goes through an lru_cached parser whose arrays are stored uncopied", "edit one Stabilizer in place (s.phases[0] ^= 1), then build another from the same strings"),
 "C14-b": ("native tableau propagator for the circuit branch whose sdg rule copies the s rule (sign only)", "Stabilizer(circuit) with an sdg on a qubit where a generator has an X component"),
 "C16-a": ("layer search skips untouched qubits but keeps the weight pre-filter on n", "partial Pauli sets with an untouched qubit whose valid combinations have fewer than n non-zero coefficients"),
 "C16-b": ("closed-form fast path for the edgeless graph reading each qubit's Pauli from the first operator touching it", "edgeless graph together with an input that has no solution: a non-working layer is returned instead of None"),
 "C17-a": ("StabilizerCircuitInfo cost/depth become lazily computed properties; depth via Qiskit depth() counts a SWAP as one layer", "lookup metadata of the 122 entries with a SWAP on the critical path"),
 "C17-b": ("stabilizer6-H.txt classes 134/147: commuting CZ reordered (depth 5 -> 4), depth column updated for 134 only", "6 qubits, H, class 147: recorded depth 5, actual 4"),
 "C18-a": ("rref() remembers its last result keyed on A.tobytes() only", "two consecutive calls with identical flat contents but different shape or dtype"),
 "C18-b": ("null_space tidy-up drops the final reshape", "a matrix with trivial kernel: result has shape (0,) instead of (0, n)"),
 "C19-a": ("Graph.decompress memoised with functools.lru_cache", "decompress an id, mutate the result in place, decompress the same id again"),
 "C19-b": ("local_complemented() rebuilt as Graph(adjacency ^ outer(nb, nb)) without clearing the diagonal", "inspect the matrix / edge_count, or chain a second complementation at a former neighbour"),
}


def main():
    out = os.path.join(V, "seeded")
    os.makedirs(out, exist_ok=True)
    rows = []
    for pid in sorted(os.listdir(SRC)):
        pd = os.path.join(SRC, pid)
        if not os.path.isdir(pd):
            continue
        for sid in sorted(os.listdir(pd)):
            d = os.path.join(pd, sid)
            if not (os.path.isdir(d) and os.path.exists(os.path.join(d, "patch.diff"))):
                continue
            r = {}
            for part in ("confirm", "checks"):
                fp = os.path.join(d, part + ".json")
                if os.path.exists(fp):
                    r[part] = json.load(open(fp))
            if "confirm" not in r and os.path.exists(os.path.join(d, "result.json")):
                r["confirm"] = json.load(open(os.path.join(d, "result.json"))).get("confirm", {})
            c = r.get("confirm", {})
            if not c.get("confirmed"):
                print("NOT CONFIRMED", sid, {k: v for k, v in c.items() if k in ("applies", "demo_without", "demo_with", "baseline_tests_broken")})
                continue
            dst = os.path.join(out, sid)
            os.makedirs(dst, exist_ok=True)
            for fn in ("patch.diff", "demo.py", "notes.md"):
                if os.path.exists(os.path.join(d, fn)):
                    shutil.copy(os.path.join(d, fn), os.path.join(dst, fn))
            detected, cannot, checks = [], [], {}
            info = INFO.get(sid, ("", ""))
            if not info[0] and os.path.exists(os.path.join(d, "notes.md")):
                info = (open(os.path.join(d, "notes.md")).read().strip().split("\n")[0][:200], "see notes.md")
            meta = {
                "id": sid,
                "property_targeted": sid.split("-")[0],
                "change": info[0],
                "needs_to_manifest": info[1],
                "origin": "written by an independent sub-agent that saw only the property record and its own scratch worktree of /repo",
                "confirmed_by": {
                    "how": "tools/seedcheck.py confirm: scratch worktree of /repo HEAD under /tmp; demo.py without the patch, git apply, demo.py with the patch, full pytest run (-n 8) compared with BASELINE.json stable_pass; worktree removed",
                    "demo_exit_without_patch": c["demo_without"]["exit"], "demo_exit_with_patch": c["demo_with"]["exit"],
                    "baseline_tests_broken": c["baseline_tests_broken"], "tests_summary": c.get("tests_summary", ""),
                    "demo_output_with_patch_tail": c["demo_with"]["tail"][-300:],
                },
                "checks_run": "tools/seed_expect.py: the patch is applied as an in-memory overlay (sa/udiff.py, validated against patch(1)) and the quick rules of all 16 claimed properties are run on it; outcomes are pinned in seeded/EXPECTED.json and re-run by the thorough tier / ./check selftest. (The same was done once with git -C /repo apply ... ; ./check ; git apply -R via tools/seedcheck.py checks.)",
                "checks_reporting_violation": [], "checks_ending_in_analysis_error": [], "first_findings": {}, "analysis_errors": {},
            }
            mp = os.path.join(dst, "meta.json")
            if os.path.exists(mp):
                oldm = json.load(open(mp))
                for k in ("checks_reporting_violation", "checks_ending_in_analysis_error", "first_findings", "analysis_errors"):
                    meta[k] = oldm.get(k, meta[k])
                detected, cannot = meta["checks_reporting_violation"], meta["checks_ending_in_analysis_error"]
            json.dump(meta, open(os.path.join(dst, "meta.json"), "w"), indent=1)
            rows.append((sid, detected, cannot))
    for sid, det, cannot in rows:
        print(f"{sid:7} detected by {det or '-'}   exit 2: {cannot or '-'}")
    print(len(rows), "seeded changes imported")


if __name__ == "__main__":
    main()
