#!/venv/bin/python
"""Copy confirmed seeded changes from the sub-agents' output directory into /verif/seeded/<id>/
(patch.diff, demo.py, notes.md, meta.json).  meta.json = property, what the change is, what it needs to
manifest, what was run to confirm it, and what each check said when the patch was applied to /repo."""
import json
import os
import shutil
import sys

V = os.path.dirname(os.path.dirname(os.path.abspath(__file__)))
SRC = sys.argv[1] if len(sys.argv) > 1 else "/tmp/seed/out"

# (one line: the change) , (what it needs in order to manifest)
INFO = {
 "C02-a": ("stabilizer6-E.txt class 436: cx0,3 replaced by cx4,3 (the matching row of the H table)", "connectivity E on 6 qubits and a stabilizer of LC class 436 (1 of 760 classes)"),
 "C02-b": ("compress_preparation_circuit returns circuit.copy() when the input has fewer two-qubit gates than the tailored result", "a short input circuit entangling qubits that are not adjacent in the requested connectivity (e.g. h0; cx0,3 on 4-linear)"),
 "C02-c": ("tomography builders normalise measured_qubits with Qubit._index (position inside the register, not the circuit)", "measured_qubits given as Qubit objects on a multi-register preparation circuit, a measured qubit outside the first register"),
 "C03-a": ("get_readout_circuit gets a pass stripping trailing diagonal gates that unpacks CX operands as (target, control)", "a connectivity whose table circuits contain CX (star, linear, T, E, H) and a layer ending in S on a qubit that is later only a CX target"),
 "C03-b": ("Graph.decompress memoised with functools.lru_cache", "a caller mutates the graph returned by the public Graph.decompress (e.g. local_complementation) and asks for a readout of the same class again"),
 "C04-a": ("stabilizer5-cycle.txt class 58: circuit replaced by the linear table's (contains a SWAP), cost/depth columns left at 6:3", "5 qubits, cycle, LC class 58: actual two-qubit depth 4 vs recorded 3"),
 "C04-b": ("compress_preparation_circuit returns the input copy if it is cheaper than the lookup circuit", "restricted connectivity and an input cheaper than the table entry because it ignores the connectivity"),
 "C04-c": ("single_qubit_gate_canceller switched to CommutativeInverseCancellation()", "6 qubits, linear, class 69 (`cz4,5 s5 cz4,5`): delivered cost 12 vs metadata 14"),
 "C05-a": ("stabilizer5-Q.txt class 68 replaced by the (correct, self-consistent, costlier) row of stabilizer5-linear.txt", "5 qubits, Q, LC class 68: 5 two-qubit gates where 4 suffice"),
 "C05-b": ("_get_preparation_circuit_modulo_phase caches its result keyed on (n, R bytes, S bytes) - without the connectivity", "the same stabilizer requested first on a sparse, later on a richer connectivity within one process"),
 "C07-a": ("_get_preparation_circuit_modulo_phase caches and returns the cached circuit object itself; callers then rotate it in place", "two calls in one process with the same R, S, connectivity and different signs while the first result is still held"),
 "C07-b": ("stabilizer6-E.txt class 369 replaced by the H table's row (same graph, cost; depth 4): contains cz3,4", "6 qubits, E, LC class 369"),
 "C08-a": ("Stabilizer.validate() takes the GF(2) rank of [R; S; phases] instead of [R; S]", "a redundant generator carrying an inconsistent sign, e.g. ['ZI','-ZI']"),
 "C08-b": ("assert_connectivity_is_supported moved from the shared builder into get_preparation_circuit only", "compress_preparation_circuit(<6-qubit circuit>, 'allx'): the stray table is served"),
 "C08-c": ("sign repair against a Stabilizer implemented as a direct GF(2) solve, no longer through the strict synthesis", "a commuting but dependent generator list passed to get_preparation_circuit"),
 "C09-a": ("mub5-T.txt: adjacent commuting cz gates sorted in four lines, header untouched", "(5, T): bases 10 and 17 now have two-qubit depth 5, header says 4"),
 "C09-b": ("mub_circuit_lookup(copy=False) used by get_mubs, which returns list(cached.mubs)", "a caller edits the inner lists of a get_mubs result in place; later get_mubs calls no longer line up with get_mub_circuits"),
 "C09-c": ("MUB header parsed into a NamedTuple whose fields are declared total, max_depth, max_cost", "get_mub_info in the 13 configurations where max count != max depth"),
 "C10-a": ("ReadoutInfo stores tuple(sorted(measured_qubits))", "measured_qubits given and not ascending, state not symmetric under the exchange"),
 "C10-b": ("MUBInfo.copy returns list(self.circuits) (cached circuit objects shared)", "a caller edits circuits from get_mub_circuits in place, then runs a tomography for the same configuration in the same process"),
 "C11-a": ("CircuitResult marginalisation delegated to qiskit.result.marginal_counts (sorts the indices)", "a measured_qubits list that is not ascending"),
 "C11-b": ("Pauli re-embedding replaced by a vectorised helper that gathers where it must scatter", "full_hilbert_space=True and a placement permutation that is not an involution, e.g. [1,2] of 3"),
 "C12-a": ("readout info written into preparation_circuit.metadata or {} and that dict assigned to the new circuit", "a preparation circuit with non-empty metadata and two measurement circuits built from it before the first is evaluated"),
 "C12-b": ("class-0 fast path _get_product_state_circuit reading qubit q's basis from R[q,q], S[q,q]", "a fully separable stabilizer whose generators are reordered or products, e.g. ['IY','XI']"),
 "C13-a": ("mub_circuit_lookup returns the freshly cached MUBInfo itself on a cache miss", "mutate the result of the FIRST call for a table, then call again"),
 "C13-b": ("supported configurations kept as {n: {names}}; get_available_connectivities iterates the sets", "two interpreters with different PYTHONHASHSEED: order of the returned list differs"),
 "C13-c": ("Stabilizer.__init__ matrix branch adds self.R &= 1; self.S &= 1", "caller's arrays already int8 and containing entries outside {0,1}"),
 "C14-a": ("Pauli-string branch of Stabilizer.__init__ goes through an lru_cached parser whose arrays are stored uncopied", "edit one Stabilizer in place (s.phases[0] ^= 1), then build another from the same strings"),
 "C14-b": ("native tableau propagator for the circuit branch whose sdg rule copies the s rule (sign only)", "Stabilizer(circuit) with an sdg on a qubit where a generator has an X component"),
 "C16-a": ("layer search skips untouched qubits but keeps the weight pre-filter on n", "partial Pauli sets with an untouched qubit whose valid combinations have fewer than n non-zero coefficients"),
 "C16-b": ("closed-form fast path for the edgeless graph reading each qubit's Pauli from the first operator touching it", "edgeless graph together with an input that has no solution: a non-working layer is returned instead of None"),
 "C17-a": ("StabilizerCircuitInfo cost/depth become lazily computed properties; depth via Qiskit depth() counts a SWAP as one layer", "lookup metadata of the 122 entries with a SWAP on the critical path"),
 "C17-b": ("stabilizer6-H.txt classes 134/147: commuting CZ reordered (depth 5 -> 4), depth column updated for 134 only", "6 qubits, H, class 147: recorded depth 5, actual 4"),
 "C18-a": ("rref() remembers its last result keyed on A.tobytes() only", "two consecutive calls with identical flat contents but different shape or dtype"),
 "C18-b": ("null_space tidy-up drops the final reshape", "a matrix with trivial kernel: result has shape (0,) instead of (0, n)"),
 "C19-a": ("Graph.decompress memoised with functools.lru_cache", "decompress an id, mutate the result in place, decompress the same id again"),
 "C19-b": ("local_complemented() rebuilt as Graph(adjacency ^ outer(nb, nb)) without clearing the diagonal", "inspect the matrix / edge_count, or chain a second complementation at a former neighbour"),
}

INFO.update({
 "C02w2-a": ("get_connectivity_graph(n,'Q') built by a new Graph.lollipop(num_vertices, tail=1) helper: correct for n=5, edge (1,5) instead of (2,5) for n=6", "only (6,'Q'): the reported coupling graph no longer contains the pair (2,5) the tables use"),
 "C02w2-b": ("_normalize_measured_qubits() returns None when the list names all qubits of the circuit", "measured_qubits lists ALL qubits in a non-identity order, e.g. [2,0,1], on a restricted connectivity"),
 "C03w2-a": ("get_readout_circuit inverts get_preparation_circuit (with its sign-dependent X layer) instead of the sign-free builder", "compare readout circuits across sign vectors of one group"),
 "C03w2-b": ("is_connectivity_supported rewritten as a by-name predicate (T, Q as 5-qubit shapes) and used as the pre-check of get_readout_circuit", "6 qubits, 'Q', readout entry point: ValueError for an advertised pair"),
 "C04w2-a": ("forest fast path: graph-form forest stabilizers whose edges are on the connectivity are served by graph.to_circuit(), bypassing the tables", "graph-form forest inputs: cost equal, two-qubit depth differs from the class's metadata"),
 "C04w2-b": ("parse_circuit(acts_on_zero_state=True) for stabilizer entries omits no-op gates on |0> qubits", "119 six-qubit table entries (linear/E/H/Q): delivered cost below the metadata"),
 "C05w2-a": ("best_stabilizer_circuit_lookup consults the tables of contained connectivities and ranks by (depth, cost) instead of (cost, depth)", "(5,'Q') classes 16 and 68; (6,'all'/'ladder'/'Q') many classes"),
 "C05w2-b": ("for connectivity 'all' the table is bypassed and the graph-state circuit of the class representative is used", "6 qubits, 'all', 31 classes: 6 (9) gates where 5 (7) suffice"),
 "C07w2-a": ("Clifford-gate whitelist in the circuit branch of Stabilizer.__init__ spells the identity 'i' (Qiskit: 'id')", "any input circuit containing an identity gate: ValueError"),
 "C07w2-b": ("compress_preparation_circuit logs original_cost / optimized_cost eagerly", "fully separable prepared state (class 0): ZeroDivisionError"),
 "C08w2-a": ("assert_connectivity_is_supported asks whether stabilizer<n>-<c>.txt is shipped", "(6,'allx'): the stray table makes an unadvertised pair accepted by every stabilizer entry point"),
 "C08w2-b": ("MUB functions validate against get_args(Literal[...]) of their stale annotation", "(6,'ladder'), (6,'E'), (6,'H') rejected by the three MUB functions and full_state_tomography_circuits"),
 "C09w2-a": ("get_mub_info derives its numbers from the parsed circuits; the new depth helper looks only at the last layer", "max two-qubit depth off by one for 6 of the 20 configurations"),
 "C09w2-b": ("mub6-ladder.txt 'depth optimisation': basis 9 gets a depth-3 circuit with 7 CZ (header kept truthful)", "(6,'ladder') basis 9: MUB circuit costs 7, the library's readout for the same basis 6"),
 "C10w2-a": ("all expectation values from a Walsh-Hadamard transform of a histogram filled with `distribution[outcomes] = counts`", "strict subset measured and unmeasured qubits not in a computational-basis state (marginal outcomes collide)"),
 "C10w2-b": ("density matrix built from x/z bitmasks with the sign parity taken from the column index", "states whose density matrix is not real: rho^T is returned"),
 "C11w2-a": ("fast Walsh-Hadamard on a histogram filled with fancy-index `+=` (does not accumulate repeated indices)", "subset measurement with correlations across the cut"),
 "C11w2-b": ("early validation is_connectivity_supported(preparation_circuit.num_qubits, connectivity) in both builders", "subset measurement where (N, c) is unsupported although (m, c) is, e.g. N = 7"),
 "C12w2-a": ("fitter uses a histogram helper filled with `histogram[bitstring] = count`", "strict subset measured and an unmeasured qubit correlated with the measured ones"),
 "C12w2-b": ("_check_connectivity_name() validates against the stale Literal annotation in both builders", "'ladder', 'E', 'H' rejected on plain full-register use"),
 "C13w2-a": ("circuit branch of Stabilizer.__init__ calls data.remove_final_measurements() (in place)", "an input circuit with final measurements: the caller's circuit loses them"),
 "C13w2-b": ("MUBInfo gains a summary dict self.info that get_mub_info returns; copy() stays shallow for it", "edit the dict returned by get_mub_info, call again for the same configuration"),
 "C13w2-c": ("Graph.copy() reduced to Graph(self.adjacency_matrix) (int8 arrays are kept by reference)", "Graph.copy() / local_complemented(): the 'copy' shares the original's matrix"),
 "C14w2-a": ("'+' and '-' prefix branches merged: an explicit '+' is recorded as a minus sign", "a generator written with an explicit '+' (e.g. Stabilizer(s.to_list()))"),
 "C14w2-b": ("to_circuit() emits CZ in greedy layers bounded by max_degree + 1 rounds; postponed edges are dropped", "26 of 1023 graphs on 5 vertices, 733 on 6 (e.g. K5, K6)"),
 "C16w2-a": ("", ""),
 "C16w2-b": ("", ""),
 "C17w2-a": ("(3,'star') registered and served from the linear tables by renaming qubits 0<->1 on the fly; the class index is not mapped", "(3,'star') class ids 1 and 2: entry's graph not in the class it is filed under; also an unadvertised pair is now accepted"),
 "C17w2-b": ("a 761st line (the AME circuit of the stray table) appended to stabilizer6-all.txt", "entries counted against class ids, or lookup of id 760 / -1"),
 "C18w2-a": ("rank() rewritten as forward elimination whose column loop stops at min(m, n)", "wide matrices whose pivots lie beyond column m-1"),
 "C18w2-b": ("rref() tidy-up drops `A % 2`: bool matrices are eliminated in boolean arithmetic", "bool-typed binary matrices (e.g. Qiskit tableaux)"),
 "C19w2-a": ("Graph.compress skips rows without edges without advancing the bit counter", "an isolated vertex numbered below an edge between two higher vertices"),
 "C19w2-b": ("local_complementation rewritten on the neighbourhood block with an early return for len(neighbors) <= 2", "local complementation at a vertex of degree exactly 2 is a no-op"),
})

INFO.update({
 "R1-a": ("sign repair vectorised: one batched PauliList.evolve + np.flatnonzero, guard-clause dispatcher, dead branch removed", "behaviour-preserving refactoring"),
 "R1-b": ("sign-free builder appends the inverse local-Clifford layer in place through a dispatch table instead of compose(layer.inverse()); duplicated gate call in get_readout_circuit dropped", "behaviour-preserving refactoring"),
 "R1-c": ("memoised lookup entries (frozen dataclass + lru_cache loader); cached circuit never handed out, graph write-protected", "behaviour-preserving refactoring"),
 "R2-a": ("parse_circuit as dictionary dispatch on the first character with three extracted handlers (unbound QuantumCircuit.cx/cz)", "behaviour-preserving refactoring"),
 "R2-b": ("the two cache-miss loaders merged into one generic loader using `if filename not in cache`", "behaviour-preserving refactoring"),
 "R2-c": ("MUBInfo.copy()/mub_circuit_lookup() gain with_circuits/with_mubs flags; get_mubs/get_mub_info skip copying circuits", "behaviour-preserving refactoring"),
 "R3-a": ("shared _append_readout helper for both tomography builders; tuple conversion helper; guard clauses", "behaviour-preserving refactoring"),
 "R3-b": ("CircuitResult parsing unified through _outcome_from_key(key, qubits)", "behaviour-preserving refactoring"),
 "R3-c": ("z_pauli_from_bitstring memoised with a typed lru_cache over a pure builder, copies handed out", "behaviour-preserving refactoring"),
 "R4-a": ("estimator vectorised: parity table by np.bitwise_count for all signatures at once", "behaviour-preserving refactoring"),
 "R4-b": ("sign read from the phase of the backwards-evolved Pauli, second evolve dropped", "behaviour-preserving refactoring"),
 "R4-c": ("fitter base class, _get_readout_info, expectation_values split into helpers incl. _embed_into_full_hilbert_space", "behaviour-preserving refactoring"),
 "R5-a": ("table-driven supported-configuration gate (_SUPPORTED_CONFIGURATIONS, _why_unsupported)", "behaviour-preserving refactoring"),
 "R5-b": ("get_connectivity_graph as match statement + lru_cache prototype handed out as .copy()", "behaviour-preserving refactoring"),
 "R5-c": ("Graph upper-triangle walks vectorised (triu_indices, packbits, fill_diagonal)", "behaviour-preserving refactoring"),
 "R6-a": ("Stabilizer.__init__ split into _init_from_* helpers with _is_matrix_tuple / _as_int8", "behaviour-preserving refactoring"),
 "R6-b": ("f2_algebra clean-up: shared pivot search, fancy-index swap, outer-product elimination, in-place basis change", "behaviour-preserving refactoring"),
 "R6-c": ("Stabilizer.expand by Gray-style XOR, shared _symplectic_product via np.roll, comprehensions in is_qubit_entangled/to_list", "behaviour-preserving refactoring"),
 "R7-a": ("local_clifford_layer_to_circuit as table of gate-name sequences applied via getattr(qc, name)(i)", "behaviour-preserving refactoring"),
 "R7-b": ("find_local_clifford_layer vectorised by broadcasting; dead code removed", "behaviour-preserving refactoring"),
 "R7-c": ("find_local_clifford_layer split into helpers with a lazy generator over the kernel span; extracted _get_local_clifford_correction", "behaviour-preserving refactoring"),
 "R8-a": ("new internal _util.py (files() API reader, as_int8, symplectic_form, clear_diagonal); both lookups wrap one _load_cached", "behaviour-preserving refactoring"),
 "R8-b": ("one SupportedConnectivity alias everywhere; table-driven connectivity_support; builder dictionary in get_connectivity_graph", "behaviour-preserving refactoring"),
 "R8-c": ("debug logging throughout; _lookup_mub_info; builder split into helpers; _with_readout in tomography", "behaviour-preserving refactoring"),
})

# wave 4: a sizeable behaviour-preserving refactoring that hides ONE defect (property the defect breaks in XPROP)
INFO.update({
 "X1-a": ("stabilizer_circuits restructured into a pipeline around a GraphStateTemplate memo keyed (num_qubits, graph_id) - without the connectivity", "one process, the same LC class requested on two connectivities whose tables list the same graph with different circuits"),
 "X1-b": ("rotate_stabilizer_into_state split into helpers; the 'no sign to repair' early exit returns the reference (synthesised) circuit instead of the tailored one", "a stabilizer whose tailored circuit already has all signs right (e.g. all-plus graph states) on a restricted connectivity"),
 "X2-a": ("circuit_lookup on lru_cache loaders and NamedTuples, MUBInfo builds circuits lazily (property); MUBInfo.copy no longer copies circuits and get_mub_info touches .circuits of the cached instance", "get_mub_info(n,c), then get_mub_circuits(n,c), caller edits the list or a circuit, later get_mub_circuits(n,c)"),
 "X2-b": ("table-driven parser; MUBInfo derives max cost/depth from the parsed circuits with max() of NamedTuples (lexicographic, not component-wise)", "a MUB table whose most expensive circuit is not the deepest"),
 "X3-a": ("tomography result parsing vectorised; marginalisation moves each bit with a single shift (outcomes & (1<<q)) >> (q-slot), silently 0 for negative shifts", "a measured_qubits order with qubits[i] < i, e.g. [1,0], [2,0], [0,3,1]"),
 "X3-b": ("tomography builders share _build_measurement_circuit, which stores the caller's list in ReadoutInfo instead of its tuple snapshot", "the caller passes a list, mutates it afterwards and only then evaluates the earlier circuit"),
 "X4-a": ("fitter vectorised (tableau + group expansion); reordering sign taken from the already updated x accumulator", "a stabilizer whose pulled-back generators contain an odd number of Y, e.g. ['YI','IZ']"),
 "X4-b": ("Pauli table memoised on ReadoutInfo; expectation_values multiplies into np.asarray(table.signs) - the cached array itself", "the same measurement circuit evaluated at least twice in one process"),
 "X5-a": ("connectivity_support table driven (ConnectivityType ranges); row ('cycle', range(4, 7)) one too wide, per-shape asserts dropped", "the request (6, 'cycle')"),
 "X5-b": ("graph.py vectorised, connectivity list hoisted to a module constant which get_available_connectivities() now returns itself", "a caller mutates the returned list (pop/remove/clear); from then on advertised pairs are refused"),
 "X6-a": ("circuit_lookup: dispatch-table parser, generic _cached_file loader, MUB cache holds MUBTable/MUBRecord NamedTuples; MUBInfo._assign shares the records' inner basis lists", "a caller edits an inner list of get_mubs() in place, then asks again for the same configuration"),
 "X6-b": ("bounded LRU memo of the circuit modulo phase keyed with R.tobytes(order='A') / S.tobytes(order='A')", "same process, a C-ordered stabilizer (R,S) then an F-ordered one holding the transposed matrices"),
 "X7-a": ("stabilizer_circuits split into helpers; info.parse_circuit() memoised under (num_qubits, graph_id) - without the connectivity", "one process, same class on two connectivities whose tables list the same graph with different circuits"),
 "X7-b": ("tokenizer + dispatch parser; StabilizerCircuitInfo takes cost/depth from the token list, depth advances by 1 for a SWAP (3 native gates); the eager .gates list is handed out with the cached record", "a class whose table circuit contains a SWAP (122 entries of 4-linear, 5-T, 5-linear, 6-E, 6-H, 6-linear); or a caller editing info.gates"),
 "X8-a": ("graph.py vectorised; compress() memoised per instance and invalidated by every mutator except local_complementation", "compress(), local_complementation(v) at a vertex with >= 2 neighbours, compress() again on the same object"),
 "X8-b": ("find_local_clifford_layer table driven / vectorised; Graph.local_complementation rewritten with an early exit `neighbours.sum() < 2` on neighbour INDICES", "local complementation at a vertex v >= 2 whose neighbourhood is exactly {0, 1}"),
})
# wave 5: behaviour-preserving refactorings that contain a CORRECT instance of a pattern that is easy to get wrong
INFO.update({
 "R9-a": ("circuit_lookup: generator tokenizer + dispatch tables per gate family, one generic _lookup_table(cache, filename, build), importlib.resources.files with the legacy file-name check", "behaviour-preserving refactoring"),
 "R9-b": ("circuit_lookup: private _TableFamily(Generic[T]) holding prefix, parser and late-bound access to the public cache dictionaries; MUB header/line parsing in helpers", "behaviour-preserving refactoring"),
 "R10-a": ("stabilizer_circuits: named pipeline steps and two bounded, lock-protected LRU memos (hand-written class) of the class id and of the local-Clifford layer, keyed by the full contents of R and S (+ graph id), copies on every hand-out", "behaviour-preserving refactoring (correct memo)"),
 "R10-b": ("stabilizer_circuits: provably equivalent closed-form fast path for product-state stabilizers (class 0), plan helpers, logging", "behaviour-preserving refactoring (correct fast path)"),
 "R11-a": ("graph.py: compress/decompress via packbits/unpackbits with the documented bit order, cached read-only index helper, fill_diagonal/outer", "behaviour-preserving refactoring (correct vectorised codec)"),
 "R11-b": ("connectivity_support: one tuple of supported configurations as source of truth, fresh list on every call, match-statement dispatch for the graph builders", "behaviour-preserving refactoring"),
 "R12-a": ("tomography: shared private builder that snapshots measured_qubits as before, constants, _pull_back_z_pauli / _embed_paulis helpers, common fitter base class", "behaviour-preserving refactoring"),
 "R12-b": ("tomography: count-key marginalisation through a lazily built index table (same bit order), all Z-type Paulis pulled back as one PauliList", "behaviour-preserving refactoring (correct bit-order rewrite)"),
 "R13-a": ("find_local_clifford_layer split into system builder, lazy span generator, validity test, decoder; dict from block to gate names in append order", "behaviour-preserving refactoring"),
 "R13-b": ("f2_algebra rref/null_space vectorised, linear system by einsum, block-wise vectorised candidate filter returning the first valid candidate of the original order", "behaviour-preserving refactoring (correct vectorisation)"),
 "R14-a": ("rotate_stabilizer_into_state: pivot cases as lookup tables, helpers, same circuit object returned when no sign needs repair", "behaviour-preserving refactoring (correct early exit)"),
 "R14-b": ("Stabilizer.__init__ dispatching to one private _init_from_* per input kind, Pauli <-> (x,z) tables, reversed export as body[::-1]", "behaviour-preserving refactoring"),
 "R15-a": ("cross-cutting: one Connectivity alias in a new _types.py, table-driven support check, match statements, importlib.resources.files (six modules)", "behaviour-preserving refactoring"),
 "R15-b": ("dead code removed, private helpers, vectorised candidate check in find_local_clifford_layer (reshape + mat_mul with the basis)", "behaviour-preserving refactoring"),
 "R16-a": ("mub_circuits through a private _lookup_mub_table that gates first, info dictionary from a NamedTuple, determine_lc_class via a dispatch table, linear_index helpers renamed", "behaviour-preserving refactoring"),
 "R16-b": ("lc_classes: vectorised count_identity_structures behind a strict guard, lru_cache memos keyed on the qubit count with read-only results", "behaviour-preserving refactoring (correct memo)"),
})
# wave 6: three SMALL defects (<= ~5 changed lines, or one table token) per claimed property
INFO.update({
 "C02s-a": ("get_connectivity_graph: closing edge of the 'Q' shape written as (n-1, 1) instead of (n-1, n-4)", "(6, 'Q'): the reported coupling graph has edge 1-5 instead of 2-5"),
 "C02s-b": ("stabilizer5-linear.txt class 56: cx3,4 hand-edited to cx2,4 (state, cost and depth unchanged)", "5 qubits, linear, GHZ-type class: a CX on the uncoupled pair (2,4)"),
 "C02s-c": ("full_state_tomography_circuits stores and composes with tuple(sorted(measured_qubits))", "a measured_qubits list that is not ascending"),
 "C03s-a": ("get_readout_circuit loses its trailing .inverse()", "every stabilizer whose preparation circuit is not self-inverse"),
 "C03s-b": ("sign repair folded into _get_preparation_circuit_modulo_phase: the readout ends in sign-dependent X gates", "two sign vectors of one group give different readout circuits"),
 "C03s-c": ("get_readout_circuit strips leading (instead of trailing) s/sdg gates through circuit.data", "a readout circuit that starts with s / sdg"),
 "C04s-a": ("stabilizer6-ladder.txt class 179: two commuting cz tokens swapped, depth column left at 2", "6 qubits, ladder, class 179: delivered depth 4, reported 2"),
 "C04s-b": ("sign repair's 'nothing to repair' exit returns the reference circuit instead of the tailored one", "the one sign vector per group whose tailored circuit needs no repair"),
 "C04s-c": ("get_readout_circuit drops the connectivity argument of the inner call (default 'all')", "every readout for a connectivity other than 'all'"),
 "C05s-a": ("stabilizer5-cycle.txt class 35 replaced by the costlier, still valid row of the linear table", "5 qubits, cycle, class 35: 5 two-qubit gates where 4 suffice"),
 "C05s-b": ("stabilizer4-star.txt class 1: a stray cx0,3 acting on a |+> target added, cost column unchanged", "4 qubits, star, Bell-pair class: 2 two-qubit gates, metadata says 1"),
 "C05s-c": ("default of get_preparation_circuit(connectivity=) changed from 'all' to 'linear'", "callers that omit the connectivity"),
 "C07s-a": ("compress_preparation_circuit drops the connectivity argument of the inner call", "every connectivity other than 'all'"),
 "C07s-b": ("arguments of the sign-repair call in compress_preparation_circuit swapped", "every call: the caller's circuit is returned, modified in place"),
 "C07s-c": ("stabilizer5-T.txt class 4: cx3,4 hand-edited to cx0,4", "5 qubits, T, Bell pair on (0,4): CX on an uncoupled pair"),
 "C08s-a": ("character check of the Pauli-string parser made case-insensitive (pauli.upper()), the parse loop is not", "lower-case x / y / z are accepted and read as identity"),
 "C08s-b": ("support gate lost from _get_preparation_circuit_modulo_phase", "(6, 'allx'): the stray table is served by the preparation APIs"),
 "C08s-c": ("default allow_underconstrained of the reference synthesis flipped to True", "dependent generator lists containing +I..I are served"),
 "C09s-a": ("mub4-linear.txt basis 16: a redundant s1 hand-edited to cz0,1, header untouched", "(4, linear): header total 51, circuits count 52"),
 "C09s-b": ("MUBInfo header parsing: max_depth read from header field 1 instead of 2", "get_mub_info in the 13 configurations where the two fields differ"),
 "C09s-c": ("get_mubs reads the 'all' table whatever connectivity is requested", "every connectivity other than 'all': bases and circuits no longer index-aligned"),
 "C10s-a": ("sign factor written as (-1) ** z_pauli.phase (phase 2 gives +1)", "every Pauli that is pulled back with a minus sign"),
 "C10s-b": ("mask loop range(1, 2**n - 1): the all-ones Z string is never evaluated", "every state: 2^n+1 Paulis missing from the tomography"),
 "C10s-c": ("count keys marginalised over sorted(qubits, reverse=True) instead of reversed(qubits)", "a measured_qubits list that is not ascending"),
 "C11s-a": ("count keys read big-endian: key[index] for index in qubits", "any measured subset that is not mirror symmetric"),
 "C11s-b": ("re-embedding loop runs over enumerate(sorted(qubits))", "non-ascending measured_qubits in full-register mode"),
 "C11s-c": ("stabilizer_measurement_circuit loses qubits=measured_qubits in compose", "any measured list other than the prefix 0..m-1"),
 "C12s-a": ("pauli.phase = 0 moved behind the push-forward: the signed Pauli always pushes forward to +Z", "every element that pulls back with a minus sign"),
 "C12s-b": ("estimator returns expectation_value // total_count", "non-stabilizer states (non-integer expectation values)"),
 "C12s-c": ("mask loop range(1, 2**n - 1)", "the element read out as Z on every qubit is never reported"),
 "C13s-a": ("MUBInfo.copy copies the list of circuits but not the circuits", "a caller edits a returned MUB circuit, later lookups are corrupted"),
 "C13s-b": ("public rotate_stabilizer_into_state(inplace=) default flipped to True", "a call with default arguments modifies the caller's circuit"),
 "C13s-c": ("Graph.copy() reduced to Graph(self.adjacency_matrix) (int8 arrays are adopted, not copied)", "local_complemented(v) also rewrites the receiver"),
 "C14s-a": ("sign parsing folded into one branch: an explicit '+' prefix is stored as minus", "any generator written with a leading '+'"),
 "C14s-b": ("matrix constructor reads R and S transposed", "non-symmetric X / Z matrices"),
 "C14s-c": ("Graph.to_circuit returns an empty circuit for an edgeless graph (early exit before the Hadamard layer)", "the edgeless graph"),
 "C16s-a": ("validity filter 'tidied' from OR/XOR to +/==: weight-3 (singular) blocks pass", "partial sets / stabilizers of another class: a non-Clifford layer is returned"),
 "C16s-b": ("weight pre-filter bound 2*n replaced by 2*m (operator count)", "fewer operators than qubits: existing layers are skipped"),
 "C16s-c": ("linearisation loop over qubits runs range(m) instead of range(n)", "fewer operators than qubits: columns of the last qubits stay zero"),
 "C17s-a": ("stabilizer6-ladder.txt class 307: depth column 4 edited to 3", "6 qubits, ladder, class 307"),
 "C17s-b": ("StabilizerCircuitInfo recounts the cost from tokens starting with 'c' (swap = 3 skipped)", "the 122 table entries containing a swap"),
 "C17s-c": ("last line of stabilizer5-T.txt duplicated: 94 entries for 93 classes", "class id 93 returns an entry instead of raising"),
 "C18s-a": ("rref_and_basis_change loop bound h < m - 1: the last row is never a pivot row", "matrices whose rank equals their row count: result not reduced"),
 "C18s-b": ("rank returns the trace of the RREF instead of the pivot count", "a free column before a pivot column, e.g. rank([[0,1]]) = 0"),
 "C18s-c": ("null_space loses its final reshape: trivial kernel returned with shape (0,)", "every full-column-rank matrix"),
 "C19s-a": ("local_complementation: ^= replaced by |= (edges only added)", "two adjacent neighbours, or a second application"),
 "C19s-b": ("to_112 uses a hand-written pair list with entries 1 and 2 exchanged", "LCClass4 ids 2 and 3 are exchanged"),
 "C19s-c": ("Graph.compress skips rows of isolated vertices without advancing the bit index", "an isolated vertex numbered below an edge"),
})
XPROP = {"X1-a": "C13", "X1-b": "C07", "X2-a": "C13", "X2-b": "C09", "X3-a": "C11", "X3-b": "C11", "X4-a": "C12", "X4-b": "C13",
         "X5-a": "C08", "X5-b": "C13", "X6-a": "C13", "X6-b": "C13", "X7-a": "C13", "X7-b": "C04", "X8-a": "C19", "X8-b": "C19"}


def main():
    out = os.path.join(V, "seeded")
    os.makedirs(out, exist_ok=True)
    rows = []
    for pid in sorted(os.listdir(SRC)):
        pd = os.path.join(SRC, pid)
        if not os.path.isdir(pd):
            continue
        for sid in sorted(os.listdir(pd)):
            d = os.path.join(pd, sid)
            if not (os.path.isdir(d) and os.path.exists(os.path.join(d, "patch.diff"))):
                continue
            r = {}
            for part in ("confirm", "checks"):
                fp = os.path.join(d, part + ".json")
                if os.path.exists(fp):
                    r[part] = json.load(open(fp))
            if "confirm" not in r and os.path.exists(os.path.join(d, "result.json")):
                r["confirm"] = json.load(open(os.path.join(d, "result.json"))).get("confirm", {})
            c = r.get("confirm", {})
            if not c.get("confirmed"):
                print("NOT CONFIRMED", sid, {k: v for k, v in c.items() if k in ("applies", "demo_without", "demo_with", "baseline_tests_broken")})
                continue
            dst = os.path.join(out, sid)
            os.makedirs(dst, exist_ok=True)
            for fn in ("patch.diff", "demo.py", "notes.md"):
                if os.path.exists(os.path.join(d, fn)):
                    shutil.copy(os.path.join(d, fn), os.path.join(dst, fn))
            detected, cannot, checks = [], [], {}
            info = INFO.get(sid, ("", ""))
            if not info[0] and os.path.exists(os.path.join(d, "notes.md")):
                first = open(os.path.join(d, "notes.md")).read().strip().split("\n")[0].lstrip("# ").strip()
                first = __import__("re").sub(r"^%s\s*[-:\u2013\u2014]+\s*" % __import__("re").escape(sid), "", first)
                info = (first[:240], "see notes.md")
            meta = {
                "id": sid,
                "property_targeted": XPROP.get(sid, (__import__("re").match(r"C\d+", sid).group(0) if __import__("re").match(r"C\d+", sid) else sid.split("-")[0])),
                "change": info[0],
                "needs_to_manifest": info[1],
                "kind": "behaviour-preserving refactoring (false-alarm corpus: no check may report a violation)" if sid.startswith("R") else
                        ("seeded defect hidden inside a behaviour-preserving refactoring" if sid.startswith("X") else "seeded defect"),
                "origin": "written by an independent sub-agent that saw only the property record (or, for refactorings, a focus area) and its own scratch worktree of /repo",
                "confirmed_by": {
                    "how": ("tools/seedcheck.py confirm-refactor: scratch worktree of /repo HEAD under /tmp; demo.py (digest script) without and with the patch must print identical output and exit 0; full pytest run (-n 8) compared with BASELINE.json stable_pass; worktree removed" if sid.startswith("R") else
                            "tools/seedcheck.py confirm: scratch worktree of /repo HEAD under /tmp; demo.py without the patch, git apply, demo.py with the patch, full pytest run (-n 8) compared with BASELINE.json stable_pass; worktree removed"),
                    "demo_exit_without_patch": c["demo_without"]["exit"], "demo_exit_with_patch": c["demo_with"]["exit"],
                    "baseline_tests_broken": c["baseline_tests_broken"], "tests_summary": c.get("tests_summary", ""),
                    "demo_output_with_patch_tail": c["demo_with"]["tail"][-300:],
                },
                "checks_run": "tools/seed_expect.py: the patch is applied as an in-memory overlay (sa/udiff.py, validated against patch(1)) and the quick rules of all 16 claimed properties are run on it; outcomes are pinned in seeded/EXPECTED.json and re-run by the thorough tier / ./check selftest. (The same was done once with git -C /repo apply ... ; ./check ; git apply -R via tools/seedcheck.py checks.)",
                "checks_reporting_violation": [], "checks_ending_in_analysis_error": [], "first_findings": {}, "analysis_errors": {},
            }
            mp = os.path.join(dst, "meta.json")
            if os.path.exists(mp):
                oldm = json.load(open(mp))
                for k in ("checks_reporting_violation", "checks_ending_in_analysis_error", "first_findings", "analysis_errors"):
                    meta[k] = oldm.get(k, meta[k])
                detected, cannot = meta["checks_reporting_violation"], meta["checks_ending_in_analysis_error"]
            json.dump(meta, open(os.path.join(dst, "meta.json"), "w"), indent=1)
            rows.append((sid, detected, cannot))
    for sid, det, cannot in rows:
        print(f"{sid:7} detected by {det or '-'}   exit 2: {cannot or '-'}")
    print(len(rows), "seeded changes imported")


if __name__ == "__main__":
    main()
