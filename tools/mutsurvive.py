#!/venv/bin/python
"""Development aid (NOT a registered check): which SILENT mutants of tools/mutsweep.py survive the repository's tests?

  tools/mutsurvive.py /tmp/ms_main.jsonl --out /tmp/ms_survive.jsonl [--files a.py,b.py] [--root /tmp/pristine]

For every mutant on which no check reported anything, the mutated module is written into a scratch copy of the tree
(under /tmp, removed afterwards), the fast test files are run, then - if nothing broke - tests/test_stabilizer_circuits.py;
the outcome is compared with the stable_pass set of /root/.vp/BASELINE.json.  A surviving silent mutant is a candidate
gap (or an equivalent mutant): it is what a human triages."""
from __future__ import annotations
import argparse
import concurrent.futures
import json
import os
import shutil
import subprocess
import sys
import tempfile
import xml.etree.ElementTree as ET

V = os.path.dirname(os.path.dirname(os.path.abspath(__file__)))
sys.path.insert(0, V)
sys.path.insert(0, os.path.join(V, "tools"))

FAST = ["test_circuit_lookup", "test_connectivity_support", "test_f2_algebra", "test_find_local_clifford_layer", "test_graph", "test_lc_classes",
        "test_linear_index", "test_rotate_stabilizer_into_state", "test_stabilizer", "test_tomography", "test_examples"]
SLOW = ["test_stabilizer_circuits"]


def run_tests(wt, files, timeout):
    xml = os.path.join(wt, "junit.xml")
    if os.path.exists(xml):
        os.remove(xml)
    env = dict(os.environ, PYTHONPATH=os.path.join(wt, "src"), PYTHONWARNINGS="ignore")
    try:
        subprocess.run(["/venv/bin/python", "-m", "pytest", "-q", "-p", "no:cacheprovider", "--timeout=600", "--continue-on-collection-errors",
                        f"--junitxml={xml}"] + [f"tests/{t}.py" for t in files], cwd=wt, env=env, capture_output=True, text=True, timeout=timeout)
    except subprocess.TimeoutExpired:
        return None
    got = {}
    try:
        for tc in ET.parse(xml).iter("testcase"):
            name = tc.get("classname") + "::" + tc.get("name")
            st = "pass"
            for ch in tc:
                if ch.tag in ("failure", "error"):
                    st = "fail"
                if ch.tag == "skipped":
                    st = "skip"
            got[name] = st
    except Exception:
        return None
    return got


def one(args):
    root, m, text, stable = args
    wt = tempfile.mkdtemp(prefix="mutrun_", dir="/tmp")
    try:
        shutil.copytree(os.path.join(root, "src"), os.path.join(wt, "src"))
        shutil.copytree(os.path.join(root, "tests"), os.path.join(wt, "tests"))
        for extra in ("examples", "README.md", "pyproject.toml", "setup.py", "setup.cfg"):
            p = os.path.join(root, extra)
            if os.path.isdir(p):
                shutil.copytree(p, os.path.join(wt, extra))
            elif os.path.exists(p):
                shutil.copy(p, os.path.join(wt, extra))
        with open(os.path.join(wt, "src", "htstabilizer", m["file"]), "w") as fh:
            fh.write(text)
        broken = []
        for group, to in ((FAST, 600), (SLOW, 1500)):
            got = run_tests(wt, group, to)
            if got is None:
                broken.append("<timeout or no junit>")
                break
            mine = [n for n in stable if n.split("::")[0].split(".")[1] in group]
            broken += [n for n in mine if got.get(n) != "pass"]
            if broken:
                break
        r = dict(m)
        r["survives"] = not broken
        r["broken"] = broken[:5]
        return r
    finally:
        shutil.rmtree(wt, ignore_errors=True)


def main():
    ap = argparse.ArgumentParser()
    ap.add_argument("sweep")
    ap.add_argument("--out", default="/tmp/ms_survive.jsonl")
    ap.add_argument("--files", default="")
    ap.add_argument("--root", default="/tmp/pristine")
    ap.add_argument("--workers", type=int, default=12)
    ap.add_argument("--second", action="store_true")
    ap.add_argument("--third", action="store_true")
    a = ap.parse_args()
    import mutsweep
    mutsweep.SECOND = a.second
    mutsweep.THIRD = a.third
    stable = json.load(open("/root/.vp/BASELINE.json"))["stable_pass"]
    rows = [json.loads(l) for l in open(a.sweep)]
    want = set(a.files.split(",")) if a.files else None
    silent = [r for r in rows if all(v[0] == "pass" for v in r["res"].values()) and (want is None or r["file"] in want)]
    # regenerate the mutant texts (the sweep file does not store them)
    texts = {}
    for fn in sorted({r["file"] for r in silent}):
        for m in mutsweep.gen(a.root, [fn]):
            texts[(m["file"], m["func"], m["line"], m["op"], m["desc"], m["orig"])] = m["text"]
    jobs = []
    for r in silent:
        k = (r["file"], r["func"], r["line"], r["op"], r["desc"], r["orig"])
        if k in texts:
            jobs.append((a.root, {x: r[x] for x in ("file", "func", "line", "op", "desc", "orig")}, texts[k], stable))
    print(len(jobs), "silent mutants to run", file=sys.stderr, flush=True)
    with concurrent.futures.ProcessPoolExecutor(max_workers=a.workers) as ex, open(a.out, "w") as fh:
        futs = [ex.submit(one, j) for j in jobs]
        for i, fu in enumerate(concurrent.futures.as_completed(futs)):
            fh.write(json.dumps(fu.result()) + "\n")
            fh.flush()
            if i % 25 == 0:
                print(i, file=sys.stderr, flush=True)


if __name__ == "__main__":
    main()
