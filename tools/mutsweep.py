#!/venv/bin/python
"""Development aid (NOT a registered check): sweep of small syntactic mutants over the package source.

  tools/mutsweep.py [--root DIR] [--files a.py,b.py] [--out FILE] [--props C02,C04]

Every mutant is one small edit of one function (comparison / arithmetic operator swapped, small constant +-1, boolean
flipped, two call arguments or two subscript indices swapped, a copy dropped, a statement deleted, a condition negated),
applied as an in-memory overlay; the quick rules of the properties anchored in that file are run on it.  The result file
(one JSON object per mutant) is what a human triages: SILENT mutants that break a property are gaps, FIRING mutants that
are equivalent would be false alarms.  Nothing here decides a property."""
from __future__ import annotations
import argparse
import ast
import concurrent.futures
import copy
import json
import os
import sys

V = os.path.dirname(os.path.dirname(os.path.abspath(__file__)))
sys.path.insert(0, V)

ALL = ["C02", "C03", "C04", "C05", "C07", "C08", "C09", "C10", "C11", "C12", "C13", "C14", "C16", "C17", "C18", "C19"]
# which checks consult which module in a way that a mutant there can matter (a superset is harmless, only slower)
RELEVANT = {
    "circuit_lookup.py": ["C02", "C03", "C04", "C07", "C09", "C10", "C11", "C12", "C13", "C17"],
    "connectivity_support.py": ["C02", "C08", "C13"],
    "f2_algebra.py": ["C08", "C16", "C18", "C13"],
    "find_local_clifford_layer.py": ["C03", "C08", "C16", "C13"],
    "graph.py": ["C02", "C13", "C14", "C17", "C19", "C08"],
    "lc_classes.py": ["C03", "C04", "C08", "C19", "C13", "C17"],
    "linear_index.py": ["C19", "C13"],
    "mub_circuits.py": ["C02", "C08", "C09", "C10", "C13"],
    "rotate_stabilizer_into_state.py": ["C02", "C03", "C04", "C07", "C08", "C13"],
    "stabilizer.py": ["C03", "C07", "C08", "C13", "C14", "C04"],
    "stabilizer_circuits.py": ["C02", "C03", "C04", "C05", "C07", "C08", "C12", "C13"],
    "tomography.py": ["C02", "C08", "C10", "C11", "C12", "C13"],
}

THIRD = False         # third operator family (--third): attribute / function name swapped with its sibling, range bounds, slice bounds
SWAP = {}
for _a, _b in (("R", "S"), ("x", "z"), ("any", "all"), ("min", "max"), ("zeros", "ones"), ("cx", "cz"), ("s", "sdg"), ("argmin", "argmax"), ("lstrip", "rstrip"),
               ("startswith", "endswith"), ("keys", "values"), ("num_qubits", "num_vertices"), ("append", "extend"), ("floor", "ceil"), ("identity", "zeros_like"),
               ("mubs", "circuits"), ("cost", "depth"), ("qubits", "clbits"), ("front", "inplace")):
    SWAP[_a] = _b
    SWAP[_b] = _a
SECOND = False        # second operator family (--second): keyword dropped, connectivity name changed, argument renamed ...
NAMES = ["all", "linear", "star", "cycle", "T", "Q", "E", "H", "ladder"]
CMP = {ast.Lt: ast.LtE, ast.LtE: ast.Lt, ast.Gt: ast.GtE, ast.GtE: ast.Gt, ast.Eq: ast.NotEq, ast.NotEq: ast.Eq, ast.In: ast.NotIn, ast.NotIn: ast.In,
       ast.Is: ast.IsNot, ast.IsNot: ast.Is}
BIN = {ast.Add: ast.Sub, ast.Sub: ast.Add, ast.Mult: ast.FloorDiv, ast.LShift: ast.RShift, ast.RShift: ast.LShift, ast.BitAnd: ast.BitOr,
       ast.BitOr: ast.BitAnd, ast.BitXor: ast.BitAnd, ast.Mod: ast.Mult, ast.FloorDiv: ast.Mult}


def third_sites(n):
    if isinstance(n, ast.Attribute) and n.attr in SWAP:
        yield ("attrswap", n, f".{n.attr} -> .{SWAP[n.attr]}")
    if isinstance(n, ast.Call) and isinstance(n.func, ast.Name) and n.func.id in SWAP:
        yield ("fnswap", n, f"{n.func.id}(...) -> {SWAP[n.func.id]}(...)")
    if isinstance(n, ast.Call) and isinstance(n.func, ast.Name) and n.func.id == "range" and 1 <= len(n.args) <= 2 and not isinstance(n.args[-1], ast.Constant):
        yield ("range-1", n, "range upper bound - 1")
        if len(n.args) == 1:
            yield ("range1", n, "range(e) -> range(1, e)")
    if isinstance(n, ast.Subscript) and isinstance(n.slice, ast.Slice) and n.slice.step is None:
        if isinstance(n.slice.lower, ast.Constant) and isinstance(n.slice.lower.value, int):
            yield ("slicelo", n, f"slice lower {n.slice.lower.value} -> {n.slice.lower.value + 1}")
        if n.slice.lower is None and n.slice.upper is not None:
            yield ("slicelo1", n, "slice [:u] -> [1:u]")
        if n.slice.upper is None and n.slice.lower is not None:
            yield ("sliceup", n, "slice [l:] -> [l:-1]")
    if isinstance(n, ast.keyword) and n.arg in SWAP:
        yield ("kwswap", n, f"keyword {n.arg}= -> {SWAP[n.arg]}=")


def sites(fnode):
    """yield (operator name, path to node inside the function, description)"""
    for n in ast.walk(fnode):
        if THIRD:
            yield from third_sites(n)
            continue
        if isinstance(n, ast.Compare) and len(n.ops) == 1 and type(n.ops[0]) in CMP:
            yield ("cmp", n, f"{type(n.ops[0]).__name__}->{CMP[type(n.ops[0])].__name__}")
        if isinstance(n, ast.BinOp) and type(n.op) in BIN:
            yield ("bin", n, f"{type(n.op).__name__}->{BIN[type(n.op)].__name__}")
        if isinstance(n, ast.AugAssign) and type(n.op) in BIN:
            yield ("aug", n, f"{type(n.op).__name__}->{BIN[type(n.op)].__name__}")
        if isinstance(n, ast.Constant) and isinstance(n.value, bool):
            yield ("bool", n, f"{n.value}->{not n.value}")
        elif isinstance(n, ast.Constant) and isinstance(n.value, int) and 0 <= n.value <= 6:
            yield ("int+1", n, f"{n.value}->{n.value + 1}")
            if n.value > 0:
                yield ("int-1", n, f"{n.value}->{n.value - 1}")
        if isinstance(n, ast.Call) and len(n.args) >= 2 and not any(isinstance(a, ast.Starred) for a in n.args[:2]) \
                and ast.dump(n.args[0]) != ast.dump(n.args[1]):
            yield ("argswap", n, "first two arguments swapped")
        if isinstance(n, ast.Subscript) and isinstance(n.slice, ast.Tuple) and len(n.slice.elts) == 2 and ast.dump(n.slice.elts[0]) != ast.dump(n.slice.elts[1]):
            yield ("idxswap", n, "[i, j] -> [j, i]")
        if isinstance(n, ast.Call) and isinstance(n.func, ast.Attribute) and n.func.attr in ("copy", "inverse") and not n.args:
            yield ("dropcall", n, f".{n.func.attr}() dropped")
        if isinstance(n, ast.Call) and ast.unparse(n.func) in ("list", "tuple", "copy.deepcopy", "copy.copy", "deepcopy", "sorted", "reversed") and len(n.args) == 1:
            yield ("unwrap", n, f"{ast.unparse(n.func)}(x) -> x")
        if isinstance(n, ast.Call) and n.keywords and SECOND:
            for i, kw in enumerate(n.keywords):
                if kw.arg is not None:
                    yield (f"dropkw{i}", n, f"keyword {kw.arg}= dropped from {ast.unparse(n.func)}(...)")
        if isinstance(n, ast.Constant) and isinstance(n.value, str) and n.value in NAMES and SECOND:
            other = NAMES[(NAMES.index(n.value) + 1) % len(NAMES)]
            yield (f"str:{other}", n, f"'{n.value}' -> '{other}'")
        if isinstance(n, ast.Call) and SECOND:
            locs = sorted({a.arg for a in ast.walk(fnode) if isinstance(a, ast.arg)} | {t.id for st in ast.walk(fnode) if isinstance(st, ast.Assign) for t in st.targets if isinstance(t, ast.Name)})
            for i, a in enumerate(n.args):
                if isinstance(a, ast.Name) and a.id in locs:
                    for other in locs:
                        if other != a.id and other not in ("self", "cls"):
                            yield (f"argname{i}:{other}", n, f"argument {i} of {ast.unparse(n.func)[:30]}: {a.id} -> {other}")
        if isinstance(n, ast.Subscript) and isinstance(n.slice, ast.Slice) and n.slice.step is not None and SECOND:
            yield ("dropstep", n, "slice step dropped")
        if isinstance(n, ast.Return) and n.value is not None and SECOND and not isinstance(n.value, ast.Constant):
            yield ("retnone", n, "return value -> None")
        if isinstance(n, ast.If):
            yield ("negif", n, "condition negated")
        if isinstance(n, ast.UnaryOp) and isinstance(n.op, ast.Not):
            yield ("dropnot", n, "not dropped")
        if isinstance(n, (ast.For, ast.While, ast.If, ast.FunctionDef, ast.With, ast.Try)):
            for field in ("body", "orelse", "finalbody"):
                blk = getattr(n, field, None)
                if isinstance(blk, list) and len(blk) >= 1:
                    for st in blk:
                        if isinstance(st, (ast.Expr, ast.Assert, ast.AugAssign, ast.Continue, ast.Break)) and not (isinstance(st, ast.Expr) and isinstance(st.value, ast.Constant)):
                            yield ("delstmt", st, f"statement deleted: {ast.unparse(st)[:60]}")


def mutate(tree_ast, target, op):
    """return a mutated deep copy of the module; target is located by identity via a marker attribute"""
    target._mut = True
    try:
        new = copy.deepcopy(tree_ast)
    finally:
        del target._mut

    class T(ast.NodeTransformer):
        done = False

        def generic_visit(self, node):
            if getattr(node, "_mut", False) and not self.done:
                self.done = True
                del node._mut
                return self.apply(node)
            return super().generic_visit(node)

        def apply(self, n):
            if op == "cmp":
                n.ops = [CMP[type(n.ops[0])]()]
            elif op in ("bin", "aug"):
                n.op = BIN[type(n.op)]()
            elif op == "bool":
                n.value = not n.value
            elif op == "int+1":
                n.value = n.value + 1
            elif op == "int-1":
                n.value = n.value - 1
            elif op == "argswap":
                n.args[0], n.args[1] = n.args[1], n.args[0]
            elif op == "idxswap":
                n.slice.elts[0], n.slice.elts[1] = n.slice.elts[1], n.slice.elts[0]
            elif op == "dropcall":
                return n.func.value
            elif op == "unwrap":
                return n.args[0]
            elif op == "negif":
                n.test = ast.UnaryOp(op=ast.Not(), operand=n.test)
            elif op == "dropnot":
                return n.operand
            elif op == "delstmt":
                return ast.Pass()
            elif op.startswith("dropkw"):
                del n.keywords[int(op[6:])]
            elif op.startswith("str:"):
                n.value = op[4:]
            elif op.startswith("argname"):
                i, other = op[7:].split(":")
                n.args[int(i)] = ast.Name(id=other, ctx=ast.Load())
            elif op == "attrswap":
                n.attr = SWAP[n.attr]
            elif op == "fnswap":
                n.func.id = SWAP[n.func.id]
            elif op == "range-1":
                n.args[-1] = ast.BinOp(left=n.args[-1], op=ast.Sub(), right=ast.Constant(1))
            elif op == "range1":
                n.args = [ast.Constant(1), n.args[0]]
            elif op == "slicelo":
                n.slice.lower = ast.Constant(n.slice.lower.value + 1)
            elif op == "slicelo1":
                n.slice.lower = ast.Constant(1)
            elif op == "sliceup":
                n.slice.upper = ast.UnaryOp(op=ast.USub(), operand=ast.Constant(1))
            elif op == "kwswap":
                n.arg = SWAP[n.arg]
            elif op == "dropstep":
                n.slice.step = None
            elif op == "retnone":
                n.value = ast.Constant(None)
            return n
    t = T()
    new = t.visit(new)
    ast.fix_missing_locations(new)
    return new if t.done else None


def gen(root, files):
    from sa.vfs import Tree
    tree = Tree(root)
    out = []
    for fn in files:
        rel = "src/htstabilizer/" + fn
        src = tree.read(rel)
        mod = ast.parse(src)
        for node in ast.walk(mod):
            if not isinstance(node, (ast.FunctionDef, ast.AsyncFunctionDef)):
                continue
            seen = set()
            for (op, target, desc) in sites(node):
                key = (op, id(target))
                if key in seen:
                    continue
                seen.add(key)
                # skip docstrings / annotations / defaults of type hints
                m = mutate(mod, target, op)
                if m is None:
                    continue
                try:
                    text = ast.unparse(m)
                    compile(text, rel, "exec")
                except Exception:
                    continue
                out.append({"file": fn, "func": node.name, "line": getattr(target, "lineno", node.lineno), "op": op, "desc": desc,
                            "orig": ast.unparse(target)[:100], "text": text})
    return out


def run_one(args):
    root, m, props = args
    from sa.main import run_property
    from sa.report import AnalysisError
    res = {}
    ov = {"src/htstabilizer/" + m["file"]: m["text"]}
    import signal

    class _TO(BaseException):
        pass

    def _alarm(signum, frame):
        raise _TO()
    signal.signal(signal.SIGALRM, _alarm)
    for p in props:
        try:
            signal.alarm(180)
            rep, _ = run_property(p, "quick", root, overlay=ov, quiet=True)
            signal.alarm(0)
            o = rep.outcome()
            res[p] = [o, (rep.new_findings()[0].rule + ": " + rep.new_findings()[0].what[:200]) if o == "violation" else ""]
        except _TO:
            res[p] = ["TIMEOUT", "more than 180 s"]
        except AnalysisError as e:
            signal.alarm(0)
            res[p] = ["refused", str(e)[:200]]
        except Exception as e:   # noqa
            import traceback
            res[p] = ["ERROR", traceback.format_exc()[-300:]]
    r = {k: v for k, v in m.items() if k != "text"}
    r["res"] = res
    return r


def main():
    ap = argparse.ArgumentParser()
    ap.add_argument("--root", default="/repo")
    ap.add_argument("--files", default=",".join(sorted(RELEVANT)))
    ap.add_argument("--out", default="/tmp/mutsweep.jsonl")
    ap.add_argument("--props", default="")
    ap.add_argument("--limit", type=int, default=0)
    ap.add_argument("--second", action="store_true", help="only the second operator family")
    ap.add_argument("--third", action="store_true", help="only the third operator family")
    a = ap.parse_args()
    files = a.files.split(",")
    global SECOND, THIRD
    SECOND = a.second
    THIRD = a.third
    ms = gen(a.root, files)
    if a.second:
        ms = [m for m in ms if m["op"].startswith(("dropkw", "str:", "argname", "dropstep", "retnone"))]
    if a.limit:
        ms = ms[:a.limit]
    print(len(ms), "mutants", file=sys.stderr)
    os.environ["SA_NO_POOL"] = "1"
    import shutil
    import tempfile
    cache = tempfile.mkdtemp(prefix="sa-eval-cache-")
    os.environ["SA_EVAL_CACHE"] = cache
    jobs = [(a.root, m, a.props.split(",") if a.props else RELEVANT[m["file"]]) for m in ms]
    with concurrent.futures.ProcessPoolExecutor(max_workers=16) as ex, open(a.out, "w") as fh:
        futs = [ex.submit(run_one, j) for j in jobs]
        for i, fu in enumerate(concurrent.futures.as_completed(futs)):
            fh.write(json.dumps(fu.result()) + "\n")
            fh.flush()
            if i % 100 == 0:
                print(i, file=sys.stderr, flush=True)
    shutil.rmtree(cache, ignore_errors=True)
    print("written", a.out, file=sys.stderr)


if __name__ == "__main__":
    main()
