#!/venv/bin/python
"""(Re)compute seeded/EXPECTED.json: the outcome of every claimed check on every seeded change (patches applied
as in-memory overlays on --root).  Review the diff before committing: this file PINS the checker's behaviour."""
import concurrent.futures, glob, json, os, sys
V = os.path.dirname(os.path.dirname(os.path.abspath(__file__)))
sys.path.insert(0, V)
from sa import selftest
from sa.main import PROPS
root = sys.argv[1] if len(sys.argv) > 1 else "/repo"
jobs = [(os.path.basename(os.path.dirname(p)), pid, root, None) for p in sorted(glob.glob(os.path.join(V, "seeded", "*", "patch.diff"))) for pid in PROPS]
with concurrent.futures.ProcessPoolExecutor(max_workers=16) as ex:
    res = list(ex.map(selftest._run_seed, jobs))
exp = {}
msgs = {}
_old_pins = json.load(open(os.path.join(V, "seeded", "EXPECTED.json"))) if os.path.exists(os.path.join(V, "seeded", "EXPECTED.json")) else {}
for (_, sid, pid, status, msg) in res:
    if status == "skipped":
        # the patch no longer applies to this tree (the tree moved on, e.g. a repair touched the same lines): the pin
        # recorded when it did apply is kept; the self-test skips such an entry
        if sid in _old_pins and pid in _old_pins[sid]:
            exp.setdefault(sid, {})[pid] = _old_pins[sid][pid]
            msgs.setdefault(sid, {})[pid] = "(patch does not apply to the current tree; outcome recorded on the tree it was written for)"
        else:
            print("PROBLEM", sid, pid, status, msg)
        continue
    if not status.startswith("observed:"):
        print("PROBLEM", sid, pid, status, msg)
        continue
    exp.setdefault(sid, {})[pid] = status.split(":")[1]
    msgs.setdefault(sid, {})[pid] = msg
for sid, per in exp.items():
    mp = os.path.join(V, "seeded", sid, "meta.json")
    if os.path.exists(mp):
        m = json.load(open(mp))
        m["checks_reporting_violation"] = sorted(p for p, o in per.items() if o == "violation")
        m["checks_ending_in_analysis_error"] = sorted(p for p, o in per.items() if o == "refused")
        if not any("does not apply" in (msgs[sid].get(p) or "") for p in per):
            m["first_findings"] = {p: ["finding rule=" + msgs[sid][p]] for p, o in per.items() if o == "violation"}
            m["analysis_errors"] = {p: [msgs[sid][p]] for p, o in per.items() if o == "refused"}
        else:
            m["note"] = "the patch no longer applies to the current /repo HEAD (a later repair touched the same lines); the outcomes are those recorded on the tree it was written for"
        json.dump(m, open(mp, "w"), indent=1)
old = {}
ep = os.path.join(V, "seeded", "EXPECTED.json")
if os.path.exists(ep):
    old = json.load(open(ep))
for sid in sorted(exp):
    for pid in PROPS:
        a, b = old.get(sid, {}).get(pid), exp[sid].get(pid)
        if a != b:
            print(f"{sid} {pid}: {a} -> {b}")
json.dump(exp, open(ep, "w"), indent=0, sort_keys=True)
print(len(exp), "seeds x", len(PROPS), "properties written to", ep)
