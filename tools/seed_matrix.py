#!/venv/bin/python
"""Markdown catch matrix of /verif/seeded/*/meta.json (for DESIGN.md 9.6)."""
import glob, json, os
V = os.path.dirname(os.path.dirname(os.path.abspath(__file__)))
rows = []
for mp in sorted(glob.glob(os.path.join(V, "seeded", "*", "meta.json"))):
    m = json.load(open(mp))
    det = m["checks_reporting_violation"]
    rules = []
    for p in det:
        for f in m["first_findings"].get(p, [])[:1]:
            if f.startswith("finding rule="):
                rules.append(f"{p}/{f.split('=')[1].split(' ')[0].rstrip(':')}")
    outcome = ", ".join(rules) if rules else ("refused (exit 2): " + ", ".join(m["checks_ending_in_analysis_error"]) if m["checks_ending_in_analysis_error"] else "**missed**")
    if rules and m["checks_ending_in_analysis_error"]:
        outcome += f"; exit 2: {', '.join(m['checks_ending_in_analysis_error'])}"
    rows.append(f"| {m['id']} | {m['change']} | {m['needs_to_manifest']} | {outcome} |")
print("| id | change | needs, in order to manifest | caught by (check/rule) |")
print("|---|---|---|---|")
print("\n".join(rows))
