#!/venv/bin/python
"""Confirm a seeded change and run the checks against it.

  tools/seedcheck.py confirm <dir>   demo passes without / fails with the patch, baseline tests unchanged
                                     (in a scratch worktree under /tmp, removed afterwards)
  tools/seedcheck.py checks  <dir>   git apply in /repo, run every quick check, git apply -R
  tools/seedcheck.py all     <dir> [<dir> ...]
<dir> contains patch.diff and demo.py.  Results are written to <dir>/result.json.
"""
import json
import os
import subprocess
import sys
import tempfile
import xml.etree.ElementTree as ET

V = os.path.dirname(os.path.dirname(os.path.abspath(__file__)))
PROPS = ["C02", "C03", "C04", "C05", "C07", "C08", "C09", "C10", "C11", "C12", "C13", "C14", "C16", "C17", "C18", "C19"]


def sh(cmd, cwd=None, env=None, timeout=3600):
    p = subprocess.run(cmd, shell=True, cwd=cwd, env=env, capture_output=True, text=True, timeout=timeout)
    return p.returncode, p.stdout + p.stderr


def confirm(d):
    patch = os.path.abspath(os.path.join(d, "patch.diff"))
    demo = os.path.abspath(os.path.join(d, "demo.py"))
    wt = tempfile.mkdtemp(prefix="seedwt_", dir="/tmp")
    os.rmdir(wt)
    res = {}
    try:
        rc, out = sh(f"git -C /repo worktree add -q --detach {wt} HEAD")
        assert rc == 0, out
        env = dict(os.environ, PYTHONPATH=f"{wt}/src")
        rc0, out0 = sh(f"/venv/bin/python {demo}", cwd=wt, env=env, timeout=1800)
        res["demo_without"] = {"exit": rc0, "tail": out0[-600:]}
        rc, out = sh(f"git apply {patch}", cwd=wt)
        res["applies"] = rc == 0
        if rc != 0:
            res["apply_error"] = out[-400:]
            return res
        rc1, out1 = sh(f"/venv/bin/python {demo}", cwd=wt, env=env, timeout=1800)
        res["demo_with"] = {"exit": rc1, "tail": out1[-600:]}
        rc, out = sh(f"/venv/bin/python -m pytest -q -p no:cacheprovider --timeout=900 --continue-on-collection-errors -n 8 --junitxml={wt}/junit.xml tests", cwd=wt, env=env, timeout=3000)
        base = json.load(open("/root/.vp/BASELINE.json"))
        got = {}
        try:
            for tc in ET.parse(f"{wt}/junit.xml").iter("testcase"):
                name = tc.get("classname") + "::" + tc.get("name")
                st = "pass"
                for ch in tc:
                    if ch.tag in ("failure", "error"):
                        st = "fail"
                    if ch.tag == "skipped":
                        st = "skip"
                got[name] = st
        except Exception as e:
            res["junit_error"] = str(e)
        broken = [n for n in base["stable_pass"] if got.get(n) != "pass"]
        res["baseline_tests_broken"] = broken
        res["tests_summary"] = out.strip().split("\n")[-1][-200:]
        res["confirmed"] = (rc0 == 0 and rc1 != 0 and not broken and bool(got))
    finally:
        sh(f"git -C /repo worktree remove --force {wt}")
        sh(f"rm -rf {wt}")
    return res


def confirm_refactor(d):
    """behaviour-preserving refactoring: demo prints the same digest (stdout identical, exit 0) without and with the
    patch, and the baseline tests are unchanged"""
    patch = os.path.abspath(os.path.join(d, "patch.diff"))
    demo = os.path.abspath(os.path.join(d, "demo.py"))
    wt = tempfile.mkdtemp(prefix="seedwt_", dir="/tmp")
    os.rmdir(wt)
    res = {}
    try:
        rc, out = sh(f"git -C /repo worktree add -q --detach {wt} HEAD")
        assert rc == 0, out
        env = dict(os.environ, PYTHONPATH=f"{wt}/src", PYTHONWARNINGS="ignore")
        p0 = subprocess.run(f"/venv/bin/python {demo}", shell=True, cwd="/", env=env, capture_output=True, text=True, timeout=3000)
        rc, out = sh(f"git apply {patch}", cwd=wt)
        res["applies"] = rc == 0
        if rc != 0:
            res["apply_error"] = out[-400:]
            return res
        p1 = subprocess.run(f"/venv/bin/python {demo}", shell=True, cwd="/", env=env, capture_output=True, text=True, timeout=3000)
        res["demo_without"] = {"exit": p0.returncode, "tail": p0.stdout[-300:]}
        res["demo_with"] = {"exit": p1.returncode, "tail": p1.stdout[-300:]}
        res["same_output"] = p0.stdout == p1.stdout
        rc, out = sh(f"/venv/bin/python -m pytest -q -p no:cacheprovider --timeout=900 --continue-on-collection-errors -n 8 --junitxml={wt}/junit.xml tests", cwd=wt, env=env, timeout=3000)
        base = json.load(open("/root/.vp/BASELINE.json"))
        got = {}
        for tc in ET.parse(f"{wt}/junit.xml").iter("testcase"):
            name = tc.get("classname") + "::" + tc.get("name")
            st = "pass"
            for ch in tc:
                if ch.tag in ("failure", "error"):
                    st = "fail"
                if ch.tag == "skipped":
                    st = "skip"
            got[name] = st
        res["baseline_tests_broken"] = [n for n in base["stable_pass"] if got.get(n) != "pass"]
        res["tests_summary"] = out.strip().split("\n")[-1][-200:]
        res["confirmed"] = (p0.returncode == 0 and p1.returncode == 0 and res["same_output"] and not res["baseline_tests_broken"] and bool(got))
    finally:
        sh(f"git -C /repo worktree remove --force {wt}")
        sh(f"rm -rf {wt}")
    return res


def checks(d):
    patch = os.path.abspath(os.path.join(d, "patch.diff"))
    rc, out = sh("git -C /repo status --porcelain")
    assert out.strip() == "", "/repo is not clean: " + out
    rc, out = sh(f"git -C /repo apply {patch}")
    assert rc == 0, out
    res = {}
    try:
        for p in PROPS:
            rc, out = sh(f"./check {p} --tier quick", cwd=V, timeout=600)
            viol = [l for l in out.split("\n") if l.startswith("finding ")]
            res[p] = {"exit": rc, "findings": [v[:300] for v in viol][:6], "error": [l[:300] for l in out.split("\n") if l.startswith("ANALYSIS-ERROR")][:2]}
    finally:
        rc, out = sh(f"git -C /repo apply -R {patch}")
        assert rc == 0, out
        rc, out = sh("git -C /repo status --porcelain")
        assert out.strip() == "", "/repo not restored: " + out
    return res


def main():
    mode = sys.argv[1]
    for d in sys.argv[2:]:
        # separate files per mode: the two modes may run concurrently on the same directory
        r = {}
        if mode in ("confirm", "all"):
            r["confirm"] = confirm(d)
            json.dump(r["confirm"], open(os.path.join(d, "confirm.json"), "w"), indent=1)
        if mode == "confirm-refactor":
            r["confirm"] = confirm_refactor(d)
            json.dump(r["confirm"], open(os.path.join(d, "confirm.json"), "w"), indent=1)
        if mode in ("checks", "all"):
            r["checks"] = checks(d)
            json.dump(r["checks"], open(os.path.join(d, "checks.json"), "w"), indent=1)
        c = r.get("confirm", {})
        ch = r.get("checks", {})
        fired = {p: v["exit"] for p, v in ch.items() if v["exit"] != 0}
        print(f"{d}: confirmed={c.get('confirmed')} demo_without={c.get('demo_without', {}).get('exit')} demo_with={c.get('demo_with', {}).get('exit')} broken_tests={len(c.get('baseline_tests_broken', []))} checks_nonzero={fired}")


if __name__ == "__main__":
    main()
