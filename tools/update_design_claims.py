#!/venv/bin/python
"""Rewrite section 9.7 of DESIGN.md (between the CLAIMS markers) from sa/claims.py."""
import os, sys
V = os.path.dirname(os.path.dirname(os.path.abspath(__file__)))
sys.path.insert(0, V)
from sa import claims
rows = ["| property | what the check decides on every run (as built; §4 is the plan, §9.5 the history) |", "|---|---|"]
for pid in sorted(claims.CLAIMS):
    rows.append(f"| {pid} | {claims.CLAIMS[pid]['text'].replace('|', '/')} |")
na = ["| property | why static analysis does not apply |", "|---|---|"]
for pid in sorted(claims.NOT_APPLICABLE):
    na.append(f"| {pid} | {claims.NOT_APPLICABLE[pid].replace('|', '/')} |")
block = "<!-- CLAIMS-BEGIN -->\n" + "\n".join(rows) + "\n\nNot applicable (listed under `not_applicable` in MANIFEST.json):\n\n" + "\n".join(na) + "\n<!-- CLAIMS-END -->"
p = os.path.join(V, "DESIGN.md")
s = open(p).read()
a = s.index("<!-- CLAIMS-BEGIN -->")
b = s.index("<!-- CLAIMS-END -->") + len("<!-- CLAIMS-END -->")
open(p, "w").write(s[:a] + block + s[b:])
print("section 9.7 rewritten")
