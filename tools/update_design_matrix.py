#!/venv/bin/python
"""Rewrite section 9.6 of DESIGN.md (between the SEED-MATRIX markers) from seeded/*/meta.json and seeded/EXPECTED.json."""
import glob, json, os, subprocess
V = os.path.dirname(os.path.dirname(os.path.abspath(__file__)))
exp = json.load(open(os.path.join(V, "seeded", "EXPECTED.json")))
metas = {os.path.basename(os.path.dirname(p)): json.load(open(p)) for p in glob.glob(os.path.join(V, "seeded", "*", "meta.json"))}
defects = sorted(k for k in metas if not k.startswith("R"))
refac = sorted(k for k in metas if k.startswith("R"))

def outcome(sid):
    per = exp.get(sid, {})
    m = metas[sid]
    det = sorted(p for p, o in per.items() if o == "violation")
    ref = sorted(p for p, o in per.items() if o == "refused")
    parts = []
    for p in det:
        f = (m.get("first_findings", {}).get(p) or [""])[0]
        rule = f.split("=")[1].split(" ")[0].rstrip(":") if f.startswith("finding rule=") else "?"
        parts.append(f"{p}/{rule}")
    s = ", ".join(parts) if parts else ("**missed**" if not ref else "")
    if ref:
        s += ("; " if s else "") + "refused (exit 2): " + ", ".join(ref)
    return s, bool(det), bool(ref)

# seeds that are no longer defects on the current /repo HEAD (re-run of every demo after each repair): kept in the corpus
# as must-stay-silent material, reported separately
SUPERSEDED = {sid: m["superseded"] for sid, m in metas.items() if m.get("superseded")}
lines = []
nd = nr = nm = ns = 0
lines.append("| id | change (written by an independent sub-agent) | needs, in order to manifest | outcome of the checks (check/rule) |")
lines.append("|---|---|---|---|")
for sid in defects:
    o, d, r = outcome(sid)
    m = metas[sid]
    if sid in SUPERSEDED:
        ns += 1
        lines.append(f"| {sid} | {m['change']} | {m['needs_to_manifest']} | no longer a defect: {SUPERSEDED[sid]} ({'all checks pass' if not d and not r else o}) |")
        continue
    nd += d
    nr += (not d and r)
    nm += (not d and not r)
    lines.append(f"| {sid} | {m['change']} | {m['needs_to_manifest']} | {o} |")
head = (f"{len(defects) - ns} confirmed seeded defects (demo fails with / passes without the patch; the 152 baseline tests unchanged): "
        f"**{nd} reported as violation** by at least one check, **{nr} refused** (every affected check ends in exit 2 - the change moves the code "
        f"outside the vocabulary, no verdict), **{nm} missed** (value-level clauses listed as *not decided*, plus a changed default argument and costlier-but-valid table rows)."
        + (f" {ns} further seed(s) stopped being a defect when a repair landed in `/repo` (every demo is re-run on HEAD + patch after each repair) and must now stay silent.\n" if ns else "\n"))
rl = ["| id | refactoring | outcome (never a violation) |", "|---|---|---|"]
npass = nref = 0
for sid in refac:
    per = exp.get(sid, {})
    ref = sorted(p for p, o in per.items() if o == "refused")
    viol = sorted(p for p, o in per.items() if o == "violation")
    assert not viol, (sid, viol)
    npass += (not ref)
    nref += bool(ref)
    rl.append(f"| {sid} | {metas[sid]['change']} | {'all 16 checks pass' if not ref else 'pass, except refused (exit 2): ' + ', '.join(ref)} |")
rhead = (f"\n{len(refac)} confirmed behaviour-preserving refactorings (digest script prints identical output without / with the patch; baseline tests unchanged): "
         f"no check reports a violation on any of them; {npass} pass all 16 checks, {nref} push one or more checks to exit 2.\n")
block = "<!-- SEED-MATRIX-BEGIN -->\n" + head + "\n" + "\n".join(lines) + "\n" + rhead + "\n" + "\n".join(rl) + "\n<!-- SEED-MATRIX-END -->"
dp = os.path.join(V, "DESIGN.md")
s = open(dp).read()
if "<!-- SEED-MATRIX-BEGIN -->" in s:
    a = s.index("<!-- SEED-MATRIX-BEGIN -->")
    b = s.index("<!-- SEED-MATRIX-END -->") + len("<!-- SEED-MATRIX-END -->")
    s = s[:a] + block + s[b:]
else:
    s = s.rstrip("\n") + "\n\n### 9.6 Which checks catch which seeded changes\n\nEvery change below lives in `/verif/seeded/<id>/` (patch.diff, demo.py, notes.md, meta.json); the outcome of each of the 16\nchecks on each of them is pinned in `seeded/EXPECTED.json` and re-run (patch applied as an in-memory overlay) by `./check selftest`\nand by the thorough tier of every property. Detection by a check other than the one the change was written for is normal: the\nagents saw one property each, the defects do not respect that boundary.\n\n" + block + "\n"
open(dp, "w").write(s)
print(head, rhead)
